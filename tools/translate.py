"""
T-py / T-pyx: translate a whitelisted subset of Python / Cython source to Lean 4.

The translator is deliberately small and *refuses* (raises Unsupported) anything
outside the subset it knows; a refusal is reported by the checks as "tie broken".

Value types:  R scalar (generic alpha) | I Int | N Nat (loop counters) | B Bool |
              P point | X intersections | BB BBox | S Slc | tuples ('T', [..]) | OPT t
Function modes: 'pure' (returns T) or 'exc' (returns Except Err T).
"""
import ast
import re
import hashlib

HEADER_CLASSES = ('{α : Type} [Add α] [Sub α] [Mul α] [Div α] [Neg α] [LT α] [LE α] '
                  '[DecidableLT α] [DecidableLE α] [OfScientific α] [NatCast α] [IntCast α] '
                  '[FloorOps α] [MathOps α]')


class Unsupported(Exception):
    pass


def lean_type(t):
    if isinstance(t, tuple):
        if t[0] == 'T':
            return '(' + ' × '.join(lean_type(x) for x in t[1]) + ')'
        if t[0] == 'OPT':
            return '(Option ' + lean_type(t[1]) + ')'
    return {'R': 'α', 'I': 'Int', 'N': 'Nat', 'B': 'Bool', 'P': 'Point α', 'X': 'Inter α',
            'BB': 'BBox', 'S': 'Slc', 'G': 'EGeom α'}[t]


def default_val(t):
    if isinstance(t, tuple):
        if t[0] == 'T':
            return '(' + ', '.join(default_val(x) for x in t[1]) + ')'
        if t[0] == 'OPT':
            return 'none'
    return {'R': '(0.0 : α)', 'I': '(0 : Int)', 'N': '(0 : Nat)', 'B': 'false',
            'P': '(⟨0.0, 0.0⟩ : Point α)', 'X': '(⟨⟨0.0, 0.0⟩, ⟨0.0, 0.0⟩⟩ : Inter α)',
            'BB': '(⟨0,0,0,0⟩ : BBox)', 'S': '(⟨0,0⟩ : Slc)'}[t]


class FnSpec:
    def __init__(self, name, lean_name, params, ret, node, mode='pure', locals_=None,
                 grid=None, self_type=None, src=''):
        self.name = name
        self.lean_name = lean_name
        self.params = params          # list of (pyname, type)
        self.ret = ret                # value type
        self.node = node              # ast.FunctionDef
        self.mode = mode
        self.locals = dict(locals_ or {})
        self.grid = grid              # None or (ivar, jvar, arrayname)
        self.recursive = False
        self.self_type = self_type
        self.src = src
        self.fuel_const = 8


FIELD_TYPES = {
    'P': {'x': 'R', 'y': 'R'},
    'X': {'p1': 'P', 'p2': 'P'},
    'BB': {'ixmin': 'I', 'ixmax': 'I', 'iymin': 'I', 'iymax': 'I'},
    'S': {'start': 'I', 'stop': 'I'},
    'G': {'sma': 'R', 'linear_growth': 'B'},
}

MATH_FUNCS = {'sqrt': 'MathOps.sqrt', 'asin': 'MathOps.asin', 'sin': 'MathOps.sin',
              'cos': 'MathOps.cos', 'fabs': 'MathOps.fabs', 'abs': 'MathOps.fabs'}


def names_in(nodes):
    out = set()
    for n in nodes if isinstance(nodes, list) else [nodes]:
        for x in ast.walk(n):
            if isinstance(x, ast.Name):
                out.add(x.id)
    return out


def assigned_in(stmts):
    out = []

    def tgt(t):
        if isinstance(t, ast.Name):
            if t.id not in out:
                out.append(t.id)
        elif isinstance(t, ast.Tuple):
            for e in t.elts:
                tgt(e)
        elif isinstance(t, ast.Attribute):
            b = t
            while isinstance(b, ast.Attribute):
                b = b.value
            tgt(b)
        elif isinstance(t, ast.Subscript):
            pass
        else:
            raise Unsupported(f'assignment target {ast.dump(t)}')

    for s in stmts:
        for x in ast.walk(s):
            if isinstance(x, ast.Assign):
                for t in x.targets:
                    tgt(t)
            elif isinstance(x, ast.AugAssign):
                tgt(x.target)
            elif isinstance(x, ast.For):
                pass
    return out


class Translator:
    def __init__(self, fns):
        self.fns = {f.name: f for f in fns}
        self.order = [f.name for f in fns]
        self.tmp = 0
        # recursion / exc propagation
        for f in fns:
            calls = {c.func.id for c in ast.walk(f.node) if isinstance(c, ast.Call)
                     and isinstance(c.func, ast.Name)}
            f.calls = calls & set(self.fns)
            if f.name in f.calls:
                f.recursive = True
                f.mode = 'exc'
        changed = True
        while changed:
            changed = False
            for f in fns:
                if f.mode != 'exc' and any(self.fns[c].mode == 'exc' for c in f.calls):
                    f.mode = 'exc'
                    changed = True

    # ---------- types
    def etype(self, e, env):
        if isinstance(e, ast.Constant):
            if isinstance(e.value, bool):
                return 'B'
            if isinstance(e.value, int):
                return 'I'
            if isinstance(e.value, float):
                return 'R'
            if e.value is None:
                return ('OPT', 'BB')
            raise Unsupported(f'constant {e.value!r}')
        if isinstance(e, ast.Name):
            if e.id in env:
                return env[e.id]
            if e.id == 'PI':
                return 'R'
            raise Unsupported(f'unknown name {e.id} (line {e.lineno})')
        if isinstance(e, ast.Attribute):
            if isinstance(e.value, ast.Name) and e.value.id == 'np' and e.attr == 'pi':
                return 'R'
            bt = self.etype(e.value, env)
            if bt in FIELD_TYPES and e.attr in FIELD_TYPES[bt]:
                return FIELD_TYPES[bt][e.attr]
            raise Unsupported(f'attribute .{e.attr} on {bt}')
        if isinstance(e, ast.UnaryOp):
            if isinstance(e.op, ast.Not):
                return 'B'
            return self.etype(e.operand, env)
        if isinstance(e, ast.BinOp):
            a, b = self.etype(e.left, env), self.etype(e.right, env)
            if isinstance(e.op, ast.Div):
                return 'R'
            if isinstance(e.op, ast.Pow):
                return a
            if isinstance(e.op, (ast.Mod, ast.FloorDiv)):
                return 'I'
            if 'R' in (a, b):
                return 'R'
            return 'I'
        if isinstance(e, (ast.Compare, ast.BoolOp)):
            return 'B'
        if isinstance(e, ast.Subscript):
            bt = self.etype(e.value, env)
            if isinstance(bt, tuple) and bt[0] == 'T' and isinstance(e.slice, ast.Constant):
                return bt[1][e.slice.value]
            raise Unsupported('subscript')
        if isinstance(e, ast.Tuple):
            return ('T', [self.etype(x, env) for x in e.elts])
        if isinstance(e, ast.Call):
            fn = self.callname(e)
            if fn in MATH_FUNCS:
                return 'R'
            if fn in ('math.floor', 'math.ceil'):
                return 'I'
            if fn in ('min', 'max'):
                ts = [self.etype(a, env) for a in self.minmax_args(e)]
                return 'R' if 'R' in ts else 'I'
            if fn == 'slice':
                return 'S'
            if fn == 'len':
                return 'I'
            if fn in ('cls', 'BoundingBox'):
                return 'BB'
            if fn in self.fns:
                return self.fns[fn].ret
            raise Unsupported(f'call {fn}')
        raise Unsupported(f'expr {ast.dump(e)[:80]}')

    def callname(self, e):
        if isinstance(e.func, ast.Name):
            return e.func.id
        if isinstance(e.func, ast.Attribute) and isinstance(e.func.value, ast.Name):
            return e.func.value.id + '.' + e.func.attr
        raise Unsupported('call target')

    def minmax_args(self, e):
        if len(e.args) == 1 and isinstance(e.args[0], ast.Tuple):
            return e.args[0].elts
        return e.args

    # ---------- expressions
    def cast(self, s, frm, to):
        if frm == to:
            return s
        if to == 'R' and frm == 'I':
            return f'((({s} : Int)) : α)'
        if to == 'R' and frm == 'N':
            return f'((({s} : Nat)) : α)'
        if to == 'I' and frm == 'N':
            return f'((({s} : Nat)) : Int)'
        if to == 'I' and frm == 'B':
            return f'(if {s} then (1 : Int) else 0)'
        if to == 'R' and frm == 'B':
            return f'(if {s} then (1.0 : α) else 0.0)'
        if to == 'B' and frm == 'I':
            return f'(decide ({s} ≠ (0 : Int)))'
        if isinstance(to, tuple) and to[0] == 'OPT' and frm == to[1]:
            return f'(some {s})'
        raise Unsupported(f'cast {frm} -> {to}')

    def lit(self, v, want):
        if want == 'R':
            r = repr(float(v))
            if 'e' in r and '.' not in r.split('e')[0]:
                m, ex = r.split('e')
                r = m + '.0e' + ex
            if r.startswith('-'):
                return f'(-({r[1:]} : α))'
            return f'({r} : α)'
        if isinstance(v, float):
            raise Unsupported('float literal in integer context')
        return f'({v} : Int)' if v >= 0 else f'(-{-v} : Int)'

    def emit(self, e, env, want=None):
        """emit expression e; if want is given the result is coerced to that type"""
        t = self.etype(e, env)
        if want is None:
            want = t
        if isinstance(e, ast.Constant):
            if e.value is None:
                return 'none'
            if isinstance(e.value, bool):
                return self.cast('true' if e.value else 'false', 'B', want)
            if want in ('R', 'I'):
                return self.lit(e.value, want)
            if want == 'B':
                return 'true' if e.value else 'false'
            raise Unsupported('constant context')
        if isinstance(e, ast.Name):
            if e.id == 'PI' and e.id not in env:
                return 'MathOps.pi'
            return self.cast(e.id, t, want)
        if isinstance(e, ast.Attribute):
            if isinstance(e.value, ast.Name) and e.value.id == 'np' and e.attr == 'pi':
                return '(MathOps.pi : α)'
            return self.cast(f'{self.emit(e.value, env)}.{e.attr}', t, want)
        if isinstance(e, ast.UnaryOp):
            if isinstance(e.op, ast.USub):
                if isinstance(e.operand, ast.Constant):
                    return self.lit(-e.operand.value, want if want in ('R', 'I') else t)
                return self.cast(f'(-{self.emit(e.operand, env, t)})', t, want)
            if isinstance(e.op, ast.UAdd):
                return self.emit(e.operand, env, want)
            if isinstance(e.op, ast.Not):
                return self.cast(f'(!{self.emit(e.operand, env, "B")})', 'B', want)
            raise Unsupported('unary op')
        if isinstance(e, ast.BinOp):
            if isinstance(e.op, ast.Pow):
                if isinstance(e.right, ast.Constant) and e.right.value == 2:
                    a = self.emit(e.left, env, t)
                    return self.cast(f'({a} * {a})', t, want)
                raise Unsupported('** with exponent other than 2')
            if isinstance(e.op, ast.Mod):
                return self.cast(f'({self.emit(e.left, env, "I")} % {self.emit(e.right, env, "I")})',
                                 'I', want)
            op = {ast.Add: '+', ast.Sub: '-', ast.Mult: '*', ast.Div: '/'}.get(type(e.op))
            if op is None:
                raise Unsupported(f'binop {type(e.op).__name__}')
            a = self.emit(e.left, env, t)
            b = self.emit(e.right, env, t)
            return self.cast(f'({a} {op} {b})', t, want)
        if isinstance(e, (ast.Compare, ast.BoolOp)):
            return self.cast(f'(decide {self.prop(e, env)})', 'B', want)
        if isinstance(e, ast.Subscript):
            bt = self.etype(e.value, env)
            i = e.slice.value
            n = len(bt[1])
            base = self.emit(e.value, env)
            proj = base + ('.2' * i) + ('.1' if i < n - 1 else '')
            return self.cast(proj, t, want)
        if isinstance(e, ast.Tuple):
            inner = want[1] if isinstance(want, tuple) and want[0] == 'OPT' else want
            wt = inner[1] if isinstance(inner, tuple) and inner[0] == 'T' else [None] * len(e.elts)
            s_ = '(' + ', '.join(self.emit(x, env, w) for x, w in zip(e.elts, wt)) + ')'
            if isinstance(want, tuple) and want[0] == 'OPT':
                return f'(some {s_})'
            return s_
        if isinstance(e, ast.Call):
            fn = self.callname(e)
            if fn in MATH_FUNCS:
                return self.cast(f'({MATH_FUNCS[fn]} {self.emit(e.args[0], env, "R")})', 'R', want)
            if fn == 'math.floor':
                return self.cast(f'(FloorOps.floorI {self.emit(e.args[0], env, "R")})', 'I', want)
            if fn == 'math.ceil':
                return self.cast(f'(FloorOps.ceilI {self.emit(e.args[0], env, "R")})', 'I', want)
            if fn in ('min', 'max'):
                args = self.minmax_args(e)
                if len(args) != 2:
                    raise Unsupported('min/max arity')
                f = 'pymin' if fn == 'min' else 'pymax'
                return self.cast(f'({f} {self.emit(args[0], env, t)} {self.emit(args[1], env, t)})',
                                 t, want)
            if fn == 'slice':
                return f'(Slc.mk {self.emit(e.args[0], env, "I")} {self.emit(e.args[1], env, "I")})'
            if fn == 'len':
                bt = self.etype(e.args[0], env)
                if isinstance(bt, tuple) and bt[0] == 'T':
                    return self.lit(len(bt[1]), want)
                raise Unsupported('len')
            if fn in self.fns:
                f = self.fns[fn]
                if f.mode == 'exc':
                    raise Unsupported(f'call to exc function {fn} not hoisted (line {e.lineno})')
                return self.cast(self.call_str(f, e, env), f.ret, want)
            raise Unsupported(f'call {fn}')
        raise Unsupported(f'expr {type(e).__name__}')

    def call_str(self, f, e, env, fuel='fuel'):
        args = list(e.args)
        if e.keywords:
            kw = {k.arg: k.value for k in e.keywords}
            args = args + [kw[p] for p, _ in f.params[len(args):]]
        if len(args) != len(f.params):
            raise Unsupported(f'arity of call to {f.name}')
        parts = [self.emit(a, env, pt) for a, (_, pt) in zip(args, f.params)]
        fu = ''
        if f.recursive:
            fu = ' ' + fuel
        return f'({f.lean_name}{fu} ' + ' '.join(parts) + ')'

    def prop(self, e, env):
        """emit a decidable Prop"""
        if isinstance(e, ast.BoolOp):
            op = ' ∧ ' if isinstance(e.op, ast.And) else ' ∨ '
            return '(' + op.join(self.prop(v, env) for v in e.values) + ')'
        if isinstance(e, ast.UnaryOp) and isinstance(e.op, ast.Not):
            return f'(¬ {self.prop(e.operand, env)})'
        if isinstance(e, ast.Compare):
            parts = []
            left = e.left
            for op, right in zip(e.ops, e.comparators):
                ta, tb = self.etype(left, env), self.etype(right, env)
                if isinstance(op, (ast.Is, ast.IsNot)):
                    raise Unsupported('is/is not')
                t = 'R' if 'R' in (ta, tb) else ('B' if ta == 'B' and tb == 'B' else 'I')
                o = {ast.Lt: '<', ast.LtE: '≤', ast.Gt: '>', ast.GtE: '≥', ast.Eq: '=',
                     ast.NotEq: '≠'}[type(op)]
                if t == 'R' and o in ('=', '≠'):
                    raise Unsupported('float equality')
                parts.append(f'({self.emit(left, env, t)} {o} {self.emit(right, env, t)})')
                left = right
            return parts[0] if len(parts) == 1 else '(' + ' ∧ '.join(parts) + ')'
        t = self.etype(e, env)
        if t == 'B':
            return f'({self.emit(e, env, "B")} = true)'
        if t == 'I':
            return f'({self.emit(e, env, "I")} ≠ 0)'
        raise Unsupported('condition of non-bool type')

    # ---------- statements
    def fresh(self, base='t'):
        self.tmp += 1
        return f'{base}_{self.tmp}'

    def hoist(self, e, env):
        """find calls to exc-mode functions in e; return (binds, new_e, env')"""
        binds = []
        tr = self

        class H(ast.NodeTransformer):
            def visit_Call(self, node):
                self.generic_visit(node)
                if isinstance(node.func, ast.Name) and node.func.id in tr.fns \
                        and tr.fns[node.func.id].mode == 'exc':
                    nm = tr.fresh('r')
                    binds.append((nm, node))
                    return ast.copy_location(ast.Name(id=nm, ctx=ast.Load()), node)
                if isinstance(node.func, ast.Name) and node.func.id in ('cls', 'BoundingBox'):
                    nm = tr.fresh('r')
                    binds.append((nm, node))
                    return ast.copy_location(ast.Name(id=nm, ctx=ast.Load()), node)
                return node
        import copy
        new_e = H().visit(copy.deepcopy(e))
        return binds, new_e

    def with_binds(self, binds, env, body_fn):
        """emit nested matches for hoisted exc calls; body_fn(env) -> str"""
        env = dict(env)
        pre = ''
        post = ''
        for nm, call in binds:
            fn = self.callname(call)
            if fn in ('cls', 'BoundingBox'):
                f = self.fns['__init__']
                # keyword or positional
                args = list(call.args)
                if call.keywords:
                    kw = {k.arg: k.value for k in call.keywords}
                    args = args + [kw[p] for p, _ in f.params[len(args):]]
                cs = f'({f.lean_name} ' + ' '.join(self.emit(a, env, 'I') for a in args) + ')'
                rt = 'BB'
            else:
                f = self.fns[fn]
                cs = self.call_str(f, call, env)
                rt = f.ret
            pre += f'match {cs} with\n| .error e => .error e\n| .ok {nm} =>\n'
            env[nm] = rt
        return pre + body_fn(env) + post

    def ret(self, f, s):
        return f'(.ok {s})' if f.mode == 'exc' else s

    def block(self, f, stmts, env, k, live):
        """compile stmts; k(env) gives the fall-through continuation text"""
        if not stmts:
            return k(env)
        s, rest = stmts[0], stmts[1:]
        cont = lambda env2: self.block(f, rest, env2, k, live)
        rest_names = names_in(rest) | live

        if isinstance(s, ast.Expr) and isinstance(s.value, ast.Constant):
            return cont(env)          # docstring
        if isinstance(s, ast.Pass):
            return cont(env)
        if isinstance(s, ast.Return):
            if s.value is None:
                raise Unsupported('bare return')
            if f.grid and isinstance(s.value, ast.Name) and s.value.id == f.grid[2]:
                return k(env)
            # (None, None) convention
            if isinstance(f.ret, tuple) and f.ret[0] == 'OPT' and isinstance(s.value, ast.Tuple) \
                    and all(isinstance(x, ast.Constant) and x.value is None for x in s.value.elts):
                return self.ret(f, 'none')
            binds, ne = self.hoist(s.value, env)
            if binds and isinstance(ne, ast.Name) and ne.id == binds[-1][0] and f.mode == 'exc' \
                    and len(binds) == 1:
                # tail call
                nm, call = binds[0]
                fn = self.callname(call)
                if fn in ('cls', 'BoundingBox'):
                    g = self.fns['__init__']
                    args = list(call.args)
                    if call.keywords:
                        kw = {kk.arg: kk.value for kk in call.keywords}
                        args = args + [kw[p] for p, _ in g.params[len(args):]]
                    cs = f'({g.lean_name} ' + ' '.join(self.emit(a, env, 'I') for a in args) + ')'
                    if isinstance(f.ret, tuple) and f.ret[0] == 'OPT':
                        return f'(match {cs} with | .error e => .error e | .ok b => .ok (some b))'
                    return cs
                return self.call_str(self.fns[fn], call, env)
            return self.with_binds(binds, env,
                                   lambda env2: self.ret(f, self.emit(ne, env2, f.ret)))
        if isinstance(s, ast.Raise):
            kind = 'Exception'
            if isinstance(s.exc, ast.Call) and isinstance(s.exc.func, ast.Name):
                kind = {'TypeError': 'TypeError', 'ValueError': 'ValueError',
                        'NotImplementedError': 'Exception'}.get(s.exc.func.id, 'Exception')
            if f.mode == 'exc':
                return f'(.error Err.{kind})'
            return default_val(f.ret) + ' /- unreachable raise -/'
        if isinstance(s, ast.Assign):
            if len(s.targets) != 1:
                raise Unsupported('multiple assignment targets')
            tgt = s.targets[0]
            if isinstance(tgt, ast.Subscript):
                if f.grid and isinstance(tgt.value, ast.Name) and tgt.value.id == f.grid[2]:
                    binds, ne = self.hoist(s.value, env)
                    return self.with_binds(binds, env,
                                           lambda env2: self.ret(f, self.emit(ne, env2, 'R')))
                raise Unsupported('subscript store')
            binds, ne = self.hoist(s.value, env)

            def body(env2):
                return self.assign(f, tgt, ne, env2, cont)
            return self.with_binds(binds, env, body)
        if isinstance(s, ast.AugAssign):
            op = type(s.op)
            new = ast.BinOp(left=ast.Name(id=s.target.id, ctx=ast.Load()), op=op(), right=s.value)
            ast.copy_location(new, s)
            ast.fix_missing_locations(new)
            binds, ne = self.hoist(new, env)
            return self.with_binds(binds, env,
                                   lambda env2: self.assign(f, s.target, ne, env2, cont))
        if isinstance(s, ast.If):
            # type guards
            if self.is_type_guard(s):
                return cont(env)
            c = self.prop(s.test, env)
            if not rest:
                a = self.block(f, s.body, dict(env), k, live)
                b = self.block(f, s.orelse, dict(env), k, live)
                return f'if {c} then\n{indent(a)}\nelse\n{indent(b)}'
            if self.terminates(s.body) and not s.orelse:
                a = self.block(f, s.body, dict(env), k, live)
                return f'if {c} then\n{indent(a)}\nelse\n{indent(cont(env))}'
            asg = [v for v in assigned_in(s.body + s.orelse) if v in rest_names]
            jn = self.fresh('k')
            types = {}
            for v in asg:
                types[v] = env.get(v) or f.locals.get(v) or self.infer_local(f, v, s, env)
            envj = dict(env)
            envj.update(types)
            jbody = self.block(f, rest, envj, k, live)
            params = ' '.join(f'({v} : {lean_type(types[v])})' for v in asg)

            def kj(env2):
                args = ' '.join(v if v in env2 else default_val(types[v]) for v in asg)
                return f'{jn} {args}' if asg else f'{jn} ()'
            if not asg:
                params = '(_ : Unit)'
            a = self.block(f, s.body, dict(env), kj, rest_names)
            b = self.block(f, s.orelse, dict(env), kj, rest_names)
            return (f'let {jn} := fun {params} =>\n{indent(jbody)}\n'
                    f'if {c} then\n{indent(a)}\nelse\n{indent(b)}')
        if isinstance(s, ast.For):
            if len(s.body) == 1 and isinstance(s.body[0], ast.If) and self.is_type_guard(s.body[0]):
                return cont(env)
            if not (isinstance(s.iter, ast.Call) and self.callname(s.iter) == 'range'
                    and len(s.iter.args) == 1 and isinstance(s.target, ast.Name)):
                raise Unsupported('for loop form')
            iv = s.target.id
            if f.grid and iv in f.grid[:2]:
                # grid loop: index is a parameter of the per-pixel function
                env2 = dict(env)
                env2[iv] = 'N'
                inner = self.block(f, s.body, env2, lambda e_: self.ret(f, '(0.0 : α)'), set())
                # statements after the loop must be just `return frac`
                for r in rest:
                    if not (isinstance(r, ast.Return) and isinstance(r.value, ast.Name)
                            and r.value.id == f.grid[2]):
                        if not isinstance(r, ast.For):
                            raise Unsupported('statement after grid loop')
                return inner
            asg = assigned_in(s.body)
            carried = [v for v in asg if v in env or v in rest_names]
            types = {v: env.get(v) or f.locals.get(v) or self.infer_local(f, v, s, env)
                     for v in carried}
            n = self.emit(s.iter.args[0], env, 'I')
            st = ' × '.join(lean_type(types[v]) for v in carried) or 'Unit'
            tup = lambda names: ('(' + ', '.join(names) + ')') if len(names) != 1 else names[0]
            init = tup([v if v in env else default_val(types[v]) for v in carried]) if carried else '()'
            env2 = dict(env)
            env2.update(types)
            env2[iv] = 'N'
            if f.mode == 'exc' and self.contains_exc_call(s.body):
                raise Unsupported('exc call inside loop')
            bodytxt = self.block_pure(f, s.body, env2,
                                      lambda e_: tup(carried) if carried else '()',
                                      set(carried) | live)
            pat = tup(carried) if carried else '_'
            envk = dict(env)
            envk.update(types)
            after = cont(envk)
            return (f'let {pat} := forRange (σ := {st}) (Int.toNat {n}) {init} (fun {iv} s_ =>\n'
                    f'  let {pat} := s_\n{indent(bodytxt)})\n{after}')
        raise Unsupported(f'statement {type(s).__name__} (line {s.lineno})')

    def block_pure(self, f, stmts, env, k, live):
        """loop bodies: compile with returns disallowed and in pure mode"""
        for x in stmts:
            for y in ast.walk(x):
                if isinstance(y, (ast.Return, ast.Raise)):
                    raise Unsupported('return/raise inside loop body')
        saved = f.mode
        f.mode = 'pure'
        try:
            return self.block(f, stmts, env, k, live)
        finally:
            f.mode = saved

    def terminates(self, stmts):
        if not stmts:
            return False
        last = stmts[-1]
        if isinstance(last, (ast.Return, ast.Raise)):
            return True
        if isinstance(last, ast.If):
            return self.terminates(last.body) and self.terminates(last.orelse)
        return False

    def contains_exc_call(self, stmts):
        for x in stmts:
            for y in ast.walk(x):
                if isinstance(y, ast.Call) and isinstance(y.func, ast.Name) \
                        and y.func.id in self.fns and self.fns[y.func.id].mode == 'exc':
                    return True
        return False

    def is_type_guard(self, s):
        t = s.test
        if isinstance(t, ast.UnaryOp) and isinstance(t.op, ast.Not) and isinstance(t.operand, ast.Call) \
                and isinstance(t.operand.func, ast.Name) and t.operand.func.id == 'isinstance':
            return all(isinstance(b, ast.Raise) for b in s.body) and not s.orelse
        return False

    def infer_local(self, f, v, node, env):
        """type of a local first assigned inside a branch: look at its assignments"""
        envx = dict(env)
        for x in ast.walk(node):
            if isinstance(x, ast.Assign) and len(x.targets) == 1:
                t = x.targets[0]
                if isinstance(t, ast.Name) and t.id == v:
                    try:
                        return self.etype(x.value, envx)
                    except Unsupported:
                        pass
                if isinstance(t, ast.Tuple) and isinstance(x.value, ast.Tuple):
                    for a, b in zip(t.elts, x.value.elts):
                        if isinstance(a, ast.Name) and a.id == v:
                            try:
                                return self.etype(b, envx)
                            except Unsupported:
                                pass
        return 'R'

    def assign(self, f, tgt, value, env, cont):
        env2 = dict(env)
        if isinstance(tgt, ast.Name):
            want = env.get(tgt.id) or f.locals.get(tgt.id)
            t = self.etype(value, env)
            if want is None:
                want = t
            if want == 'N':
                want = 'I'
            env2[tgt.id] = want
            return f'let {tgt.id} : {lean_type(want)} := {self.emit(value, env, want)}\n' + cont(env2)
        if isinstance(tgt, ast.Attribute):
            # struct field update: a.b.c = e
            chain = []
            b = tgt
            while isinstance(b, ast.Attribute):
                chain.append(b.attr)
                b = b.value
            if not isinstance(b, ast.Name):
                raise Unsupported('attribute target')
            base = b.id
            bt = env.get(base) or f.locals.get(base)
            if bt is None:
                raise Unsupported(f'unknown struct {base}')
            chain = chain[::-1]
            cur = base if base in env else default_val(bt)
            ft = bt
            paths = [cur]
            for a in chain[:-1]:
                paths.append(paths[-1] + '.' + a)
                ft = FIELD_TYPES[ft][a]
            leaf_t = FIELD_TYPES[ft][chain[-1]]
            new = self.emit(value, env, leaf_t)
            for a, p in zip(chain[::-1], paths[::-1]):
                new = f'{{ {p} with {a} := {new} }}'
            env2[base] = bt
            return f'let {base} : {lean_type(bt)} := {new}\n' + cont(env2)
        if isinstance(tgt, ast.Tuple):
            if not isinstance(value, ast.Tuple) or len(value.elts) != len(tgt.elts):
                # tuple-valued expression (e.g. a call): destructure
                raise Unsupported('tuple assignment from non-tuple')
            # simultaneous assignment via temporaries
            tmps = []
            out = ''
            for a, v in zip(tgt.elts, value.elts):
                nm = self.fresh('s')
                if isinstance(a, ast.Name):
                    want = env.get(a.id) or f.locals.get(a.id) or self.etype(v, env)
                elif isinstance(a, ast.Attribute):
                    want = self.etype_target(a, env, f)
                else:
                    raise Unsupported('tuple target')
                if want == 'N':
                    want = 'I'
                out += f'let {nm} : {lean_type(want)} := {self.emit(v, env, want)}\n'
                tmps.append((a, nm, want))

            def go(i, envc):
                if i == len(tmps):
                    return cont(envc)
                a, nm, want = tmps[i]
                envc = dict(envc)
                envc[nm] = want
                return self.assign(f, a, ast.Name(id=nm, ctx=ast.Load()), envc,
                                   lambda e3: go(i + 1, e3))
            envt = dict(env)
            for _, nm, want in tmps:
                envt[nm] = want
            return out + go(0, envt)
        raise Unsupported('assignment target')

    def etype_target(self, a, env, f):
        b = a
        chain = []
        while isinstance(b, ast.Attribute):
            chain.append(b.attr)
            b = b.value
        t = env.get(b.id) or f.locals.get(b.id)
        for c in chain[::-1]:
            t = FIELD_TYPES[t][c]
        return t

    # ---------- functions
    def function(self, f):
        self.tmp = 0
        env = {p: t for p, t in f.params}
        params = ' '.join(f'({p} : {lean_type(t)})' for p, t in f.params)
        if f.grid:
            params += f' ({f.grid[0]} {f.grid[1]} : Nat)'
        rt = lean_type(f.ret)
        if f.mode == 'exc':
            rt = f'Except Err {rt}'
        fall = getattr(f, 'fall', None)
        body = self.block(f, f.node.body, env,
                          lambda e_: self.ret(f, fall if fall else default_val(f.ret) + ' /- fall-through -/'),
                          {fall} if fall else set())
        uses_alpha = 'α' in params or 'α' in rt or 'α' in body
        hdr = HEADER_CLASSES + ' ' if uses_alpha else ''
        if f.recursive:
            return (f'def {f.lean_name} {hdr}(fuel_ : Nat) {params} : {rt} :=\n'
                    f'  match fuel_ with\n  | 0 => .error Err.OutOfFuel\n  | fuel + 1 =>\n'
                    f'{indent(body, 4)}\n')
        if any(self.fns[c].recursive for c in f.calls):
            body = f'let fuel : Nat := {f.fuel_const}\n' + body
        return f'def {f.lean_name} {hdr}{params} : {rt} :=\n{indent(body)}\n'


def indent(s, n=2):
    pad = ' ' * n
    return '\n'.join(pad + ln if ln else ln for ln in s.split('\n'))


# ---------------------------------------------------------------- pyx front end
CTYPES = {'double': 'R', 'int': 'I', 'unsigned int': 'N', 'bool': 'B', 'point': 'P',
          'intersections': 'X', 'bint': 'B'}


def strip_pyx(src):
    """Turn the Cython subset used in photutils/geometry into Python text + type info.
    Returns (python_source, {func: {'params':[(n,t)], 'ret':t, 'locals':{n:t}, 'grid':arr}})."""
    # join continued parameter lists
    lines = src.split('\n')
    out = []
    info = {}
    cur = None
    i = 0
    skip_extern = False
    while i < len(lines):
        ln = lines[i]
        st = ln.strip()
        if skip_extern:
            if st == '' or ln.startswith(' ') or ln.startswith('\t'):
                i += 1
                continue
            skip_extern = False
        if st.startswith('cdef extern'):
            skip_extern = True
            i += 1
            continue
        if st.startswith('ctypedef struct'):
            i += 1
            while i < len(lines) and (lines[i].startswith(' ') or lines[i].strip() == ''):
                i += 1
            continue
        if st.startswith(('cimport ', 'ctypedef ', 'from cpython cimport', 'from .core cimport')) \
                or ' cimport ' in st:
            i += 1
            continue
        m = re.match(r'^(cdef|def)\s+(?:(unsigned int|double|int|bool|point|intersections)\s+)?(\w+)\s*\(', ln)
        if m and not ln.startswith(' '):
            # gather until '):'
            hdr = ln
            while not re.search(r'\)\s*:\s*$', hdr):
                i += 1
                hdr += ' ' + lines[i].strip()
            kind, rett, name = m.group(1), m.group(2), m.group(3)
            plist = hdr[hdr.index('(') + 1: hdr.rindex(')')]
            params = []
            for p in plist.split(','):
                p = p.strip()
                if not p:
                    continue
                pm = re.match(r'^(unsigned int|double|int|bool)\s+(\w+)$', p)
                if not pm:
                    raise Unsupported(f'pyx parameter {p!r} in {name}')
                params.append((pm.group(2), CTYPES[pm.group(1)]))
            cur = {'params': params, 'ret': CTYPES.get(rett, 'R'), 'locals': {}, 'grid': None}
            info[name] = cur
            out.append(f'def {name}(' + ', '.join(p for p, _ in params) + '):')
            i += 1
            continue
        m = re.match(r'^(\s+)cdef\s+np\.ndarray\[[^\]]*\]\s+(\w+)\s*=', ln)
        if m and cur is not None:
            cur['grid'] = m.group(2)
            out.append(m.group(1) + 'pass')
            i += 1
            continue
        m = re.match(r'^(\s+)cdef\s+(unsigned int|double|int|bool|point|intersections)\s+(.*)$', ln)
        if m and cur is not None:
            ind, ct, restl = m.group(1), m.group(2), m.group(3)
            restl = restl.split('#')[0].strip()
            if '=' in restl:
                nm, val = restl.split('=', 1)
                cur['locals'][nm.strip()] = CTYPES[ct]
                out.append(f'{ind}{nm.strip()} = {val.strip()}')
            else:
                for nm in restl.split(','):
                    cur['locals'][nm.strip()] = CTYPES[ct]
                out.append(ind + 'pass')
            i += 1
            continue
        out.append(ln)
        i += 1
    return '\n'.join(out), info


def sha(s):
    return hashlib.sha256(s.encode()).hexdigest()[:16]
