"""Evaluate a seeded change (made by a sub-agent in a scratch worktree) against the checks.

usage: /venv/bin/python tools/seed_eval.py Cxx /tmp/seed/Cxx [--suite] [--as Cxx-r2] [--also Cyy ...]

 1. saves the worktree diff, demonstration and meta data under /verif/seeded/<id>/
 2. applies the diff to /repo, runs the demonstration there (exit 0 = violation shown), optionally the pinned test suite,
    and the quick check of the property (plus any --also properties)
 3. restores /repo (`git checkout -- .`) and the generated Lean files / evidence of /verif
Nothing is ever committed to /repo."""
import json
import os
import shutil
import subprocess
import sys

VERIF = os.path.dirname(os.path.dirname(os.path.abspath(__file__)))


def sh(cmd, cwd=None, timeout=3600):
    p = subprocess.run(cmd, shell=True, cwd=cwd, capture_output=True, text=True, timeout=timeout)
    return p.returncode, (p.stdout + p.stderr)


def main():
    pid, wt = sys.argv[1], sys.argv[2]
    suite = '--suite' in sys.argv
    also = []
    if '--also' in sys.argv:
        also = [a for a in sys.argv[sys.argv.index('--also') + 1:] if a.startswith('C') and '-' not in a]
    name = sys.argv[sys.argv.index('--as') + 1] if '--as' in sys.argv else pid
    d = os.path.join(VERIF, 'seeded', name)
    os.makedirs(d, exist_ok=True)
    rc, diff = sh('git diff -- photutils', cwd=wt)
    if not diff.strip():
        print('no diff in worktree')
        return 2
    open(os.path.join(d, 'patch.diff'), 'w').write(diff)
    for f in ('SEED_DEMO.py', 'SEED_META.json'):
        if os.path.exists(os.path.join(wt, f)):
            shutil.copy(os.path.join(wt, f), os.path.join(d, 'demonstration.py' if f == 'SEED_DEMO.py' else 'agent_meta.json'))
    rc, out = sh('git status --short', cwd='/repo')
    if out.strip():
        print('/repo is not clean:', out)
        return 2
    meta = {'property': pid, 'patch': 'patch.diff', 'demonstration': 'demonstration.py'}
    try:
        meta['agent'] = json.load(open(os.path.join(d, 'agent_meta.json')))
    except Exception:                                           # noqa: BLE001
        meta['agent'] = None
    try:
        rc, out = sh(f'git apply {os.path.join(d, "patch.diff")}', cwd='/repo')
        if rc != 0:
            print('patch does not apply to /repo:', out)
            return 2
        rc, out = sh(f'/venv/bin/python {os.path.join(d, "demonstration.py")}', cwd='/repo', timeout=1800)
        meta['demonstration_exit_on_repo'] = rc
        meta['demonstration_output_tail'] = out[-1500:]
        print(f'demonstration on /repo+patch: exit {rc}')
        if suite:
            rc, out = sh(f'/venv/bin/python {os.path.join(VERIF, "tools/baseline_check.py")}', cwd=VERIF, timeout=3600)
            meta['suite'] = out.strip().splitlines()[:8]
            print('suite:', meta['suite'][:2])
        meta['checks'] = {}
        for c in [pid] + also:
            rc, out = sh(f'/venv/bin/python tools/check.py {c} --tier quick', cwd=VERIF, timeout=3600)
            lines = [ln for ln in out.splitlines() if ln.startswith('VIOLATION') or ln.startswith('  ')]
            meta['checks'][c] = {'exit': rc, 'violation_lines': sum(1 for ln in lines if ln.startswith('VIOLATION')), 'first': [ln[:300] for ln in lines[:6]],
                                 'no_failing_input_found': any('no-failing-input-found' in ln for ln in lines)}
            print(f'check {c}: exit {rc}, {meta["checks"][c]["violation_lines"]} violation lines')
            for ln in lines[:4]:
                print('   ', ln[:240])
    finally:
        sh('git checkout -- .', cwd='/repo')
        # demonstration on the restored tree must NOT show the violation
        rc, out = sh(f'/venv/bin/python {os.path.join(d, "demonstration.py")}', cwd='/repo', timeout=1800)
        meta['demonstration_exit_on_clean_repo'] = rc
        print(f'demonstration on clean /repo: exit {rc}')
        sh('git checkout -- evidence lean/PhotVerif/Gen', cwd=VERIF)
        sh('rm -rf replays/' + pid, cwd=VERIF)
    meta['caught'] = any(v['exit'] == 1 for v in meta.get('checks', {}).values())
    json.dump(meta, open(os.path.join(d, 'meta.json'), 'w'), indent=1)
    print('caught' if meta['caught'] else 'MISSED')
    return 0


if __name__ == '__main__':
    sys.exit(main())
