"""Prepare a seeding round: independent clones of /repo under /tmp/seed<N>/Cxx and one prompt per property.

usage: python3 tools/seed_prompts.py <N> [Cxx ...]

Each sub-agent gets ONLY the text of its property, the location of its own clone and one-line descriptions of the changes earlier
agents already tried for that property (so that it picks something else).  Nothing from /verif is shown to it.  The clones are
removed by hand after evaluation (`tools/seed_eval.py Cxx /tmp/seed<N>/Cxx --as Cxx-r<N>`)."""
import glob
import json
import os
import subprocess
import sys

VERIF = os.path.dirname(os.path.dirname(os.path.abspath(__file__)))

TMPL = '''You are helping to evaluate a verification system by seeding a realistic regression into a scratch copy of the astropy/photutils library. Work ONLY inside the git clone at {root}/{pid} (a copy of photutils with its compiled extensions already present). Do not read or write anything under /verif or /repo, and do not commit anything. Do not use `git stash`.

How to run code: `cd {root}/{pid} && /venv/bin/python ...` (from that directory `import photutils` resolves to this copy; confirm with `photutils.__file__`). Tests: `cd {root}/{pid} && /venv/bin/python -m pytest photutils/<subpackage> -q -p no:cacheprovider`. NOTE: some tests already fail on the unmodified tree (ComplexWarning / deprecation warnings turned into errors) - record the set of failing tests of the relevant sub-packages BEFORE your change and make sure your change adds no new failure. There is no network, and Cython is NOT installed: the compiled geometry kernels (photutils/geometry/*.pyx) cannot be rebuilt, so change Python (.py) files only.

The semantic property of photutils you must break (JSON):
{prop}

Task: make ONE small, realistic change to the library source (not the tests, not the docs) of the kind a developer could plausibly introduce (refactoring slip, "optimisation", off-by-one, wrong axis or sign, dropped copy, changed default, mishandled edge case, reordered statements, wrong comparison operator, stale cache, wrong variable of a similar name ...) such that:
 1. the package still imports and the existing tests of the affected sub-packages still pass (no new failures compared with the unmodified tree);
 2. the property above is violated on the changed code - for some inputs, not for every call: it should need something specific to show up (a particular shape, value pattern, argument kind, option combination, call order ...);
 3. the change is at most about 30 changed lines and touches code the property is about (see "anchors" in the JSON).
Prefer a change whose effect is a subtly wrong result rather than a crash. Do not simply revert recent commits of the repository. Other people have already tried the ideas below, so choose a DIFFERENT clause of the property / a different function / a different mechanism:
{avoid}

Deliverables (all inside {root}/{pid}):
 - leave the change applied but uncommitted (so that `git diff` shows it);
 - SEED_DEMO.py: a standalone script (run as `/venv/bin/python SEED_DEMO.py` from that directory) that demonstrates the violation on a concrete input and prints what the property demands versus what the changed code does; it must exit with status 0 when the violation is observed and 1 otherwise (so on the unmodified code it exits 1);
 - SEED_META.json: {{"property": "{pid}", "files_changed": [...], "description": "...", "why_existing_tests_pass": "...", "trigger": "what is needed for the violation to manifest"}}.
Verify your own work: run SEED_DEMO.py with the change (exit 0) and with the change temporarily reverse-applied (`git diff -- photutils > seed.patch; git apply -R seed.patch; run; git apply seed.patch`, exit 1), and re-run the relevant tests. If, while reading the code, you notice something in the UNMODIFIED tree that already contradicts the property, mention it at the end of your answer (do not seed it). In your final answer report the diff, the trigger and the test results (before/after), in under 300 words.'''


def main():
    n = sys.argv[1]
    only = sys.argv[2:]
    root = f'/tmp/seed{n}'
    os.makedirs(os.path.join(root, 'prompts'), exist_ok=True)
    props = {}
    for ln in open(os.path.join(VERIF, 'properties.jsonl')):
        d = json.loads(ln)
        props[d['id']] = d
    for pid in sorted(props):
        if only and pid not in only:
            continue
        dst = os.path.join(root, pid)
        if not os.path.exists(dst):
            subprocess.run(['git', 'clone', '-q', '/repo', dst], check=True)
            for f in ['photutils/version.py'] + [os.path.relpath(p, '/repo') for p in glob.glob('/repo/photutils/*.so') + glob.glob('/repo/photutils/geometry/*.so')]:
                subprocess.run(['cp', os.path.join('/repo', f), os.path.join(dst, f)], check=True)
        d = props[pid]
        text = json.dumps({k: d[k] for k in ('id', 'title', 'statement', 'quantifier', 'why_tests_cant', 'anchors')}, indent=1)
        avoid = []
        for m in sorted(glob.glob(os.path.join(VERIF, 'seeded', pid + '*', 'meta.json'))):
            desc = ((json.load(open(m)).get('agent') or {}).get('description') or '')[:420]
            if desc:
                avoid.append(f' ({chr(97 + len(avoid))}) {desc}')
        open(os.path.join(root, 'prompts', pid + '.prompt'), 'w').write(TMPL.format(root=root, pid=pid, prop=text, avoid='\n'.join(avoid) or ' (none)'))
    print('prepared', root)


if __name__ == '__main__':
    main()
