#!/venv/bin/python
"""
Entry point of every PhotVerif check:

    /venv/bin/python tools/check.py C01 --tier quick|thorough
    /venv/bin/python tools/check.py C01 --replay replays/C01/<hash>.json

exit 0: property held on everything explored (known findings are printed as KNOWN-FINDING)
exit 1: a VIOLATION line was printed
exit 2: infrastructure failure (never reported as a violation)
"""
import importlib
import json
import os
import sys
import traceback
import warnings

HERE = os.path.dirname(os.path.abspath(__file__))
sys.path.insert(0, HERE)
os.environ.setdefault('PHOTUTILS_VERIF', '1')
os.environ.setdefault('OMP_NUM_THREADS', '1')
warnings.filterwarnings('ignore')

import common  # noqa: E402


def main(argv):
    if len(argv) < 2:
        print(__doc__)
        return 2
    pid = argv[1].upper()
    tier = common.tier_from_args(argv)
    try:
        mod = importlib.import_module(f'props.{pid.lower()}')
    except ModuleNotFoundError:
        print(f'no check for {pid}')
        return 2
    rep = common.Report(pid, tier)
    try:
        if '--replay' in argv:
            path = argv[argv.index('--replay') + 1]
            if not os.path.isabs(path):
                path = os.path.join(common.VERIF, path)
            data = json.load(open(path))
            if hasattr(mod, 'replay') and 'replay' in data:
                mod.replay(rep, data['replay'])
            else:
                mod.run(rep, tier)
        else:
            mod.run(rep, tier)
        # thorough tier: the compiled property modules are re-checked by the toolchain's independent checker
        if tier == 'thorough' and rep.lean is not None and rep.lean.ok and hasattr(mod, 'PROP_MODULES') and 'leanchecker_ok' not in rep.extra:
            ok, out = common.leanchecker(mod.PROP_MODULES)
            rep.extra['leanchecker_ok'] = ok
            if not ok:
                rep.tie_broken('leanchecker rejected the compiled property modules', out[-600:])
        # a broken proof / translator is a broken tie (reported if no failing input is found)
        if rep.lean is not None and not rep.lean.ok:
            for p in rep.lean.problems:
                rep.tie_broken('Lean side: ' + p)
        return rep.finish()
    except Exception:  # infrastructure failure
        traceback.print_exc()
        print(f'INFRASTRUCTURE-FAILURE property={pid}')
        return 2


if __name__ == '__main__':
    sys.exit(main(sys.argv))
