#!/venv/bin/python
"""
Entry point of every PhotVerif check:

    /venv/bin/python tools/check.py C01 --tier quick|thorough
    /venv/bin/python tools/check.py C01 --replay replays/C01/<hash>.json

exit 0: property held on everything explored (known findings are printed as KNOWN-FINDING)
exit 1: a VIOLATION line was printed
exit 2: infrastructure failure (never reported as a violation)
"""
import importlib
import json
import os
import sys
import traceback
import warnings

HERE = os.path.dirname(os.path.abspath(__file__))
sys.path.insert(0, HERE)
os.environ.setdefault('PHOTUTILS_VERIF', '1')
os.environ.setdefault('OMP_NUM_THREADS', '1')
warnings.filterwarnings('ignore')

import common  # noqa: E402


def main(argv):
    if len(argv) < 2:
        print(__doc__)
        return 2
    pid = argv[1].upper()
    tier = common.tier_from_args(argv)
    try:
        mod = importlib.import_module(f'props.{pid.lower()}')
    except ModuleNotFoundError:
        print(f'no check for {pid}')
        return 2
    rep = common.Report(pid, tier)
    try:
        if '--replay' in argv:
            path = argv[argv.index('--replay') + 1]
            if not os.path.isabs(path):
                path = os.path.join(common.VERIF, path)
            data = json.load(open(path))
            if hasattr(mod, 'replay') and 'replay' in data:
                mod.replay(rep, data['replay'])
            else:
                mod.run(rep, tier)
        else:
            mod.run(rep, tier)
        # thorough tier: the compiled property modules are re-checked by the toolchain's independent checker
        if tier == 'thorough' and rep.lean is not None and rep.lean.ok and hasattr(mod, 'PROP_MODULES') and 'leanchecker_ok' not in rep.extra:
            ok, out = common.leanchecker(mod.PROP_MODULES)
            rep.extra['leanchecker_ok'] = ok
            if not ok:
                rep.tie_broken('leanchecker rejected the compiled property modules', out[-600:])
        # a broken proof / translator is a broken tie (reported if no failing input is found)
        if rep.lean is not None and not rep.lean.ok:
            for p in rep.lean.problems:
                rep.tie_broken('Lean side: ' + p)
        return rep.finish()
    except Exception as exc:
        traceback.print_exc()
        # An exception that comes out of the implementation (a frame inside /repo) at a place where the harness expected none is a
        # correspondence that no longer checks: the harnesses run clean on the pinned tree, so the library now raises where it did
        # not.  It is reported like any other broken tie (after whatever violations were found before it).  An exception with no
        # implementation frame is a defect of the machinery itself: exit 2.
        frames = traceback.extract_tb(exc.__traceback__)
        impl = [f for f in frames if os.path.realpath(f.filename).startswith(os.path.realpath(common.REPO) + os.sep)]
        if impl and not isinstance(exc, (MemoryError, KeyboardInterrupt)):
            last_h = [f for f in frames if f.filename.startswith(common.VERIF)][-1]
            rep.tie_broken(f'the implementation raised {type(exc).__name__} inside the harness ({os.path.basename(last_h.filename)}:{last_h.name}) '
                           'where it does not raise on the pinned tree',
                           {'exception': repr(exc)[:400], 'raised_at': f'{os.path.relpath(impl[-1].filename, common.REPO)}:{impl[-1].lineno} in {impl[-1].name}',
                            'harness_frame': f'{os.path.basename(last_h.filename)}:{last_h.lineno} in {last_h.name}'})
            try:
                return rep.finish()
            except Exception:                                   # noqa: BLE001
                traceback.print_exc()
        print(f'INFRASTRUCTURE-FAILURE property={pid}')
        return 2


if __name__ == '__main__':
    sys.exit(main(sys.argv))
