"""What MANIFEST.json claims; edit here and run tools/make_manifest.py."""
import subprocess
FIX_COMMITS = [l for l in subprocess.run(['git', '-C', '/repo', 'log', '--format=%h %s', '8203d59..HEAD'],
                                         capture_output=True, text=True).stdout.strip().split('\n') if l.split(' ', 1)[-1].startswith('fix:')]

CLAIMS = {
 'C01': {
  'design_ref': 'DESIGN.md §5 C01',
  'technique': 'Lean 4 theorems over definitions regenerated from bounding_box.py and geometry/*.pyx + correspondence (Float bit-compare, exact Rat masks)',
  'text': 'Proved in Lean for all inputs (ordered field with floor): BoundingBox.from_float returns the least integer box covering the rectangle '
          '(fromFloat_least_cover, fromFloat_error_iff); get_overlap_slices is None iff no common pixel and otherwise selects exactly the common pixels, '
          'small = large re-based (overlap_none_iff, overlap_some_exact, overlap_small_rebased, overlap_same_extent); union/intersection laws; to_image/cutout '
          'registration (toImage_registered, cutout_registered); the translated circle/ellipse/rectangle sub-pixel kernels return (#sub-pixel centres inside)/s^2 '
          'for every s, hence weights in [0,1] and center == subpixel 1 (circ/ell/rect_subpixel_is_counting, counting_weight_range, centre_is_subpixel_one). '
          'These theorems are about definitions regenerated from /repo on every run. [partial] exact-mode area equality is NOT proved: the translated exact kernels are '
          'executed at Lean Float and compared bit-for-bit with the compiled .so, and numeric oracles (sum = analytic area, range) run on the implementation.',
  'note': 'Trusted: Lean kernel; axioms propext/Classical.choice/Quot.sound; the Python->Lean translator; real-number semantics (no rounding); hand model of to_mask assembly '
          '(Model/Mask.lean) tied by correspondence only; the compiled geometry .so cannot be rebuilt here (no Cython) so .pyx edits are seen only through the translation.',
 },
 'C02': {
  'design_ref': 'DESIGN.md §5 C02',
  'technique': 'Lean 4 theorems on a code-shaped model of _get_overlap_cutouts/do_photometry/area_overlap (parametric in the weight map) + correspondence on the real do_photometry',
  'text': 'Proved in Lean for every weight map w (hence every aperture type/method), every image shape, mask and data: the pixels entering the sum are exactly '
          '{in box, in image, w>0, unmasked} each with weight w(y-iymin, x-ixmin) (goodPixels_spec, built on the generated get_overlap_slices); the result is NaN iff the box '
          'misses the image (apSum_none_iff, apSum_nan_iff_no_common_pixel); sums are blind to values outside that pixel set incl. NaN/inf (apSum_blind) and linear in the data '
          '(wsum_linear); area_overlap = sum of w over the same pixels when w>=0 (areaOverlap_eq_good_weight_sum). The model (Model/ApSum.lean, IEEE special values in Model/V.lean) is '
          'hand-written and tied to the implementation by running both on the same dyadic images/masks/errors/apertures (exact NaN/inf pattern, 1e-11 relative on sums). '
          'Batch==single, list==individual, NDData==arrays, sky==to_pixel are checked on the implementation only (probe, no theorem).',
  'note': 'Trusted: Lean kernel + 3 standard axioms; translator for get_overlap_slices; hand model tied by differential testing only; sqrt, WCS, float summation order not modelled.',
 },
 'C03': {
  'design_ref': 'DESIGN.md §5 C03',
  'technique': 'Lean 4 theorems for the index / coordinate mechanisms (bounding boxes and overlap slices regenerated from the source, render window, centre of mass, central moments, local-maximum test) under zero-padded embedding and transposition + correspondence of the moment model + metamorphic sweep of every listed API',
  'text': 'Proved in Lean: translating float extents by integers translates the integer bounding box exactly and exchanging x/y transposes it (fromFloat_translate, fromFloat_transpose - definitions regenerated from bounding_box.py); for a box inside the original frame the overlap slices on a larger canvas are the original ones shifted and the cut-out slices are unchanged (overlap_translate, overlap_transpose); '
          'the rendering window of a stamp inside the frame moves by exactly the offset (window1_translate); any weighted raster sum over the zero-padded canvas equals the same sum over the original frame with shifted coordinates (Raster.embed_sum, transpose_sum), hence the centre of mass moves by exactly (dx,dy) and x/y exchange under transposition (com_translate, com_transpose) and every central moment is translation invariant and mu_ij <-> mu_ji under transposition, i.e. theta -> 90deg - theta (moment_translate, moment_transpose); '
          'a pixel whose footprint lies inside the original frame is a neighbourhood maximum of the embedded image iff it is one of the original (nbhdMax_translate). [partial] the per-API relations (aperture photometry/statistics, detect/deblend, SourceCatalog, find_peaks, star finders, centroid functions, profiles, rendering) are decided by metamorphic probes on the implementation, for footprints inside the frame. '
          'Tie: Gen/BBox.lean regenerated each run; _moments_central vs the Lean moment model on original / embedded / transposed rasters; the other models are tied by C01, C02, C14, C17, C18.',
  'note': 'Trusted: Lean kernel + standard axioms; translator for bounding_box.py; hand models tied by differential testing; optimiser-based centroids compared at 2e-4.',
 },
 'C04': {
  'design_ref': 'DESIGN.md §5 C04',
  'technique': 'Lean 4 correctness proof of an independent connected-component labelling model (min-index propagation) + exhaustive/random correspondence with detect_sources',
  'text': 'Proved in Lean for every image shape, foreground set and connectivity (no size bound): the model\'s iteration terminates at a sound fixpoint (components_sound_fix, via a strictly '
          'decreasing Nat potential), two foreground pixels receive the same value iff they are connected through foreground 4/8-neighbours and that value is the least raster index of the component '
          '(components_partition; the pixel grid is shown to be a finite symmetric graph in gridGraph); the pruning count is the true component size (compSize_counts_component); a pixel is labelled iff it is '
          'foreground and its component has >= npixels pixels (label_ne_zero_iff, mem_kept); equal labels iff same component (label_eq_iff); labels are exactly 1..N with no gaps (label_le, label_root) in raster '
          'order of each component\'s first pixel (label_order, kept_sorted); None iff nothing survives (detect_none_iff); NaN, masked and at-threshold pixels are never foreground (foreground_excludes, foreground_strict). '
          'The model is hand-written; it is tied to detect_sources by exhaustive comparison over all binary images up to 3x3 (x connectivity x npixels) plus random dyadic images with ties/NaN/inf/2-D thresholds/masks, '
          'comparing label array, areas and slices exactly. detect_threshold and SourceFinder(deblend=False) are probed on the implementation only.',
  'note': 'Trusted: Lean kernel + standard axioms; the hand model (Model/CCL.lean) tied by differential testing only; scipy.ndimage.label is not assumed (its result is compared); sigma-clipped branch of detect_threshold not modelled.',
 },
 'C05': {
  'design_ref': 'DESIGN.md §5 C05',
  'technique': 'Lean 4 invariant proof by induction over operation histories on a state-machine model whose cache table is regenerated from core.py + history correspondence',
  'text': 'Proved in Lean for EVERY finite history of reads and mutators (reassign, relabel_consecutive, keep/remove labels, remove_masked/border_labels, data assignment) from any initial array: '
          'every cached attribute (labels, raw slices, slices, areas, nlabels, max_label) equals the attribute derived from the current array, i.e. what a fresh object computes (history_inv, history_reads_fresh). '
          'The inductive step is discharged against the mutator table extracted from the source on every run (Gen/SegmTable.lean: does the mutator call _reset_lazyproperties before replacing _data, which __dict__ entries it re-seeds): '
          'commit_reassign_inv, commit_setter_inv, commit_relabel_inv are the table obligations - the last needs relabel_labels (consecutive renumbering yields labels start..start+N-1, no gaps) and relabel_slices (old slices stay valid). '
          'Also proved: after ANY successful mutator called with relabel=True (or relabel_consecutive()) the labels of the array are exactly 1..N, whatever was cached and whether or not the call had anything to remove (Props/C05Relabel.lean: step_relabel_consecutive - the clause defect F38 violated); labels recovered from cached _raw_slices are the labels (labelsFromRaw_dRaw), a zero border width changes nothing (removeBorder_zero_noop), every label mutator keeps the deblended-label map naming only present labels '
          '(mutators_keep_dmap_sound) and data assignment resets it (setData_dmap). The data effect of the mutators is code-shaped in the model and tied by correspondence (random histories incl. invalid arguments, 4 dtypes, objects from the constructor, detect_sources and deblend_sources; '
          'label array and deblend map compared after every step) plus a fresh-object oracle on every public derived attribute. [partial] dtype range preservation and polygon geometry are checked on the implementation only.',
  'note': 'Trusted: Lean kernel + standard axioms; table extractor tools/extract_tables.py; hand model Model/Segm.lean tied by differential testing; reading of the statement about deblend maps as in DESIGN §5 C05. Known finding F2b (non-connected label: polygons per region).',
 },
 'C06': {
  'design_ref': 'DESIGN.md §5 C06',
  'technique': 'Lean 4 proofs about the merge/bookkeeping model of deblend_sources (per-source deblender as a parameter): schedule independence + refinement invariant by induction over the merge loop',
  'text': 'Proved in Lean: for EVERY completion order of the worker futures (any list in which each task index occurs) the parallel branch fills `results` identically and therefore returns exactly what the serial branch returns '
          '(fillResults_any_order, parallel_eq_serial, parallel_order_irrelevant). For every work list whose per-source results satisfy the contract the code itself enforces (children cover exactly the parent - the footprint guard - and are numbered 1..k; distinct non-zero parent labels), '
          'the merge loop with its running max_label (merge_refines, by the loop invariant J / J_step / J_fold): leaves the set of non-zero pixels unchanged; leaves every pixel of an unsplit segment (label included) unchanged; puts every output segment inside one input segment; '
          'gives children labels above every original label (no collision across parents); records for each split parent exactly the labels found on its pixels. relabel=True yields labels 1..N (finalize_labels_1N, reusing C05 relabel_labels). '
          'New child labels never leave the dtype of the output array: the widening rule (Model/LabelDtype.lean: numpy min_scalar_type / promote_types on integer dtypes, fitDtype) yields a dtype that holds the new label and every old value, and changes nothing when the label already fits (Props/C06Dtype.lean: fitDtype_holds, fitDtype_unchanged, promote_max - defects F43/F46); tied by correspondence with deblend._fit_label_dtype over all 8 integer dtypes. ' \
          '[param] the watershed/multi-threshold step is a parameter; its contract and child >= npixels are checked on every generated case. Tie: real _deblend_source results are fed to the model and its output (array + map) is compared exactly with deblend_sources run serially '
          'and under a patched executor with reverse/rotated/random completion orders (thorough: real spawn pool).',
  'note': 'Trusted: Lean kernel + standard axioms; hand model Model/Deblend.lean tied by differential testing; skimage watershed and _detect_sources inside the per-source deblender are not modelled; real OS scheduling is replaced by adversarial orders through a patched as_completed.',
 },
 'C09': {
  'design_ref': 'DESIGN.md §5 C09',
  'technique': 'Lean 4 proofs over tables regenerated from the source: generic lazy-object theorem (resource lifetime), scale-invariant of profile normalisation by induction over histories, call-independence from attribute-write sets',
  'text': 'Proved in Lean: (a) a generic theorem - if the micro-step table of a lazily evaluated object passes the decidable checks W1 (no use of a resource after its drop inside one read) and W2 (a drop is guarded by every other reader being cached) then EVERY finite history of reads succeeds '
          '(checked_table_never_fails, history_ok) - instantiated by `decide` for the Background2D table extracted on each run from background_2d.py, in the three filter configurations (bkg2d_order_free_thrNone/_thrBelow/_selective). '
          '(b) For the rescale table extracted from profiles/core.py + radial_profile.py: along every history of normalize(max|sum)/unnormalize/first reads each cached array equals raw/normalization_value in exact arithmetic, and after unnormalize it is the raw array whenever it was first read '
          '(profile_history_inv, unnormalize_restores). (c) For the attribute sets extracted from psf/photometry.py no call writes an attribute outside the per-call reset set, so every configuration attribute keeps the constructor value through any call sequence '
          '(config_kept, psfphot_call_independent, iterative_psfphot_call_independent). [partial] The numeric content of the attributes is not modelled; star finders, Ellipse, aperture attribute setters and GriddedPSFModel are covered only by the fresh-object oracle on the implementation. '
          'Tie: tables regenerated every run; Background2D read orders (all ordered pairs/triples + random) and profile histories run on the real objects and compared with the model and with fresh objects.',
  'note': 'Trusted: Lean kernel + standard axioms; AST table extractors (tools/extract_tables.py); the abstraction "value = function of immutable resources"; known finding F18 (Ellipse.fit_image flags persist by design).',
 },
 'C19': {
  'design_ref': 'DESIGN.md §5 C19',
  'technique': 'Lean 4 theorems on the profile arithmetic model (difference quotients, monotone prefix) + C02/C09 theorems reused + correspondence with CurveOfGrowth/RadialProfile',
  'text': 'Proved in Lean (exact arithmetic): RadialProfile is the difference quotient of consecutive aperture sums and areas, so a constant image gives that constant in every bin of non-zero area '
          '(diff_getElem, constant_image_constant_profile) and errors propagate in quadrature (radial_error_quadrature); weighted sums are monotone in pixel-wise weights for non-negative data and counting weights are monotone in the shape '
          '(wsum_mono, countP_mono), hence a non-decreasing curve of growth; the prefix kept by calc_radius_at_ee is strictly increasing and maximal and contains the last increasing sample (monoPrefix_chain, monoPrefix_maximal). '
          'The curve-of-growth samples themselves are aperture sums: C02 theorems (goodPixels_spec etc.). normalize/unnormalize: C09 theorems profile_history_inv / unnormalize_restores over the table regenerated from the source. '
          'Tie: CurveOfGrowth compared with per-radius aperture photometry; RadialProfile with the Lean difference-quotient model fed those sums (exact rationals); calc_radius_at_ee with the Lean monotone-prefix length and the inverse relation at every kept sample; '
          'normalisation histories vs the Lean scale model. [partial] Pchip interpolation is not modelled (checked at sample points only).',
  'note': 'Trusted: Lean kernel + standard axioms; hand models Model/Profile.lean, Model/ProfileNorm.lean tied by differential testing; scipy PchipInterpolator; float rounding (1e-9 relative).',
 },
 'C08': {
  'design_ref': 'DESIGN.md §5 C08',
  'technique': 'Lean 4 theorems on a model of catalogue indexing (index forms, cached-value slicing, heap sharing of the extras list) over tables regenerated from __getitem__ + exhaustive property x index-form oracle',
  'text': 'Proved in Lean: for every per-source property, every index form (int incl. negative, slice with step, int list with repeats/negatives, bool mask) and every set of properties cached before slicing, cat[idx].p = cat.p[idx] '
          '(getitem_commutes, sel_map) - given that per-source properties are maps over the labels (C07 row-order freedom); the slice receives its own extras list so that add/remove on either side never shows on the other '
          '(getitem_fresh_extras, slice_extras_independent - table obligations discharged against Gen/CatSliceTable.lean, regenerated from __getitem__ every run); no attribute copied by reference is modified in place by any method of SourceCatalog or ApertureStats (no_shared_mutable_attribute, by decide on the extracted table). '
          'get_label(s)/get_id(s) are modelled as labelPositions: refused for a label the (possibly sliced, possibly reordered) catalogue does not hold (labelPositions_absent - defect F45), otherwise exactly the requested sources in request order (labelPositions_sound) and an instance of the integer-list index form (labelPositions_is_ints), so the commutation theorem covers them. ' \
          '[partial] the scalar (as_scalar) shapes and the private length-1 rule are checked on the implementation only. Tie + search: every public property (82 of SourceCatalog, 49 of ApertureStats, enumerated at run time) x 6 index forms x {evaluated before/after indexing} compared on real catalogues; '
          'selected positions compared with the Lean index model; parent/child interference histories (add/rename/remove extra property, circular/kron photometry, to_table).',
  'note': 'Trusted: Lean kernel + standard axioms; AST extractor of init_attr / in-place mutations; documented exceptions: `labels`/`ids` are always iterable.',
 },
 'C07': {
  'design_ref': 'DESIGN.md §5 C07',
  'technique': 'Lean 4 theorems on a per-label measurement model (columns as explicit formulas over the label\'s pixel list) + correspondence with SourceCatalog and metamorphic oracles',
  'text': 'The model (Model/Catalog.lean) writes each modelled column - segment_flux, fluxerr^2, area, segment_area, bounding box, min/max value and index (first in raster order), raw moments of the zeroed convolved cut-out, centroid = cut-out centroid + box origin, '
          'normalised second central moments, background sum - as an explicit formula over the pixels carrying the label that are unmasked and finite (these ARE the defining formulas of the statement). Proved in Lean for all inputs: every column of label l is identical for two inputs agreeing on l\'s pixels, '
          'whatever differs elsewhere, incl. other labels inside the bounding box (row_local); values under masked pixels never matter (flux_blind_to_masked); an injective relabelling leaves every row unchanged (row_relabel_invariant, pix_relabel_inj); the catalogue is a map over its labels so reordering only permutes rows (rows_perm); '
          'a completely masked / non-finite source gives NaN (all_masked_nan). Tie: every modelled column of real SourceCatalogs on dyadic scenes (touching, nested, non-connected, edge-hugging labels, gaps, NaN/inf inside segments, masks, separate convolved data, error/background maps) compared with the model (exact for integer columns, 1e-10 for sums), '
          'and on disagreement a direct numpy oracle decides. [partial] covariance is compared only where the 1/12 regularisation is inactive; kron, flux-fraction radii, windowed centroid, local background, perimeter, gini and eigen-derived shape columns are covered only by the locality / relabel / reorder oracles on the implementation.',
  'note': 'Trusted: Lean kernel + standard axioms; hand model tied by differential testing; sqrt and eigen-decomposition not modelled; float summation order (1e-10).',
 },
 'C14': {
  'design_ref': 'DESIGN.md §5 C14',
  'technique': 'Lean 4 theorems on a model of find_peaks (padded footprint maximum, mask/border/threshold conjunction, top-N) and of the star-finder selection layer + correspondence and brute-force oracle',
  'text': 'Proved in Lean: a pixel is a candidate iff it equals the maximum of its padded footprint neighbourhood, is unmasked, outside the border strips and strictly above the threshold (mem_candidates_iff, isNbhdMax_iff); candidates come in raster order (candidates_sorted); '
          'with the padding value not above any pixel - the minimum of the data, as the code now uses - pixels outside the image never decide, so negative maxima on the edge are found (edge_peaks_with_min_padding); a zero border width excludes nothing (border_zero_noop); '
          'npeaks keeps min(n, #candidates) candidates, each at least as high as every dropped one, in decreasing order (topN_sub, topN_length, topN_dominates, over a total order on finite/infinite values); None iff no candidate (findPeaks_none_iff); '
          'star finders: the returned rows are exactly the raw-catalogue rows that are finite and within the inclusive bounds, None iff none passes, brightest=N returns at most N (selectStars_spec, passes_iff, brightest_keeps_largest). '
          'the min_separation neighbourhood (sepOffsets: integer offsets with dy^2 + dx^2 <= sep^2) contains exactly the offsets within the separation, is symmetric under mirroring either axis and swapping the axes, and contains the pixel itself (mem_sepOffsets, sepOffsets_symmetric, sepOffsets_centre - defect F50: it was off-centre for non-integer separations); the footprint the finders hand to find_peaks is captured at run time and compared with this model. ' \
          'Tie: find_peaks on dyadic images (ties, plateaus, NaN/inf, negative regions, constant images; odd/even/rectangular boxes, random footprints, border widths incl. 0/asymmetric, masks, scalar/2-D thresholds, npeaks) compared with the model pixel-for-pixel and with a brute-force evaluation of the contract; '
          'DAOStarFinder/IRAFStarFinder raw catalogues pushed through the Lean selection model and compared with find_stars. [partial] sharpness/roundness/marginal-fit numerics and the centroid-within-kernel clause are not modelled; StarFinder is probed only.',
  'note': 'Trusted: Lean kernel + standard axioms; hand model tied by differential testing; order among exactly tied values at the npeaks cut is unspecified (numpy argsort) and compared as a multiset.',
 },
 'C17': {
  'design_ref': 'DESIGN.md §5 C17',
  'technique': 'Lean 4 theorems on a model of centroid_com, the vertex rule of centroid_quadratic and the centroid_sources loop (skeleton flags regenerated from the source) + correspondence and symmetry oracles',
  'text': 'Proved in Lean (exact arithmetic): centroid_com ignores values under masked pixels and is invariant under any non-zero rescaling (com_mask_blind, com_scale); the point returned by the vertex rule of centroid_quadratic is the unique stationary point of the fitted quadratic, lies strictly inside the image and exists only for a negative-definite Hessian, and conversely every strict interior maximum is returned, never NaN '
          '(quadratic_vertex_exact, quadratic_vertex_found); for the loop skeleton extracted from centroid_sources on every run (keyword dict re-derived per source, not mutated in the loop, both origin additions present) the result for each position is the centroid function applied to that position\'s cut-out with keywords derived from the caller\'s, independent of other positions and of their order '
          '(centroid_sources_per_source, centroid_sources_perm, both_origins_added). [param] lstsq is a parameter. [partial] flip/transpose/symmetry laws are checked on the implementation for all four centroid functions, not proved. '
          'Tie: centroid_com vs the model exactly on dyadic cut-outs with masks/NaN; centroid_quadratic on exactly quadratic peaks vs the model fed the true coefficients; py2intround on half-integers; centroid_sources vs per-cut-out calls (footprint/mask/error/xpeak).',
  'note': 'Trusted: Lean kernel + standard axioms; AST extractor of the loop skeleton; numpy lstsq; Gaussian fits (astropy fitters) not modelled. centroid_quadratic is tested for symmetry only when the symmetry centre is a pixel centre (its odd fit box cannot be centred otherwise).',
 },
 'C18': {
  'design_ref': 'DESIGN.md §5 C18',
  'technique': 'Lean 4 theorems on the accumulation model of make_model_image (window arithmetic of overlap_slices, skip rule, units flag; loop skeleton regenerated from the source) + correspondence with the real renderer',
  'text': 'Proved in Lean (exact arithmetic): every pixel of the rendered image is the sum over table rows of (model value + local background) on that row\'s model_shape window clipped to the image, and 0 from rows whose window misses the pixel (render_is_sum); the window on each axis is exactly the part of [ceil(pos - s/2), ceil(pos - s/2) + s) inside the image and is absent iff that interval misses the image '
          '(window1_spec, window1_none_iff); the image is invariant under any reordering of the rows, additive over table concatenation, and rows that do not overlap contribute nothing (render_perm_invariant, render_concat_additive, render_skips_offimage); for the loop skeleton extracted from the source the output carries units as soon as any overlapping row is unit-ful, independent of row order '
          '(units_independent_of_row_order, loop_skeleton); residual + model = data (residual_is_data_minus_model). [param] the model evaluation per row is an oracle supplied by the harness (full-frame evaluation of the real astropy model). '
          'Tie: make_model_image on tables with rows inside / on the edge / far off the image (incl. row 0 off-image, windows ending exactly at the image edge), per-row model_shape (odd/even), local_bkg, name maps, unit-ful fluxes, 5 model families, compared pixel-wise with the Lean accumulation of the oracle values; reorder/split relations and input immutability on the implementation; PSFPhotometry model/residual images.',
  'note': 'Trusted: Lean kernel + standard axioms; AST extractor of the loop skeleton; astropy model evaluation; float accumulation order (1e-12).',
 },
 'C15': {
  'design_ref': 'DESIGN.md §5 C15',
  'technique': 'Lean 4 theorems for the unit-handling decision logic (process_quantities, calc_total_error) with float-conversion facts regenerated from the source + correspondence + representation sweep of 18 entry points x 12 representations on the implementation',
  'text': 'Proved in Lean: process_quantities succeeds with unit u iff some input is present and every present input has unit u, mixing unit-ful with unit-less inputs or two different units is rejected, the decision is independent of the order of the inputs and the numbers are returned unchanged (process_ok_iff, mixing_rejected, different_units_rejected, process_perm, stripped_payload); '
          'calc_total_error accepts units on all three inputs or none, data and bkg_error share the unit of the result, and the value is >= the background error, equal to it where data <= 0 or gain = 0, monotone in the data; negative gain is rejected (total_error_unit_ok_iff, total_error_bounds, total_error_mono, negative_gain_rejected); '
          'the float conversions that precede in-place arithmetic (calc_total_error, _filter_data, Background2D, SourceCatalog and ApertureStats cut-outs, centroid_quadratic) and the skeleton of process_quantities are facts regenerated from the source each run (Gen/FloatGuards.lean, float_guards). '
          '[partial] numpy dtype / layout semantics are not modelled: that every entry point gives the same numbers for int64/int32/uint16, float32, big-endian, Fortran-ordered, strided, MaskedArray (empty mask / nomask), NDData and Quantity inputs (with units on flux-like outputs only, mixed units rejected) is decided by the sweep on the implementation. '
          'Tie: process_quantities and calc_total_error vs the Lean model on random unit patterns.',
  'note': 'Trusted: Lean kernel + standard axioms; AST extractor; hand model tied by differential testing; numpy/astropy container semantics.',
 },
 'C16': {
  'design_ref': 'DESIGN.md §5 C16',
  'technique': 'Lean 4 theorems on a model of ApertureStats for one position (pixel multiset, statistics, centroid re-basing; overlap geometry from the generated get_overlap_slices) + correspondence and direct-statistics oracle',
  'text': 'Proved in Lean: the centre-method pixel multiset is exactly {pixels of box ∩ image whose centre is in the aperture, unmasked, finite, not clipped} with the local background subtracted '
          '(centreVals_spec, overlap_pixels_spec - reusing the C01/C02 slice theorems); count, sum, mean·n, min, max are those of that multiset, min/max are attained and the variance is non-negative (stats_spec); nothing is measured iff the box misses the image (no_overlap_iff, stats_none_iff); '
          'the centre of mass computed in the clipped cut-out and re-based by the START OF THE OVERLAP SLICES is the centre of mass in image coordinates, whatever the aperture bounding box is (centroid_rebase). [param] the sigma-clip decision is a parameter; std/MAD/biweight are computed outside Lean on the model multiset. '
          'Tie: ApertureStats on dyadic images with NaN/inf, masks, errors, local background, 6 aperture classes, positions inside / overhanging each edge / off-image, 3 sum methods, compared with the model (n, min, max, mean, var, median, sum, area, centroid) and with direct numpy statistics, aperture_photometry and area_overlap; '
          'sigma clipping, per-position local background, batch==single and sky==to_pixel on the implementation.',
  'note': 'Trusted: Lean kernel + standard axioms; hand model tied by differential testing; astropy SigmaClip; moment-based shape columns beyond the centroid not modelled. Cases whose aperture weights are non-finite are C01 known finding F20 and are skipped here.',
 },
 'C10': {
  'design_ref': 'DESIGN.md §5 C10',
  'technique': 'Lean 4 soundness proof of a may-alias analysis over an effects language + effect programs regenerated from the Python source of every public function/class (kernel-evaluated acceptance) + deep-snapshot sweep of the public API on the implementation',
  'text': 'Proved in Lean: for the effects language (assign / fresh / in-place write / sequence / branch / loop) with non-deterministic big-step semantics, if the may-alias analysis accepts a program then on every execution path, for any number of loop iterations (and, for a class, any sequence of method calls after construction), the abstract state over-approximates which caller buffers each variable points to and no caller-supplied buffer is written (absExec_sound, loop_sound, safe_no_input_write); '
          'the analysis accepts every effect program regenerated from the current source of the public functions and classes of 66 modules (129 units; 7 units excluded with stated reasons in tools/effects_scan.py: attribute descriptors, Ellipse / EllipseFitter / IsophoteList which update objects they are given by design - cf. known finding F18 - and ImageDepth, a path-correlated false positive) - evaluated by the kernel - hence none of them writes an input in the model (all_extracted_safe, extracted_units_do_not_write_inputs). '
          '[partial] the translation Python -> effects is an over-approximation with stated assumptions (library calls return new objects and do not modify their arguments except listed in-place functions; attribute/subscript reads alias their base; try bodies run entirely or not at all); it is part of the trusted base. '
          'Tie: the effect programs are regenerated on every run; the dynamic sweep (13 API groups x ndarray / MaskedArray / Quantity / view x negatives / masked / NaN+inf data, every lazily evaluated property read, deep snapshots of arrays, masks, tables, models, kernels, footprints, apertures, estimators, NDData after return or raise) validates the abstraction and searches for concrete failing inputs.',
  'note': 'Trusted: Lean kernel + standard axioms; tools/effects.py translator and its assumptions; numpy/astropy/scipy not mutating their arguments.',
 },
 'C11': {
  'design_ref': 'DESIGN.md §5 C11',
  'technique': 'Lean 4 theorems over an exact model of the mesh statistics (tiling, exclusion, astropy sigma clipping, mean/median/SExtractor, IDW, clip, coverage fill) with constants regenerated from the source + per-box correspondence with Background2D (bottleneck on/off) and implementation-side relation probes',
  'text': 'Proved in Lean: every pixel lies in exactly one mesh box (y//by, x//bx) and that box index is inside the padded mesh (tiling_partition, box_in_range); a mesh value does not depend on what is stored under masked pixels (mesh_mask_blind); '
          'mean, variance, median and the SExtractor estimate are shift- and scale-equivariant and the sigma-clip bounds and decisions (astropy semantics: iterate, final bounds applied to the original sample) transport exactly through x+c and k·x, k>0 '
          '(mean_shift/scale, variance_shift/scale, median_shift/scale, sigBounds_map, clipped_shift, clipped_scale, estimate_shift, estimate_scale); a constant box gives exactly the constant, variance 0 and nothing clipped (constant_box_exact); '
          'Shepard IDW values (fill of excluded meshes, IDW upscaling) are convex combinations and stay within the range of the neighbours (idw_within_range); the clipped zoom stays within the mesh range (clip_within_range); coverage pixels get fill_value (coverage_gets_fill). '
          'The SExtractor factors/threshold/operators, the exclusion rule and the clip/fill statements are regenerated from the source each run (Gen/BkgConsts.lean, generated_consts). [partial] scipy zoom/cKDTree, float rounding and the Mode/MMM/biweight/MAD estimators are not modelled - probed on the implementation. '
          'Tie: per-box background, variance, pixel count and exclusion of Background2D(filter_size=1) vs the exact model on images 1-11 px with padded edge/corner boxes, masks, coverage masks, NaN/inf, outliers, exclude_percentile 0-100, sigma None/1.5-3, maxiters 1-10, with and without bottleneck; ShepardIDWInterpolator vs the model.',
  'note': 'Trusted: Lean kernel + standard axioms; hand model tied by differential testing; astropy SigmaClip modelled, scipy zoom / cKDTree as oracles.',
 },
 'C12': {
  'design_ref': 'DESIGN.md §5 C12',
  'technique': 'Lean 4 theorems on the bookkeeping model of PSFPhotometry / SourceGrouper (groups as graph components via the C04 theory, grouped<->input order permutation, fit-window counts, flags) + correspondence; recovery probed',
  'text': 'Proved in Lean: two sources receive the same group id iff they are linked by a chain of sources each within min_separation of the next - single linkage - and ids are numbered by first appearance (group_ids_are_components, reusing the connected-component theory of C04 on the point graph, pointGraph); '
          'values produced in grouped order and put back with argsort(ids) are in input order for EVERY grouping permutation, in particular for the stable group_by order the table uses (ungroup_restores_input_order, groupOrder_perm, fit_results_in_input_order); group_size counts the members (groupSizes_spec); the documented flag bits 1, 2, 4 are exactly their defining conditions (flags_bits). '
          'every per-source list read back from the per-group results in __call__ (npixfit, nmodels) and the PSF-centre indices go through _ungroup = _order_by_id o _flatten (table obligation per_source_results_are_ungrouped over Gen/PsfTable.lean, regenerated from photometry.py every run). ' \
          '[partial] recovery of x, y, flux of a rendered scene depends on the optimiser and is NOT proved: it is checked on the implementation for noise-free scenes (Gaussian PRF, ImagePSF; isolated and moderately blended sources, edges, masks, shuffled rows, supplied group_id, flux scaling, fixed parameters, iterative(maxiters=1)==single). '
          'Tie: SourceGrouper on dyadic positions with exact ties at the separation vs the Lean component model; group ids/sizes, npixfit, invalid-position test and flag bits of real PSFPhotometry results vs the model.',
  'note': 'Trusted: Lean kernel + standard axioms; hand model tied by differential testing; astropy fitters, error estimates and the local-background estimator not modelled; very close blends (< 1 FWHM) are outside the generated scenes because convergence of the optimiser is not part of the model.',
 },
 'C13': {
  'design_ref': 'DESIGN.md §5 C13',
  'technique': 'Lean 4 theorems for the algebraic content (telescoping normalisation over an abstract CDF, rotation identity, sample-point transform, bilinear weights with clamping) + correspondence of the index model and numeric probes',
  'text': 'Proved in Lean: pixel-integrated profiles that are differences of a cumulative function telescope, for every cumulative function, centre and width - over any pixel run the sum is F(end) - F(start), and the separable 2-D form sums to flux·ΔFx·ΔFy, hence to the flux as the window grows (prf_telescopes, prf2d_window_sum); '
          'the exponent of the elliptical Gaussian with equal widths is rotation invariant given cos²+sin²=1 (rotation_invariant_radius); sigma and FWHM forms agree (sigma_fwhm_forms_agree); ImagePSF: at x0 + (i-origin)/oversampling the array coordinate is exactly i, valid iff 0 <= i <= n-1 (imagepsf_sample_point, sample_valid_iff); '
          'GriddedPSFModel: the four weights are non-negative and sum to 1 for every position, are (1,0,0,0)/(0,0,0,1) at the nodes, are the bilinear ones inside a cell and those of the clamped position outside; a zero-width cell of a single-row/column grid still gives weights summing to 1 '
          '(bilinear_weights_convex, gridded_at_node, gridded_bilinear_in_cell, gridded_clamped_outside, degenerate_cell_weights). [partial] erf, Moffat/Airy integrals and the cubic splines are not modelled: PRF pixel sums, PSF integrals, non-negativity, centring, linearity and sample-point reproduction are numeric probes on the implementation. '
          'Tie: bounding nodes and weights of GriddedPSFModel on dyadic layouts (3x3, 2x2, 2x3, single row/column/point; on nodes, cell edges, outside the hull) and the ImagePSF coordinate transform compared with the Lean model.',
  'note': 'Trusted: Lean kernel + standard axioms; hand model tied by differential testing; scipy RectBivariateSpline, erf. Known finding F19: rotated GaussianPRF is not a pixel integral.',
 },
 'C20': {
  'design_ref': 'DESIGN.md §5 C20',
  'technique': 'Lean 4 theorems for the logic of the isophote fitter (coordinate-transform twins, sma growth skeleton, corrector choice under fix flags, radius bounds) with the loop skeleton regenerated from the source + correspondence + recovery probes on synthetic galaxies',
  'text': 'Proved in Lean: the scalar and vectorised forms of EllipseGeometry.to_polar compute the same (radius, angle) for every input (twins_agree); the outward run of semi-major axes is strictly increasing with every later value below maxsma, the inward run strictly decreasing and above max(minsma, 1/2) (outward_spec, inward_spec); with the inward guard read off the source every fitted sma other than sma0 lies in the requested range, the central pixel appears only for minsma = 0, and the sorted list has no repeated sma (fitted_in_range, sorted_strict, source_has_inward_guard); '
          'the corrector is always chosen among the free parameters, so through any number of iterations, for any harmonic amplitudes and any proposed corrections, a fixed centre keeps exactly its initial value, a fixed positive ellipticity too and with it a fixed position angle; with a free ellipticity a fixed position angle can change only by quarter turns - the re-labelling done when the ellipticity crosses zero (choose_mem, iterate_honours_fix_center, iterate_honours_fix_eps, iterate_fix_pa_mod_quarter_turn); the elliptical radius lies between the semi-minor and semi-major axis (radius_between_axes). '
          '[partial] the harmonic fit, the image sampling/integration and the size of the corrections are oracles: recovery of centre, ellipticity, position angle and intensity within the reported errors, the model image of build_ellipse_model and the untouched input image are decided by probes on synthetic galaxies (exponential, Gaussian, Sersic; eps 0.05-0.8; any PA; geometric and linear growth; three integration modes; fix flags). '
          'Tie: to_polar (both forms) vs the Lean model at Float, sma lists of converged fits vs the growth model, the corrector choice vs the numpy expression of the source; growth-loop skeleton regenerated each run (Gen/IsophoteTable.lean).',
  'note': 'Trusted: Lean kernel + standard axioms; AST extractor; hand model tied by differential testing; scipy least squares and the samplers are not modelled.',
 },
}

_todo = 'check not built yet in this round (see DESIGN.md §10 build order); not claimed until its machinery is committed'
NOT_APPLICABLE = {f'C{i:02d}': _todo for i in range(1, 21) if f'C{i:02d}' not in CLAIMS}
