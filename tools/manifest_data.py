"""What MANIFEST.json claims; edit here and run tools/make_manifest.py."""
FIX_COMMITS = []

CLAIMS = {
 'C01': {
  'design_ref': 'DESIGN.md §5 C01',
  'technique': 'Lean 4 theorems over definitions regenerated from bounding_box.py and geometry/*.pyx + correspondence (Float bit-compare, exact Rat masks)',
  'text': 'Proved in Lean for all inputs (ordered field with floor): BoundingBox.from_float returns the least integer box covering the rectangle '
          '(fromFloat_least_cover, fromFloat_error_iff); get_overlap_slices is None iff no common pixel and otherwise selects exactly the common pixels, '
          'small = large re-based (overlap_none_iff, overlap_some_exact, overlap_small_rebased, overlap_same_extent); union/intersection laws; to_image/cutout '
          'registration (toImage_registered, cutout_registered); the translated circle/ellipse/rectangle sub-pixel kernels return (#sub-pixel centres inside)/s^2 '
          'for every s, hence weights in [0,1] and center == subpixel 1 (circ/ell/rect_subpixel_is_counting, counting_weight_range, centre_is_subpixel_one). '
          'These theorems are about definitions regenerated from /repo on every run. [partial] exact-mode area equality is NOT proved: the translated exact kernels are '
          'executed at Lean Float and compared bit-for-bit with the compiled .so, and numeric oracles (sum = analytic area, range) run on the implementation.',
  'note': 'Trusted: Lean kernel; axioms propext/Classical.choice/Quot.sound; the Python->Lean translator; real-number semantics (no rounding); hand model of to_mask assembly '
          '(Model/Mask.lean) tied by correspondence only; the compiled geometry .so cannot be rebuilt here (no Cython) so .pyx edits are seen only through the translation.',
 },
}

_todo = 'check not built yet in this round (see DESIGN.md §10 build order); not claimed until its machinery is committed'
NOT_APPLICABLE = {f'C{i:02d}': _todo for i in range(1, 21) if f'C{i:02d}' not in CLAIMS}
