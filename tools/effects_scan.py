"""Run the effect translation (tools/effects.py) over the in-scope photutils modules and evaluate the Lean analysis on every
function / class through the compiled driver.  Used by tools/extract_tables.gen_effects_table and tools/props/c10.py."""
import ast
import os
import sys

sys.path.insert(0, os.path.dirname(__file__))
import effects as E  # noqa: E402
from common import Driver  # noqa: E402

SCOPE = ['photutils/profiles/core.py', 'photutils/profiles/radial_profile.py', 'photutils/profiles/curve_of_growth.py',
         'photutils/centroids/core.py', 'photutils/centroids/gaussian.py',
         'photutils/detection/core.py', 'photutils/detection/starfinder.py', 'photutils/detection/daofinder.py',
         'photutils/detection/irafstarfinder.py', 'photutils/detection/peakfinder.py',
         'photutils/background/background_2d.py', 'photutils/background/core.py', 'photutils/background/interpolators.py',
         'photutils/background/local_background.py',
         'photutils/aperture/stats.py', 'photutils/aperture/photometry.py', 'photutils/aperture/mask.py', 'photutils/aperture/core.py',
         'photutils/segmentation/catalog.py', 'photutils/segmentation/detect.py', 'photutils/segmentation/deblend.py',
         'photutils/segmentation/core.py', 'photutils/segmentation/utils.py',
         'photutils/psf/photometry.py', 'photutils/psf/utils.py', 'photutils/psf/groupers.py',
         'photutils/utils/errors.py', 'photutils/utils/_convolution.py', 'photutils/utils/_quantity_helpers.py', 'photutils/utils/_moments.py',
         'photutils/utils/cutouts.py', 'photutils/utils/interpolation.py', 'photutils/utils/_stats.py', 'photutils/utils/footprints.py',
         'photutils/datasets/images.py', 'photutils/morphology/core.py', 'photutils/morphology/non_parametric.py',
         # second batch: the remaining library modules
         'photutils/aperture/attributes.py', 'photutils/aperture/bounding_box.py', 'photutils/aperture/circle.py', 'photutils/aperture/converters.py',
         'photutils/aperture/ellipse.py', 'photutils/aperture/rectangle.py', 'photutils/datasets/model_params.py', 'photutils/datasets/noise.py',
         'photutils/isophote/ellipse.py', 'photutils/isophote/fitter.py', 'photutils/isophote/geometry.py', 'photutils/isophote/harmonics.py',
         'photutils/isophote/integrator.py', 'photutils/isophote/isophote.py', 'photutils/isophote/model.py', 'photutils/isophote/sample.py',
         'photutils/psf/epsf.py', 'photutils/psf/epsf_stars.py', 'photutils/psf/functional_models.py', 'photutils/psf/gridded_models.py',
         'photutils/psf/image_models.py', 'photutils/psf/matching/fourier.py', 'photutils/psf/matching/windows.py', 'photutils/psf/model_helpers.py',
         'photutils/psf/simulation.py', 'photutils/segmentation/finder.py', 'photutils/utils/_parameters.py', 'photutils/utils/_round.py',
         'photutils/utils/depths.py']
FUEL = 8

# units that are NOT claimed by the static analysis, each with its reason (the dynamic sweep still covers them)
EXCLUDE = {
    'photutils/aperture/attributes.py:ApertureAttribute': 'descriptor: __set__/__delete__ store the value on the aperture instance they are attached to, by design',
    'photutils/aperture/attributes.py:PixelPositions': 'descriptor (see ApertureAttribute)',
    'photutils/aperture/attributes.py:ScalarAngleOrValue': 'descriptor (see ApertureAttribute)',
    'photutils/isophote/ellipse.py:Ellipse': 'fit_image writes fix_* / linear into the EllipseGeometry it was given ("for good", known finding F18); '
                                             'fit_isophote appends to the isophote_list argument by contract',
    'photutils/isophote/fitter.py:EllipseFitter': 'the fitter updates the EllipseSample it was constructed with (its working object) by design',
    'photutils/isophote/isophote.py:IsophoteList': 'a list wrapper: sort / append / extend act on the wrapped list by design',
    'photutils/utils/depths.py:ImageDepth': 'path-correlated guards (`np.any(mask)` decides both the call and the copy): rejected by the path-insensitive analysis, '
                                            'covered by the dynamic sweep (API group ImageDepth: masks without and with True pixels)',
}


def collect():
    funcs, classes = [], []
    for f in SCOPE:
        p = os.path.join(E.REPO, f)
        if not os.path.exists(p):
            continue
        tree = ast.parse(open(p).read())
        for n in tree.body:
            if isinstance(n, ast.FunctionDef):
                funcs.append((f, n))
            elif isinstance(n, ast.ClassDef):
                classes.append((f, n))
    return funcs, classes


def query(drv, items):
    """items: list of (k, retvar, inputs-list, prog) -> list of (safe, ret-aliases)"""
    lines = []
    for k, ret, ins, prog in items:
        lines.append(f'eff {FUEL} {k} {E.nvars(prog, k, ret)} {ret} ' + (','.join(map(str, ins)) if ins else '-') + ' ' + E.to_prefix(prog))
    out = drv.run(lines)
    if out is None:
        raise RuntimeError(f'driver failed: {drv.error}')
    res = []
    for o in out:
        if not o.startswith('ok'):
            raise RuntimeError(f'driver rejected an effect program: {o}')
        a, _, b = o[3:].partition('|')
        res.append((a.strip() == '1', [int(t) for t in b.split()]))
    return res


def scan(rounds=3):
    funcs, classes = collect()
    drv = Driver()
    summaries = {}
    units = [(f, n.name, n, None) for f, n in funcs]
    for f, c in classes:
        for m in c.body:
            if isinstance(m, ast.FunctionDef):
                units.append((f, m.name, m, c.name))
    count = {}
    for _, nm, _, _ in units:
        count[nm] = count.get(nm, 0) + 1
    for _ in range(rounds):
        items, meta = [], []
        for f, nm, node, cname in units:
            if nm.startswith('__') and nm.endswith('__'):
                continue
            keys = ([nm] if count[nm] == 1 else []) + ([f'{cname}.{nm}'] if cname else [])
            if not keys:
                continue
            ps, ctx, prog, tr = E.translate_function(node, summaries, cname)
            ret = ctx.var('<return>')
            k = len(ps)
            for key in keys:
                items.append((k, ret, list(range(k)), prog))
                meta.append((key, k, 'all'))
                for i in range(k):
                    items.append((k, ret, [i], prog))
                    meta.append((key, k, i))
        # class constructors: the object keeps references to its __init__ arguments; which of them may some method write?
        cls_items = []
        for f, c in classes:
            ins, ctx, prog, init_ps = E.translate_class(c, summaries)
            for j, p in enumerate(init_ps):
                i = ins.index(p)
                items.append((len(ins), 0, [i], prog))
                meta.append((c.name, len(init_ps), ('cls', j)))
            cls_items.append((c.name, len(init_ps)))
        res = query(drv, items)
        new = {}
        for (nm, k, which), (safe, ret) in zip(meta, res):
            s = new.setdefault(nm, [set(), set()])
            if which == 'all':
                s[0] = set(ret)
            elif isinstance(which, tuple):
                s[0].add(which[1])                       # the constructed object aliases every __init__ argument
                if not safe:
                    s[1].add(which[1])
            elif not safe:
                s[1].add(which)
        summaries = {nm: (sorted(v[0]), sorted(v[1])) for nm, v in new.items() if v[0] or v[1]}
    entries, items = [], []
    for f, n in funcs:
        if E.is_private(n.name) or f'{f}:{n.name}' in EXCLUDE:
            continue
        ps, ctx, prog, tr = E.translate_function(n, summaries)
        full = E.size(prog)
        prog, _ = E.slice_program(prog, len(ps))
        entries.append({'name': f'{f}:{n.name}', 'kind': 'function', 'params': ps, 'k': len(ps), 'prog': prog, 'nv': E.nvars(prog, len(ps)), 'full_size': full})
        items.append((len(ps), 0, list(range(len(ps))), prog))
    for f, c in classes:
        if E.is_private(c.name) or f'{f}:{c.name}' in EXCLUDE:
            continue
        ins, ctx, prog, _ = E.translate_class(c, summaries)
        full = E.size(prog)
        prog, _ = E.slice_program(prog, len(ins))
        entries.append({'name': f'{f}:{c.name}', 'kind': 'class', 'params': ins, 'k': len(ins), 'prog': prog, 'nv': E.nvars(prog, len(ins)), 'full_size': full})
        items.append((len(ins), 0, list(range(len(ins))), prog))
    res = query(drv, items)
    for e, (safe, _) in zip(entries, res):
        e['safe'] = safe
    items, meta = [], []
    for e in entries:
        if not e['safe']:
            for i in range(e['k']):
                items.append((e['k'], 0, [i], e['prog']))
                meta.append((e, i))
    res = query(drv, items) if items else []
    for (e, i), (safe, _) in zip(meta, res):
        if not safe:
            e.setdefault('written', []).append(e['params'][i])
    # which write statements (source lines) are responsible
    items, meta = [], []
    for e in entries:
        if not e['safe']:
            for w in E.all_writes(e['prog']):
                items.append((e['k'], 0, list(range(e['k'])), E.only_write(e['prog'], w)))
                meta.append((e, w))
    res = query(drv, items) if items else []
    for (e, w), (safe, _) in zip(meta, res):
        if not safe:
            e.setdefault('lines', set()).add(w[2] if len(w) > 2 else 0)
    return entries, summaries


if __name__ == '__main__':
    ents, summ = scan()
    for e in ents:
        if not e['safe']:
            print('UNSAFE', e['name'], e.get('written'), sorted(e.get('lines', [])))
    print(len(ents), 'units;', sum(e['safe'] for e in ents), 'accepted; program sizes', sum(E.size(e['prog']) for e in ents), 'of', sum(e['full_size'] for e in ents), 'max nv', max(e['nv'] for e in ents))
    print('summaries', {k: v for k, v in summ.items()})
