"""Differential soundness test of the effects translator (tools/effects.py) + the Lean may-alias analysis.

The translator is part of the trusted base of C10.  This test generates small Python units from a template grammar
(alias-producing expression) x (optional second alias step) x (in-place or harmless statement) x (syntactic form: plain function,
method, constructor-stored attribute, property-returned alias, private helper method), EXECUTES each unit on numpy arrays to see
whether the caller's argument is really modified, and asks the analysis for its verdict.

  soundness   : executed unit modifies its argument  ==>  the analysis rejects it          (a counter-example = broken tie)
  precision   : executed unit leaves it alone, the analysis rejects it anyway              (counted, not an error)

The expectations are not asserted by hand: they come from running the code.  `python3 tools/effects_selftest.py` prints a summary."""
import ast
import os
import sys
import warnings

import numpy as np

sys.path.insert(0, os.path.dirname(__file__))
import effects as E  # noqa: E402
import effects_scan as S  # noqa: E402
from common import Driver  # noqa: E402

# expression over the variable `{v}` -> (text, may be an alias at run time)
ALIASES = ['{v}', 'np.asarray({v})', 'np.asanyarray({v})', 'np.asarray({v}, dtype=float)', 'np.atleast_1d({v})', 'np.atleast_2d({v})',
           '{v}.ravel()', '{v}.reshape(-1)', '{v}.view()', '{v}[1:]', '{v}.T', 'np.squeeze({v})', 'np.array({v}, copy=False)',
           '{v}.astype(float, copy=False)', 'np.ravel({v})', 'np.transpose({v})', 'np.ma.getdata({v})', 'np.reshape({v}, -1)', '{v}.squeeze()',
           'np.expand_dims({v}, 0)', '{v}[np.newaxis]', '{v}[:, None]', '{v}.swapaxes(0, 0)', 'np.ma.masked_array({v}).data', 'np.ma.MaskedArray({v}).data',
           'np.ma.masked_invalid({v}, copy=False).data', 'u.Quantity({v}, copy=False).value', '({v} << u.Jy).value', 'np.asarray({v}).view(np.ndarray)',
           '({v} if y.sum() > 0 else y)', '[{v}, y][0]', '({v}, y)[0]', 'dict(k={v})["k"]', 'np.lib.stride_tricks.as_strided({v})', '{v}.flat.base',
           'getattr({v}, "T")', 'np.ma.getdata(np.ma.masked_array({v}))', 'np.broadcast_arrays({v}, y)[0]',
           # copies
           '{v}.copy()', 'np.array({v})', '{v}.astype(float)', '{v} + 0', 'np.asarray({v}) * 1.0', '{v}.flatten()', 'np.copy({v})',
           'np.array({v}, dtype=float, copy=True)']
SECOND = [None, 'np.asarray({v})', '{v}.ravel()', '{v}[::2]', 'np.atleast_1d({v})', '{v}.copy()']
# statements over the variable `b` (and the second argument `y`)
STMTS = ['b += 1', 'b[0] = 5.0', 'b[...] = 0.0', 'np.copyto(b, 0.0)', 'b.fill(3.0)', 'b.sort()', 'np.add(b, 1.0, out=b)', 'b *= 2', 'b -= y[:b.size].reshape(b.shape)',
         'b[b > 2] = 0.0', 'np.negative(b, out=b)', 'b.flat[0] = 9.0', 'np.put(b, [0], [7.0])', 'np.clip(b, 0, 1, out=b)', 'b.clip(0, 1, out=b)',
         'np.putmask(b, b > 0, 0.0)', 'np.place(b, b > 0, 0.0)', 'b.partition(1)', 'b.ravel()[0] = 4.0', 'b.reshape(-1)[0] = 4.0', 'b.T[...] = 1.0',
         'for i in range(2): b += 1', 'if y.sum() > 0: b += 1', 'lst = [b]; lst[0] += 1', 'd = dict(k=b); d["k"] += 1', 'c = b; c += 1', 'c = b[:]; c[0] = 2.0',
         'c, e = b, 1; c *= 3', 'np.multiply(b, 2.0, b)', 'b.__iadd__(1)', 'b.setfield(1.0, float)', 'np.sqrt(b, b)',
         'c = list((b, y)); c[0] += 1', 'c = tuple([b]); c[0].fill(1.0)', 'd = dict(k=b); e = dict(d); e["k"] += 1', 'c = sorted([b], key=id); c[0][0] = 3.0',
         'for a in [b]: a += 1', 'for a in dict(k=b).values(): a += 1', 'c = list((b, y))\nfor a in c: a += 1', 'c = dict(k=b)\nfor k_, a in c.items(): a *= 2', 'c = list((b, y)); d = c; np.add(d[0], 1, out=d[0])',
         'c = dict(k=b) if y.sum() > 0 else {}; c["k"] *= 2', 'c = list((b, y)); c[0] = 5.0', 'd = dict(k=b); e = dict(d); e["k"] = 1.0', 'c = list((b, y)); c.append(1)',
         # harmless
         'c = b + 1', 'b = b + 1', 'c = b.sum()', 'c = np.sort(b)', 'b = b * 2']

FORMS = ['function', 'method', 'ctor-attribute', 'property', 'private-helper', 'helper-return']


def unit_source(form, a1, a2, stmt):
    e1 = a1.format(v='x')
    lines2 = [f'b = {a2.format(v="a")}'] if a2 else ['b = a']
    if form == 'function':
        body = [f'a = {e1}'] + lines2 + stmt.split('\n') + ['return None']
        return 'def unit(x, y):\n' + ''.join(f'    {ln}\n' for ln in body), 'function'
    if form == 'method':
        body = [f'a = {e1}'] + lines2 + stmt.split('\n') + ['return None']
        return 'class Unit:\n    def run(self, x, y):\n' + ''.join(f'        {ln}\n' for ln in body), 'class'
    if form == 'ctor-attribute':
        st = stmt.replace('b', 'self.b') if not stmt.startswith(('c =', 'b = ')) else stmt.replace('= b', '= self.b').replace('(b)', '(self.b)')
        st = st.replace('self.self.', 'self.')
        body_i = [f'a = {e1}'] + lines2 + ['self.b = b', 'self.y = y']
        src = ('class Unit:\n    def __init__(self, x, y):\n' + ''.join(f'        {ln}\n' for ln in body_i)
               + '    def run(self):\n        y = self.y\n' + ''.join(f'        {ln}\n' for ln in st.split('\n')) + '        return None\n')
        return src, 'class'
    if form == 'property':
        src = ('class Unit:\n    def __init__(self, x, y):\n        self._x = x\n        self.y = y\n'
               '    @property\n    def view(self):\n' + f'        a = {a1.format(v="self._x")}\n' + ''.join(f'        {ln}\n' for ln in lines2) + '        return b\n'
               '    def run(self):\n        y = self.y\n        b = self.view\n' + ''.join(f'        {ln}\n' for ln in stmt.split('\n')) + '        return None\n')
        return src, 'class'
    if form == 'helper-return':
        src = ('class Unit:\n    def __init__(self, x, y):\n        self._x = x\n        self.y = y\n'
               '    def _get(self):\n' + f'        a = {a1.format(v="self._x")}\n' + ''.join(f'        {ln}\n' for ln in lines2) + '        return b\n'
               '    def run(self):\n        y = self.y\n        b = self._get()\n' + ''.join(f'        {ln}\n' for ln in stmt.split('\n')) + '        return None\n')
        return src, 'class'
    if form == 'private-helper':
        src = ('class Unit:\n    def _work(self, b, y):\n' + ''.join(f'        {ln}\n' for ln in stmt.split('\n')) + '        return None\n'
               '    def run(self, x, y):\n' + f'        a = {e1}\n' + ''.join(f'        {ln}\n' for ln in lines2) + '        self._work(b, y)\n        return None\n')
        return src, 'class'
    raise ValueError(form)


def execute(src, kind, form):
    """does running the unit modify the caller's x (or y)?  None = the unit raises"""
    x = np.arange(6.0) + 1.0
    y = np.ones(6)
    x0, y0 = x.copy(), y.copy()
    import astropy.units as u
    ns = {'np': np, 'u': u}
    try:
        with warnings.catch_warnings():
            warnings.simplefilter('ignore')
            exec(compile(src, '<unit>', 'exec'), ns)
            if kind == 'function':
                ns['unit'](x, y)
            elif form in ('method', 'private-helper'):
                ns['Unit']().run(x, y)
            else:
                ns['Unit'](x, y).run()
    except Exception:                                           # noqa: BLE001
        return None
    return not (np.array_equal(x, x0) and np.array_equal(y, y0))


def analyse(items):
    drv = Driver()
    progs = []
    for src, kind in items:
        tree = ast.parse(src)
        node = tree.body[0]
        if kind == 'function':
            ps, ctx, prog, _ = E.translate_function(node, {})
            k = len(ps)
        else:
            ins, ctx, prog, _ = E.translate_class(node, {})
            k = len(ins)
        progs.append((k, 0, list(range(k)), prog))
    return [safe for safe, _ in S.query(drv, progs)]


def run(limit=None, stride=1):
    units = []
    n = 0
    for form in FORMS:
        for a1 in ALIASES:
            for a2 in SECOND:
                for st in STMTS:
                    n += 1
                    if stride > 1 and ((n * 2654435761) >> 7) % stride:          # a fixed pseudo-random 1/stride sample of the grammar
                        continue
                    src, kind = unit_source(form, a1, a2, st)
                    units.append((form, a1, a2, st, src, kind))
    if limit:
        units = units[:limit]
    truth = [execute(u[4], u[5], u[0]) for u in units]
    keep = [i for i, t in enumerate(truth) if t is not None]
    verdict = analyse([(units[i][4], units[i][5]) for i in keep])
    unsound, imprecise, agree = [], 0, 0
    per_form = {}
    for i, safe in zip(keep, verdict):
        form = units[i][0]
        d = per_form.setdefault(form, {'modifies': 0, 'harmless': 0, 'rejected_harmless': 0})
        if truth[i]:
            d['modifies'] += 1
            if safe:
                unsound.append({'form': form, 'alias': units[i][1], 'second': units[i][2], 'statement': units[i][3], 'source': units[i][4]})
            else:
                agree += 1
        else:
            d['harmless'] += 1
            if not safe:
                imprecise += 1
                d['rejected_harmless'] += 1
            else:
                agree += 1
    return {'units': len(units), 'executed': len(keep), 'raised': len(units) - len(keep), 'unsound': unsound, 'imprecise': imprecise, 'agree': agree,
            'per_form': per_form}


if __name__ == '__main__':
    res = run(stride=int(sys.argv[1]) if len(sys.argv) > 1 else 1)
    print({k: v for k, v in res.items() if k != 'unsound'})
    for u in res['unsound'][:12]:
        print('UNSOUND', u['form'], '|', u['alias'], '|', u['second'], '|', u['statement'])
    print(len(res['unsound']), 'unsound')
