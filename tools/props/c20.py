"""C20 — isophote fitting recovers the geometry of elliptical light distributions (DESIGN §5 C20)."""
import math
import warnings
from fractions import Fraction as F

import numpy as np

from common import Driver, bits_to_float, fbits, prove, q, rng

PROP_MODULES = ['PhotVerif.Props.C20']


def galaxy(shape, x0, y0, eps, pa, law, r0, amp=1000.0):
    ny, nx = shape
    yy, xx = np.mgrid[0:ny, 0:nx].astype(float)
    c, s = math.cos(pa), math.sin(pa)
    xr = (xx - x0) * c + (yy - y0) * s
    yr = -(xx - x0) * s + (yy - y0) * c
    r = np.sqrt(xr ** 2 + (yr / (1 - eps)) ** 2)
    return amp * profile(law, r, r0), (lambda sma: amp * profile(law, np.asarray(sma, float), r0))


def profile(law, r, r0):
    if law == 'exp':
        return np.exp(-r / r0)
    if law == 'gauss':
        return np.exp(-0.5 * (r / r0) ** 2)
    n = float(law[6:])                                       # 'sersic2.5'
    bn = 2 * n - 1 / 3 + 4 / (405 * n)
    return np.exp(-bn * ((np.maximum(r, 1e-3) / r0) ** (1 / n) - 1))


def ang_diff(a, b):
    return abs(((a - b) + math.pi / 2) % math.pi - math.pi / 2)


def gen_galaxy(r, frame=None):
    ny, nx = r.randint(110, 140), r.randint(110, 140)
    x0, y0 = nx / 2 + r.uniform(-8, 8), ny / 2 + r.uniform(-8, 8)
    if frame in ('wide', 'tall') or (frame is None and r.random() < 0.5):
        # clearly non-square frame with the galaxy in the far part of the long axis (row / column mix-ups show there)
        short, long_ = r.randint(104, 112), r.randint(176, 195)      # the far coordinate always exceeds the short dimension
        far, mid = long_ - 56 + r.uniform(-4, 4), short / 2 + r.uniform(-3, 3)
        wide = (frame == 'wide') if frame in ('wide', 'tall') else (r.random() < 0.5)
        (ny, nx, x0, y0) = (short, long_, far, mid) if wide else (long_, short, mid, far)
    eps = r.uniform(0.05, 0.8) if r.random() < 0.8 else r.choice([0.05, 0.8, 0.5])
    pa = r.uniform(0, math.pi)
    law = r.choice(['exp', 'gauss', 'sersic2', 'sersic3.5', 'exp'])
    r0 = r.uniform(9, 16) if law != 'gauss' else r.uniform(14, 20)
    return dict(shape=(ny, nx), x0=x0, y0=y0, eps=eps, pa=pa, law=law, r0=r0)


def fit(gal, img, kw, init=None, geo_fix=None):
    from photutils.isophote import Ellipse, EllipseGeometry
    if init is None:
        de = 0.05 if gal['eps'] < 0.6 else -0.05
        init = dict(x0=gal['x0'] + 0.8, y0=gal['y0'] - 0.6, sma=12.0, eps=gal['eps'] + de, pa=gal['pa'] + 0.1)
    geo = EllipseGeometry(init['x0'], init['y0'], init['sma'], init['eps'], init['pa'], **(geo_fix or {}))
    with warnings.catch_warnings():
        warnings.simplefilter('ignore')
        return Ellipse(img, geo).fit_image(**kw), init


def recovery(rep, r, n):
    from photutils.isophote import build_ellipse_model
    fix_offset = r.randrange(6)
    for k in range(n):
        gal = gen_galaxy(r, frame=['square', 'wide', 'tall'][(k + fix_offset) % 3])       # every run sees all three frame kinds
        img, truth = galaxy(gal['shape'], gal['x0'], gal['y0'], gal['eps'], gal['pa'], gal['law'], gal['r0'])
        snap = img.copy()
        sma0 = r.choice([10.0, 12.0, 15.0])
        kw = dict(sma0=sma0, minsma=r.choice([0.0, 1.0, 3.0, sma0 * 0.97]), maxsma=r.choice([30.0, 40.0, 45.0]), step=r.choice([0.1, 0.15, 0.2]))
        if r.random() < 0.3:
            kw.update(linear=True, step=r.choice([2.0, 3.0]))
        if k % 3 == 1 and gal['eps'] < 0.6:                # area integration (used from sma ~ 30 outwards) needs a few pixels across the minor axis
            kw['integrmode'] = r.choice(['mean', 'median'])
            kw['maxsma'] = 52.0
        if k % 3 == 2 and gal['eps'] < 0.6:                 # (a minor axis of 2-3 pixels sampled pixel by pixel: the 0.8-pixel start offset is outside the basin)
            # nearest-neighbour sampling down to the centre (at small radii both gradient samples can hit the same pixels: F61)
            kw['integrmode'] = 'nearest_neighbor'
            kw['minsma'] = r.choice([0.0, 1.0])
        rp = {'galaxy': gal, 'kwargs': kw}
        try:
            iso, init = fit(gal, img, kw)
        except Exception as e:                              # noqa: BLE001
            rep.violation(f'fit_image-raises:{type(e).__name__}', f'fit_image raised {e!r}', rp)
            continue
        rep.case(('gal', tuple(sorted((kk, str(v)) for kk, v in gal.items())), tuple(sorted(kw.items()))), len(iso) > 5,
                 kind=f"recovery:{gal['law']}:{'linear' if kw.get('linear') else 'geometric'}")
        rep.probe_only += 1
        if not np.array_equal(img, snap):
            rep.violation('image-modified', 'fit_image modified the image', rp)
            continue
        if len(iso) == 0:
            rep.violation('no-isophotes', 'fit_image returned an empty list for a noise-free elliptical galaxy with a start inside the basin', rp)
            continue
        sma = np.asarray(iso.sma, float)
        if not np.all(np.diff(sma) > 0):
            rep.violation('sma-not-strictly-increasing', f'sma list {sma.tolist()} is not strictly increasing', rp)
            continue
        lo, hi = kw['minsma'], kw['maxsma']
        bad = [s for s in sma if not ((lo <= s <= hi) or s == sma0)]
        if bad:
            rep.violation('sma-outside-range', f'isophotes at sma {bad} lie outside [minsma, maxsma] = [{lo}, {hi}]', rp)
            continue
        # recovery on well-sampled isophotes
        worst = None
        for i in iso:
            if i.sma < 5 or i.sma * (1 - gal['eps']) < 4.0 or i.stop_code != 0 or i.sma > 0.8 * min(gal['shape']) / 2 or i.ndata < 20:
                continue
            tol_pos = max(3 * float(i.x0_err), 3 * float(i.y0_err), 0.1)
            tol_eps = max(5 * float(i.ellip_err), 0.025)
            tol_pa = max(5 * float(i.pa_err), 0.02 / max(gal['eps'], 0.05) * 0.1 + 0.01)
            checks = [('x0', abs(i.x0 - gal['x0']), tol_pos), ('y0', abs(i.y0 - gal['y0']), tol_pos), ('eps', abs(i.eps - gal['eps']), tol_eps),
                      ('pa', ang_diff(i.pa, gal['pa']), tol_pa),
                      ('intens', abs(i.intens - truth(i.sma)) / truth(i.sma), max(5 * float(i.int_err) / truth(i.sma), 0.05))]
            for nm, err, tol in checks:
                if gal['eps'] < 0.1 and nm == 'pa':
                    continue
                if err > tol and (worst is None or err / tol > worst[2] / worst[3]):
                    worst = (nm, float(i.sma), float(err), float(tol))
        if worst:
            rep.violation(f'recovery:{worst[0]}', f'isophote at sma {worst[1]:.2f}: {worst[0]} off by {worst[2]:.4g} (tolerance {worst[3]:.4g})', rp)
            continue
        # model image inside the fitted region
        try:
            with warnings.catch_warnings():
                warnings.simplefilter('ignore')
                model = build_ellipse_model(img.shape, iso)
        except Exception as e:                              # noqa: BLE001
            rep.violation(f'build_ellipse_model-raises:{type(e).__name__}', f'build_ellipse_model raised {e!r}', rp)
            continue
        yy, xx = np.mgrid[0:img.shape[0], 0:img.shape[1]].astype(float)
        c, s = math.cos(gal['pa']), math.sin(gal['pa'])
        xr = (xx - gal['x0']) * c + (yy - gal['y0']) * s
        yr = -(xx - gal['x0']) * s + (yy - gal['y0']) * c
        rr = np.sqrt(xr ** 2 + (yr / (1 - gal['eps'])) ** 2)
        good = [i.sma for i in iso if i.stop_code == 0]
        if len(good) > 4:
            region = (rr > max(4.0, 1.3 * min(good))) & (rr < 0.85 * max(good))
            if region.sum() > 50:
                rel = np.abs(model[region] - img[region]) / img[region]
                if np.median(rel) > 0.05 or np.percentile(rel, 95) > 0.20:
                    rep.violation('model-image', f'build_ellipse_model differs from the image inside the fitted region: median {np.median(rel):.3g}, '
                                  f'95th percentile {np.percentile(rel, 95):.3g}', rp)
                    continue
        # fixed parameters are honoured exactly
        # the request is made either through fit_image(fix_*=True) or through the EllipseGeometry constructor; the six combinations are
        # visited in turn so that every run of >= 6 galaxies sees them all
        which, route = [(w_, r_) for r_ in ('geometry', 'fit_image') for w_ in ('pa', 'eps', 'center')][(k + fix_offset) % 6]
        kw2 = dict(kw, **{f'fix_{which}': True}) if route == 'fit_image' else dict(kw)
        init2 = dict(x0=gal['x0'] + 0.4, y0=gal['y0'] - 0.3, sma=12.0, eps=min(0.85, max(0.05, gal['eps'] + 0.03)), pa=gal['pa'] + 0.05)
        if k % 2 == 0:
            kw2['maxsma'] = None                            # grow until the ellipses leave the frame (the outward sequence then ends with stop code 1)
        rep.count(f'fix-request:{which}:{route}:' + ('to-the-border' if kw2['maxsma'] is None else 'maxsma'))
        try:
            iso2, _ = fit(gal, img, kw2, init2, geo_fix={f'fix_{which}': True} if route == 'geometry' else None)
        except Exception as e:                              # noqa: BLE001
            rep.violation(f'fit_image-raises:{type(e).__name__}:fix_{which}', f'fit_image(fix_{which}=True) raised {e!r}', dict(rp, fix=which))
            continue
        for i in iso2:
            if i.sma < 4 or i.stop_code != 0:
                continue                                    # (an ellipticity driven through zero at tiny radii re-labels pa by a quarter turn: by design)
            bad = ((which == 'center' and (i.x0 != init2['x0'] or i.y0 != init2['y0'])) or (which == 'pa' and i.pa != init2['pa'])
                   or (which == 'eps' and i.eps != init2['eps']))
            if bad:
                rep.violation(f'fix-not-honoured:{which}', f'fix_{which}=True (given to {route}) but the isophote at sma {i.sma:.2f} has '
                              f'(x0, y0, eps, pa) = ({i.x0}, {i.y0}, {i.eps}, {i.pa}), start {init2}', dict(rp, fix=which, init=init2, route=route))
                break


def combined_fix_requests(rep, r, n):
    """(S) one parameter fixed through the EllipseGeometry constructor and another one through a fit_image keyword: both requests are
    honoured exactly on the well-sampled isophotes (defect F71: the keyword replaced the geometry's flags)"""
    combos = [('pa', 'center'), ('center', 'eps'), ('eps', 'pa'), ('center', 'pa'), ('pa', 'eps'), ('eps', 'center')]
    for k in range(n):
        gal = gen_galaxy(r, frame='square')
        img, _ = galaxy(gal['shape'], gal['x0'], gal['y0'], gal['eps'], gal['pa'], gal['law'], gal['r0'])
        via_geo, via_call = combos[(k + r.randrange(6)) % 6] if k else combos[0]
        init = dict(x0=gal['x0'] + 0.4, y0=gal['y0'] - 0.3, sma=12.0, eps=min(0.85, max(0.05, gal['eps'] + 0.03)), pa=gal['pa'] + 0.05)
        kw = dict(sma0=12.0, minsma=3.0, maxsma=35.0, step=0.15, **{f'fix_{via_call}': True})
        rp = {'galaxy': gal, 'kwargs': kw, 'init': init, 'geometry_fix': via_geo, 'fit_image_fix': via_call}
        try:
            iso, _ = fit(gal, img, kw, init, geo_fix={f'fix_{via_geo}': True})
        except Exception as e:                                  # noqa: BLE001
            rep.violation(f'fit_image-raises:{type(e).__name__}:combined-fix', f'fit_image raised {e!r}', rp)
            continue
        rep.case(('combined-fix', via_geo, via_call, tuple(sorted((kk, str(v)) for kk, v in gal.items()))), len(iso) > 3, kind=f'combined-fix:{via_geo}+{via_call}')
        rep.probe_only += 1
        for i in iso:
            if i.sma < 4 or i.stop_code != 0:
                continue
            held = {'center': i.x0 == init['x0'] and i.y0 == init['y0'], 'pa': i.pa == init['pa'], 'eps': i.eps == init['eps']}
            lost = [w_ for w_ in (via_geo, via_call) if not held[w_]]
            if lost:
                rep.violation(f'fix-not-honoured:combined:{lost[0]}', f'fix_{via_geo}=True in the EllipseGeometry and fix_{via_call}=True in fit_image: the isophote at sma '
                              f'{i.sma:.2f} has (x0, y0, eps, pa) = ({i.x0}, {i.y0}, {i.eps}, {i.pa}); start {init} - fix_{lost[0]} is not honoured', rp)
                break


def pa_wrap_probe(rep, r, n):
    """(S) the position angle is defined modulo pi: a galaxy whose major axis lies exactly along +x (or within rounding of it, where the
    fitted PA alternates between ~0 and ~pi) must be modelled as well as the same galaxy turned by 0.01 rad"""
    from photutils.isophote import Ellipse, EllipseGeometry, build_ellipse_model
    for _ in range(n):
        eps, r0 = r.uniform(0.25, 0.5), r.uniform(10, 14)
        x0, y0 = 70.0 + r.uniform(-0.5, 0.5), 70.0 + r.uniform(-0.5, 0.5)
        hh = r.random() < 0.5
        errs = {}
        for pa in (0.0, 0.01):
            img, _ = galaxy((141, 141), x0, y0, eps, pa, 'exp', r0)
            with warnings.catch_warnings():
                warnings.simplefilter('ignore')
                iso = Ellipse(img, EllipseGeometry(x0 + 0.5, y0 - 0.4, 12.0, eps - 0.05, pa + 0.1)).fit_image(maxsma=45)
                if len(iso) < 8:
                    errs = None
                    break
                model = build_ellipse_model(img.shape, iso, high_harmonics=hh)
            yy, xx = np.mgrid[0:141, 0:141].astype(float)
            c, s_ = math.cos(pa), math.sin(pa)
            rr = np.sqrt(((xx - x0) * c + (yy - y0) * s_) ** 2 + ((-(xx - x0) * s_ + (yy - y0) * c) / (1 - eps)) ** 2)
            region = (rr > 6) & (rr < 36)
            errs[pa] = float(np.percentile(np.abs(model[region] - img[region]) / img[region], 95))
        rep.case(('pawrap', eps, r0, x0, y0, hh), True, kind='model-image:pa-on-axis')
        rep.probe_only += 1
        if errs and errs[0.0] > 3 * errs[0.01] + 0.01:
            rep.violation('model-image:pa-wrap', f'build_ellipse_model(high_harmonics={hh}) of a galaxy with PA = 0: 95th-percentile error {errs[0.0]:.3g}; '
                          f'the same galaxy at PA = 0.01 rad: {errs[0.01]:.3g}', {'eps': eps, 'r0': r0, 'x0': x0, 'y0': y0, 'high_harmonics': hh})


def polar_correspondence(rep, r, n):
    from photutils.isophote import EllipseGeometry
    drv = Driver()
    lines, exp = [], []
    for k in range(n):
        x0, y0 = r.choice([10.0, 12.5, r.uniform(0, 30)]), r.choice([8.0, 7.25, r.uniform(0, 30)])
        pa = r.choice([0.0, r.uniform(-math.pi, math.pi), 0.5, -0.5, math.pi / 2])
        t = r.random()
        if t < 0.3:
            x, y = x0 + r.choice([-3.0, 0.0, 2.0]), y0 + r.choice([-2.0, 0.0, 4.0])       # on the axes / at the centre
        else:
            x, y = r.uniform(0, 30), r.uniform(0, 30)
        integer = k % 4 == 3
        if integer:
            # integer pixel coordinates (index arrays) and an integer centre: the array form works in float all the same (defect F68)
            x0, y0, x, y = int(round(x0)), int(round(y0)), int(round(x)), int(round(y))
        g = EllipseGeometry(x0, y0, 5.0, 0.3, pa)
        rs, as_ = g.to_polar(x if integer else float(x), y if integer else float(y))
        rv, av = g.to_polar(np.array([x]), np.array([y]))
        x0, y0, x, y = float(x0), float(y0), float(x), float(y)
        lines.append(f'topolar {fbits(x0)} {fbits(y0)} {fbits(pa)} {fbits(x)} {fbits(y)}')
        exp.append((float(rs), float(as_), float(np.ravel(rv)[0]), float(np.ravel(av)[0]), dict(x0=x0, y0=y0, pa=pa, x=x, y=y)))
    out = drv.run(lines)
    if out is None:
        rep.tie_broken('model driver failed', drv.error)
        return
    nb = 0
    for ln, o, (rs, as_, rv, av, rp) in zip(lines, out, exp):
        rep.traces += 1
        rep.case(('polar', ln), rp['x'] != rp['x0'], kind='to_polar')
        # (S) twins agree on the implementation
        if not (abs(rs - rv) <= 1e-12 * max(1, abs(rs)) and abs(as_ - av) <= 1e-12):
            rep.violation('to_polar-twins-differ', f'to_polar scalar ({rs}, {as_}) vs vectorised ({rv}, {av})', rp)
            continue
        if not (0 <= as_ <= 2 * math.pi + 1e-12):
            rep.violation('to_polar-angle-range', f'angle {as_} outside [0, 2pi]', rp)
            continue
        m = [bits_to_float(t) for t in o.split()[1:]] if o.startswith('ok') else None
        if m is None or not (abs(m[0] - rs) <= 1e-13 * max(1, abs(rs)) and abs(m[1] - as_) <= 1e-13 and m[0] == m[2] and m[1] == m[3]):
            nb += 1
            if nb <= 3:
                rep.tie_broken('to_polar model and implementation disagree', {'model': m, 'impl': [rs, as_, rv, av], 'case': rp})


def growth_correspondence(rep, r, n):
    """sma lists of real fits (all isophotes converged) vs the growth model; corrector choice vs the numpy expression in the source"""
    drv = Driver()
    lines, exp = [], []
    for k in range(n):
        gal = gen_galaxy(r)
        gal.update(eps=r.uniform(0.2, 0.5), law='exp')
        img, _ = galaxy(gal['shape'], gal['x0'], gal['y0'], gal['eps'], gal['pa'], gal['law'], gal['r0'])
        sma0 = r.choice([8.0, 10.0, 12.5])
        lin = r.random() < 0.4
        step = r.choice([1.5, 2.0, 2.5]) if lin else r.choice([0.1, 0.125, 0.25])
        # boundary values (next sma exactly equal to a limit) only where the float arithmetic of the growth is exact (dyadic step),
        # otherwise the comparison `sma >= maxsma` is decided by rounding
        exact = lin or step in (0.125, 0.25)
        minsma = r.choice([0.0, 1.0, 2.5, sma0 / (1 + step) + 0.01 if not lin else sma0 - step + 0.01, sma0])
        maxsma = r.choice([20.0, 25.0, (sma0 * (1 + step) if not lin else sma0 + step) if exact else 22.0])
        kw = dict(sma0=sma0, minsma=minsma, maxsma=maxsma, step=step, linear=lin)
        iso, _ = fit(gal, img, kw)
        if len(iso) == 0 or any(c not in (0, 2) for c in iso.stop_code):
            rep.count('growth:skipped-nonconverged')
            continue
        lines.append(f'smalist {q(sma0)} {q(step)} {1 if lin else 0} {q(minsma)} {q(maxsma)} 1 9999 9999 400')
        exp.append(('sma', np.asarray(iso.sma, float), {'galaxy': gal, 'kwargs': kw}))
    for k in range(4 * n):
        amps = [r.choice([0.0, 1.0, -1.0, 2.5, -2.5, r.uniform(-3, 3)]) for _ in range(4)]
        fc, fp, fe = r.random() < 0.3, r.random() < 0.3, r.random() < 0.3
        if fc and fp and fe:
            continue
        fixed = np.array([fc, fc, fp, fe])
        idx = int(np.argmax(np.abs(np.ma.masked_array(np.array(amps), mask=fixed))))
        lines.append('corrector ' + ' '.join(q(a) for a in amps) + ' ' + ' '.join('1' if f else '0' for f in fixed))
        exp.append(('corr', idx, {'amps': amps, 'fixed': fixed.tolist()}))
    out = drv.run(lines)
    if out is None:
        rep.tie_broken('model driver failed', drv.error)
        return
    nb = 0
    for ln, o, (kind, val, rp) in zip(lines, out, exp):
        rep.traces += 1
        rep.case((kind, ln), True, kind=f'growth:{kind}')
        if kind == 'sma':
            m = np.array([float(F(t)) for t in o.split()[1:]]) if o.startswith('ok') else None
            if m is None or m.shape != val.shape or not np.allclose(m, val, rtol=1e-9, atol=1e-12):
                nb += 1
                if nb <= 3:
                    rep.tie_broken('sma growth model and fit_image disagree', {'model': None if m is None else m.tolist(), 'impl': val.tolist(), 'case': rp})
        else:
            if o != f'ok {val}':
                nb += 1
                if nb <= 3:
                    rep.tie_broken('corrector choice model and numpy expression disagree', {'model': o, 'impl': val, 'case': rp})


def run(rep, tier):
    thorough = tier == 'thorough'
    scale = 4 if thorough else 1
    rep.rule = ('noise-free galaxies 110-140 px: exponential / Gaussian / Sersic n=2, 3.5 laws, eps 0.05-0.8, any PA, centre within +-8 px of the middle; '
                'starts offset by (0.8, -0.6) px, 0.07 in eps, 0.12 rad; geometric (0.1-0.2) and linear (2-3 px) growth, bilinear/mean/median integration, '
                'minsma 0..0.97 sma0, maxsma 30-45, one fix_* flag per galaxy. Well sampled = sma >= 5, semi-minor axis >= 3, stop code 0. '
                'to_polar on random and axis-aligned points; growth lists and corrector choice against the model.')
    rep.assumptions += ['the harmonic fit, the sampling and the size of the corrections are oracles of the model',
                        'recovery tolerances: centre max(3 x reported error, 0.1 px); others max(5 x reported error, 0.025 / ~0.02 rad / 5 %); model image: median 5 %, 95th percentile 20 % (pixel-sampled profiles, bilinear sampling bias)']
    rep.lean = prove(PROP_MODULES)
    r = rng('C20')
    polar_correspondence(rep, r, 300 * scale)
    growth_correspondence(rep, r, 6 * scale)
    pa_wrap_probe(rep, r, 2 * scale)
    combined_fix_requests(rep, r, 2 * scale)
    recovery(rep, r, 6 * scale * (2 if not rep.lean.ok else 1))      # a broken proof / extraction: search longer for a failing input


def replay(rep, data):
    run(rep, 'quick')
