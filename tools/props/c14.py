"""C14 — peak and star finders return exactly the sources their contract selects (DESIGN §5 C14)."""
import math
import warnings

import numpy as np

import gens
from common import Driver, prove, q, rng

PROP_MODULES = ['PhotVerif.Props.C14']


def gen_case(r, k):
    ny, nx = gens.size(r, 1, 10), gens.size(r, 1, 10)
    data = gens.image(r, ny, nx, special=0.3, palette=0.6)
    if k % 7 == 0:
        data = -np.abs(data) - 1.0                 # negative regions, maxima on the edge
    if k % 11 == 0:
        data[:] = data.flat[0]                     # constant image
    thr = r.choice([gens.dy(r, 2, 4), -100.0, float(np.nanmedian(data[np.isfinite(data)])) if np.isfinite(data).any() else 0.0])
    if r.random() < 0.25:
        thr = np.full((ny, nx), float(thr)) + np.array([[r.choice([0, 0.5, -0.5]) for _ in range(nx)] for _ in range(ny)])
    elif r.random() < 0.2:
        # strongly varying pixel-wise threshold: a neighbourhood's brightest pixel may fail its own threshold while a fainter
        # neighbour passes a lower one (the fainter pixel is still not a local maximum)
        fin = data[np.isfinite(data)]
        lo, hi = (float(fin.min()), float(fin.max())) if fin.size else (0.0, 1.0)
        thr = np.array([[r.choice([lo - 1.0, hi + 1.0, (lo + hi) / 2, gens.dy(r, 2, 4)]) for _ in range(nx)] for _ in range(ny)])
    mask = gens.mask(r, ny, nx)
    fp = None
    box = r.choice([3, 3, 2, 5, (3, 1), (1, 3), 1, 4])
    if r.random() < 0.3:
        h, w = r.choice([1, 2, 3]), r.choice([1, 2, 3])
        fp = np.array([[r.random() < 0.7 for _ in range(w)] for _ in range(h)])
        if not fp.any():
            fp[0, 0] = True
    bw = r.choice([None, None, 0, 1, (0, 1), (1, 0), 2, (2, 1)])
    if bw is not None:
        b = (bw, bw) if np.isscalar(bw) else bw
        if b[0] > ny or b[1] > nx:
            bw = None
    npeaks = r.choice([np.inf, np.inf, 1, 2, 3])
    return dict(data=data, thr=thr, mask=mask, footprint=fp, box=box, border=bw, npeaks=npeaks)


def offsets_of(c):
    """footprint offsets as scipy.ndimage.maximum_filter uses them (origin 0: centre at index size//2)"""
    if c['footprint'] is not None:
        fp = c['footprint']
    else:
        b = c['box']
        shape = (b, b) if np.isscalar(b) else b
        fp = np.ones(shape, bool)
    cy, cx = fp.shape[0] // 2, fp.shape[1] // 2
    return [(j - cy, i - cx) for j in range(fp.shape[0]) for i in range(fp.shape[1]) if fp[j, i]]


def replay_of(c):
    return {'data': c['data'].tolist(), 'threshold': np.asarray(c['thr']).tolist(),
            'mask': None if c['mask'] is None else c['mask'].astype(int).tolist(),
            'footprint': None if c['footprint'] is None else c['footprint'].astype(int).tolist(), 'box_size': c['box'],
            'border_width': c['border'], 'npeaks': None if c['npeaks'] == np.inf else c['npeaks']}


def brute_peaks(c):
    """(S) reference: the contract evaluated directly (neighbourhood = the part of the footprint inside the image)"""
    data = np.array(c['data'], float)
    if np.all(data == data.flat[0]):
        return None
    nanm = np.isnan(data)
    if nanm.all():
        return None
    if nanm.any():
        data = data.copy()
        data[nanm] = np.nanmin(data)
    ny, nx = data.shape
    offs = offsets_of(c)
    thr = np.broadcast_to(np.asarray(c['thr'], float), data.shape)
    b = c['border']
    by, bx = (0, 0) if b is None else ((b, b) if np.isscalar(b) else b)
    out = []
    for y in range(ny):
        for x in range(nx):
            vals = [data[y + dy, x + dx] for dy, dx in offs if 0 <= y + dy < ny and 0 <= x + dx < nx]
            outside = any(not (0 <= y + dy < ny and 0 <= x + dx < nx) for dy, dx in offs)
            if outside:
                vals.append(data.min())         # padding never exceeds a pixel value
            if not vals or data[y, x] != max(vals):
                continue
            if c['mask'] is not None and c['mask'][y, x]:
                continue
            if nanm[y, x]:
                continue                        # a NaN pixel exceeds no threshold: never a peak (defect F57)
            if (by > 0 and (y < by or y >= ny - by)) or (bx > 0 and (x < bx or x >= nx - bx)):
                continue
            if not data[y, x] > thr[y, x]:
                continue
            out.append((y, x, data[y, x]))
    if not out:
        return None
    return out


def run(rep, tier):
    from photutils.detection import find_peaks
    thorough = tier == 'thorough'
    scale = 20 if thorough else 1
    rep.rule = ('random dyadic images with ties, plateaus, NaN/inf, negative regions, constant images, sources on the border; scalar/2-D '
                'thresholds, box sizes (odd, even, rectangular), random footprints, border widths incl. 0 and asymmetric, masks, npeaks; '
                'find_peaks vs the Lean model and vs a brute-force reference; star finders: raw catalogue -> Lean selection model -> find_stars table, '
                'plus bounds / ids / brightest / xycoords oracles. Non-trivial = at least one candidate peak and one rejected local maximum or tie.')
    rep.assumptions += ['scipy.ndimage.maximum_filter footprint geometry (centre at size//2) is modelled and compared, not assumed',
                        'sharpness / roundness / marginal-fit numerics of the star finders are inputs of the selection model']
    rep.lean = prove(PROP_MODULES)
    if not rep.lean.ok:
        scale *= 3
    r = rng('C14')
    drv = Driver()
    lines, exps, metas = [], [], []
    for k in range(400 * scale):
        c = gen_case(r, k)
        kw = dict(mask=c['mask'], border_width=c['border'], npeaks=c['npeaks'])
        if c['mask'] is not None and k % 5 == 2:
            # the same mask as a 0/1 integer array or a nested list (F77: `~mask` of an integer array masks nothing)
            kw['mask'] = c['mask'].astype([np.uint8, np.int64][(k // 5) % 2]) if (k // 10) % 2 else c['mask'].tolist()
            rep.count('find_peaks: mask given as integers / list')
        if c['footprint'] is not None:
            kw['footprint'] = c['footprint']
        else:
            kw['box_size'] = c['box']
        try:
            with warnings.catch_warnings():
                warnings.simplefilter('ignore')
                tbl = find_peaks(c['data'], c['thr'], **kw)
        except Exception as e:
            rep.violation(f'find_peaks-raises:{type(e).__name__}', f'find_peaks raised {e!r}', replay_of(c))
            continue
        ref = brute_peaks(c)
        got = None if tbl is None else [(int(y), int(x), float(v)) for x, y, v in zip(tbl['x_peak'], tbl['y_peak'], tbl['peak_value'])]
        ncand = 0 if ref is None else len(ref)
        rep.case((c['data'].tobytes(), np.asarray(c['thr']).tobytes(), repr(kw.get('box_size')), repr(c['border'])),
                 ncand >= 1, kind='find_peaks:' + ('fp' if c['footprint'] is not None else 'box') + (':npeaks' if c['npeaks'] != np.inf else ''),
                 sample={'shape': list(c['data'].shape), 'box_size': c['box'], 'border_width': c['border'],
                         'npeaks': None if c['npeaks'] == np.inf else c['npeaks'], 'n_candidates': ncand})
        # (S) compare with the contract
        bad = None
        tie_cut = False
        if (ref is None) != (got is None):
            bad = f'None mismatch: expected {"None" if ref is None else len(ref)} peaks, got {got}'
        elif ref is not None:
            if c['npeaks'] != np.inf and len(ref) > c['npeaks']:
                n = int(c['npeaks'])
                vals = sorted((v for _, _, v in ref), reverse=True)
                tie_cut = len(vals) > n and vals[n - 1] == vals[n]
                if sorted((v for _, _, v in got), reverse=True) != vals[:n]:
                    bad = f'npeaks={n}: values {[v for _, _, v in got]} are not the {n} highest of {vals}'
                elif not set(got) <= set(ref):
                    bad = 'npeaks: a returned peak is not a candidate'
            elif got != ref:
                bad = f'peaks {got} != contract {ref}'
            if got and [i for i in tbl['id']] != list(range(1, len(got) + 1)):
                bad = 'ids are not 1..N'
        if bad:
            sig = 'find_peaks-contract'
            if ref is not None and got is not None and len(got) < len(ref) and c['npeaks'] == np.inf:
                missing = [p for p in ref if p not in got]
                ny, nx = c['data'].shape
                if all(v < 0 and (y in (0, ny - 1) or x in (0, nx - 1)) for y, x, v in missing):
                    sig += ':negative-edge-maximum'
            rep.violation(sig, 'find_peaks: ' + bad, replay_of(c))
            continue
        # (T) model
        if np.isnan(c['data']).all():
            continue
        offs = ' '.join(f'{a},{b}' for a, b in offsets_of(c))
        b = c['border']
        by, bx = (0, 0) if b is None else ((b, b) if np.isscalar(b) else b)
        npk = '-' if c['npeaks'] == np.inf else str(int(c['npeaks']))
        ny, nx = c['data'].shape
        thr = c['thr']
        ttok = gens.arr_tokens(thr) if np.ndim(thr) else gens.vtok(thr)
        lines.append(f'peaks {ny} {nx} {by} {bx} {npk} | {offs} | ' + gens.arr_tokens(c['data']) + ' | ' + ttok + ' | '
                     + gens.mask_tokens(c['mask']))
        exps.append('none' if got is None else 'ok ' + ' '.join(str(y * nx + x) for y, x, _ in got))
        metas.append((c, tie_cut))
    out = drv.run(lines)
    if out is None:
        rep.tie_broken('model driver failed', drv.error)
    else:
        nb = 0
        for ln, o, e, (c, tie_cut) in zip(lines, out, exps, metas):
            rep.traces += 1
            if o != e:
                if tie_cut and sorted(o.split()) != sorted(e.split()) and len(o.split()) == len(e.split()):
                    rep.count('tie-at-npeaks-cut (order unspecified)')
                    continue
                if c['npeaks'] != np.inf and sorted(o.split()) == sorted(e.split()):
                    rep.count('tie-order-differs')
                    continue
                nb += 1
                if nb <= 3:
                    rep.tie_broken('Lean find_peaks model and implementation disagree', {'op': ln[:300], 'model': o, 'impl': e})
    starfinders(rep, drv, r, 16 * scale)
    edge_padding_probe(rep, r, 6 * scale)
    weak_scalar_probe(rep, r, 12 * scale)
    centroid_refine(rep, r, 10 * scale)
    exclude_border_probe(rep, r, 8 * scale)
    separation_symmetry_probe(rep, r, 12 * scale)
    separation_footprint_correspondence(rep, drv, r)
    iraf_separation_correspondence(rep, drv, r)
    xycoords_pixel_correspondence(rep, drv, r)
    centroid_within_kernel_probe(rep, r, 60 * scale)
    kernel_orientation_probe(rep, r, 12 * scale)
    xycoords_jitter_probe(rep, r, 4 * scale)


def star_scene(r):
    yy, xx = np.mgrid[0:61, 0:61]
    img = np.zeros((61, 61))
    pos = []
    for _ in range(r.randint(4, 9)):
        x0, y0 = r.uniform(2, 58), r.uniform(2, 58)
        f = r.uniform(200, 2000)
        s = r.choice([1.2, 1.2, 2.5])
        img += f * np.exp(-((xx - x0) ** 2 + (yy - y0) ** 2) / (2 * s ** 2)) / (2 * math.pi * s ** 2)
        pos.append((x0, y0))
    rs = np.random.RandomState(r.randrange(2 ** 31))
    img += rs.normal(0, 0.3, img.shape)
    if r.random() < 0.3:
        img[r.randrange(61), r.randrange(61)] = 500.0      # hot pixel (sharp)
    return img, pos


def corpus_nonpositive_flux(rep):
    """corpus (runs first): the fixed reproduction of known finding F40 - a blank-sky position given through xycoords that passes the
    filters with a negative flux comes back with mag = NaN"""
    from photutils.detection import DAOStarFinder
    rs = np.random.RandomState(12345)
    img = rs.normal(0, 0.3, (41, 41))
    yy, xx = np.mgrid[0:41, 0:41]
    img += 50 * np.exp(-((xx - 12) ** 2 + (yy - 14) ** 2) / (2 * 1.2 ** 2))
    xyc = np.array([(12.0, 14.0), (21.0, 10.0)])
    with warnings.catch_warnings():
        warnings.simplefilter('ignore')
        tbl = DAOStarFinder(threshold=2.0, fwhm=2.8, xycoords=xyc, sharplo=0.2, sharphi=1.0, roundlo=-1.0, roundhi=1.0)(img)
    rep.case(('corpus-F40',), True, kind='corpus:xycoords-on-blank-sky')
    rep.probe_only += 1
    if tbl is not None:
        bad = ~np.isfinite(np.asarray(tbl['mag'], float))
        if bad.any() and bool(np.all(np.asarray(tbl['flux'], float)[bad] <= 0)):
            rep.violation('starfinder-nonfinite-mag:nonpositive-flux:DAOStarFinder', 'DAOStarFinder: the returned table has a non-finite `mag` for a source with '
                          f'flux <= 0 (fluxes {[float(v) for v in tbl["flux"]]})', {'finder': 'DAOStarFinder', 'corpus': 'F40', 'xycoords': xyc.tolist()})


def corpus_nonpositive_convolved_peak(rep):
    """corpus: the fixed reproduction of F76 (found by the thorough tier, seed 17) - a blank-sky position given through xycoords whose
    flux is positive and whose shape statistics pass the filters, but whose convolved peak is <= 0: daofind_mag = NaN came back"""
    from photutils.detection import DAOStarFinder
    rs = np.random.RandomState(26)
    yy, xx = np.mgrid[0:41, 0:41]
    img = rs.normal(0, 0.3, (41, 41)) + 50 * np.exp(-((xx - 12) ** 2 + (yy - 14) ** 2) / (2 * 1.2 ** 2))
    xyc = np.array([(12.0, 14.0), (29.0, 17.0)])
    with warnings.catch_warnings():
        warnings.simplefilter('ignore')
        tbl = DAOStarFinder(threshold=2.0, fwhm=2.8, xycoords=xyc, sharplo=0.2, sharphi=1.0, roundlo=-1.0, roundhi=1.0)(img)
    rep.case(('corpus-F76',), True, kind='corpus:xycoords-on-blank-sky')
    rep.probe_only += 1
    if tbl is None or len(tbl) < 1 or abs(float(tbl['xcentroid'][0]) - 12.0) > 0.5:
        rep.violation('starfinder-contract:DAOStarFinder', 'DAOStarFinder: the star at a supplied position is not returned', {'corpus': 'F76', 'xycoords': xyc.tolist()})
        return
    for col in tbl.colnames:
        if col != 'mag' and not np.isfinite(np.asarray(tbl[col], float)).all():
            rep.violation(f'starfinder-nonfinite:{col}:DAOStarFinder', f'DAOStarFinder: the returned table has a non-finite `{col}` '
                          f'({[float(v) for v in np.asarray(tbl[col], float)]}; fluxes {[float(v) for v in tbl["flux"]]})',
                          {'finder': 'DAOStarFinder', 'corpus': 'F76', 'seed': 26, 'xycoords': xyc.tolist()})


def weak_scalar_probe(rep, r, n):
    """find_peaks on float32 images with isolated pixels within one float32 rounding step of a Python-float threshold: the peaks are the
    pixels strictly above the threshold (real numbers), as for the same values held in float64 (F80)"""
    from photutils.detection import find_peaks
    for k in range(n):
        t = float(r.choice([0.1, 0.3, 0.7, 1.1, 2.3, 0.05]) * r.choice([1, 1, 10, 0.5]))
        t32 = np.float32(t)
        vals = [t32, np.nextafter(t32, np.float32(np.inf)), np.nextafter(t32, np.float32(-np.inf))]
        img = np.zeros((9, 11), np.float32)
        for (y, x) in [(1, 1), (1, 5), (1, 9), (4, 3), (4, 7), (7, 1), (7, 5), (7, 9)]:
            img[y, x] = r.choice(vals)
        want = sorted((int(y), int(x)) for y, x in np.argwhere(img.astype(np.float64) > t))
        for form in ('python-float', 'float64-data'):
            arr = img.astype(np.float64) if form == 'float64-data' else img
            with warnings.catch_warnings():
                warnings.simplefilter('ignore')
                tbl = find_peaks(arr, t, box_size=3)
            got = [] if tbl is None else sorted((int(y), int(x)) for x, y in zip(tbl['x_peak'], tbl['y_peak']))
            rep.case(('weak-scalar', img.tobytes(), t, form), bool(want), kind='find_peaks:float32-knife-edge:' + form)
            rep.probe_only += 1
            if got != want:
                rep.violation('find_peaks-float32-threshold-rounded', f'find_peaks (float32 image, threshold {t!r}, {form}): peaks {got} but the isolated pixels '
                              f'strictly above the threshold are {want}', {'data_float32': img.astype(float).tolist(), 'threshold': t, 'form': form, 'box_size': 3})
                break


def edge_padding_probe(rep, r, n):
    """stars whose centre is less than a kernel radius from the image edge (exclude_border=False, the default): the finders treat the
    outside of the image as zeros, so padding the image with zeros changes nothing but the coordinates (seed C14-r13 filled the
    cut-outs of IRAFStarFinder with NaN outside the image: sources near the edge silently disappeared)"""
    from photutils.detection import DAOStarFinder, IRAFStarFinder
    for k in range(n):
        ny, nx = r.randint(24, 32), r.randint(24, 32)
        yy, xx = np.mgrid[0:ny, 0:nx]
        img = np.zeros((ny, nx))
        cents = [(r.uniform(0.8, 2.2), r.uniform(6, ny - 7)), (r.uniform(6, nx - 7), ny - 1 - r.uniform(0.8, 2.2)), (nx / 2 + r.uniform(-2, 2), ny / 2 + r.uniform(-2, 2))]
        if abs(cents[0][1] - cents[2][1]) < 6 and abs(cents[0][0] - cents[2][0]) < 6:
            continue
        for (cx, cy) in cents:
            img += r.uniform(60, 120) * np.exp(-((xx - cx) ** 2 + (yy - cy) ** 2) / (2 * 1.1 ** 2))
        img = np.round(img * 64) / 64
        pad = 6
        big = np.pad(img, pad)
        for name, mk in (('IRAFStarFinder', lambda: IRAFStarFinder(threshold=3.0, fwhm=2.6, roundlo=-2.0, roundhi=2.0, sharplo=-5.0, sharphi=5.0)),
                         ('DAOStarFinder', lambda: DAOStarFinder(threshold=3.0, fwhm=2.6, roundlo=-5.0, roundhi=5.0, sharplo=-5.0, sharphi=5.0))):
            with warnings.catch_warnings():
                warnings.simplefilter('ignore')
                try:
                    t0, t1 = mk()(img), mk()(big)
                except Exception as e:                              # noqa: BLE001
                    rep.violation(f'starfinder-raises:{name}', f'{name} raised {e!r} on an image with a star near the edge', {'finder': name, 'data': img.tolist()})
                    continue
            rep.case(('edge-pad', name, img.tobytes()), True, kind=f'{name}:edge-padding')
            rep.probe_only += 1
            a = sorted((round(float(x), 6), round(float(y), 6), float(f)) for x, y, f in zip(t0['xcentroid'], t0['ycentroid'], t0['flux'])) if t0 is not None else []
            b = sorted((round(float(x) - pad, 6), round(float(y) - pad, 6), float(f)) for x, y, f in zip(t1['xcentroid'], t1['ycentroid'], t1['flux'])
                       if -0.5 <= x - pad <= nx - 0.5 and -0.5 <= y - pad <= ny - 0.5) if t1 is not None else []
            same = len(a) == len(b) and all(abs(p[0] - q_[0]) < 1e-5 and abs(p[1] - q_[1]) < 1e-5 and abs(p[2] - q_[2]) <= 1e-9 * max(1, abs(p[2])) for p, q_ in zip(a, b))
            if not same:
                rep.violation(f'starfinder-edge-padding:{name}', f'{name}: {len(a)} sources {a} on the image, but {len(b)} sources {b} (coordinates shifted back) inside the same frame '
                              'after padding the image with 6 zero pixels on every side', {'finder': name, 'threshold': 3.0, 'fwhm': 2.6, 'pad': pad, 'data': img.tolist()})


def starfinders(rep, drv, r, n):
    from photutils.detection import DAOStarFinder, IRAFStarFinder, StarFinder
    corpus_nonpositive_flux(rep)
    corpus_nonpositive_convolved_peak(rep)
    lines, exps = [], []
    for k in range(n):
        img, pos = star_scene(r)
        br = r.choice([None, 2, 3, 2])
        pk = r.choice([None, 60.0, 60.0, 25.0])          # brightest and peakmax together: the order of the two selections matters
        msep = r.choice([0.0, 0.0, 3.0])
        xyc = None
        if r.random() < 0.25:
            xyc = np.array([(p[0] + 0.3, p[1] - 0.2) for p in pos[:3]] + [(30.0, 30.0)])
        finders = [
            ('DAOStarFinder', DAOStarFinder(threshold=2.0, fwhm=2.8, brightest=br, peakmax=pk, min_separation=msep, xycoords=xyc,
                                            sharplo=0.2, sharphi=1.0, roundlo=-1.0, roundhi=1.0)),
            ('IRAFStarFinder', IRAFStarFinder(threshold=2.0, fwhm=2.8, brightest=br, peakmax=pk, xycoords=xyc,
                                              minsep_fwhm=1.5 if msep else 2.5)),
        ]
        if xyc is None:
            gy_, gx_ = np.mgrid[-3:4, -3:4]
            sk = np.exp(-(gx_ ** 2 + gy_ ** 2) / (2 * 1.2 ** 2))
            finders.append(('StarFinder', StarFinder(threshold=3.0, kernel=sk, brightest=br, peakmax=pk, min_separation=msep or 5.0)))
        for name, f in finders:
            with warnings.catch_warnings():
                warnings.simplefilter('ignore')
                try:
                    tbl = f(img)
                    raw = f._get_raw_catalog(img)
                except Exception as e:
                    rep.violation(f'starfinder-raises:{name}', f'{name} raised {e!r}', {'finder': name})
                    continue
            rep.case((name, img.tobytes(), br, pk, msep), tbl is not None, kind=f'{name}' + (':xycoords' if xyc is not None else ''))
            if raw is None:
                if tbl is not None:
                    rep.violation(f'starfinder-none:{name}', 'raw catalogue empty but a table was returned', {})
                continue
            with warnings.catch_warnings():
                warnings.simplefilter('ignore')
                if name == 'DAOStarFinder':
                    # daofind_mag = -2.5 log10(convolved peak / threshold): NaN for a supplied position whose convolved peak is <= 0 (F76)
                    attrs = ('xcentroid', 'ycentroid', 'hx', 'hy', 'sharpness', 'roundness1', 'roundness2', 'peak', 'flux', 'daofind_mag')
                    fin = np.ones(len(raw), bool)
                    for a in attrs:
                        fin &= np.isfinite(np.asarray(getattr(raw, a), float))
                    inb = ((raw.sharpness >= f.sharplo) & (raw.sharpness <= f.sharphi) & (raw.roundness1 >= f.roundlo)
                           & (raw.roundness1 <= f.roundhi) & (raw.roundness2 >= f.roundlo) & (raw.roundness2 <= f.roundhi))
                elif name == 'StarFinder':
                    attrs = ('xcentroid', 'ycentroid', 'fwhm', 'roundness', 'pa', 'max_value', 'flux')
                    fin = np.ones(len(raw), bool)
                    for a in attrs:
                        fin &= np.isfinite(np.asarray(getattr(raw, a), float))
                    inb = np.ones(len(raw), bool)
                else:
                    attrs = ('xcentroid', 'ycentroid', 'fwhm', 'sharpness', 'roundness', 'pa', 'peak', 'flux')
                    fin = np.ones(len(raw), bool)
                    for a in attrs:
                        fin &= np.isfinite(np.asarray(getattr(raw, a), float))
                    inb = ((raw.sharpness >= f.sharplo) & (raw.sharpness <= f.sharphi) & (raw.roundness >= f.roundlo)
                           & (raw.roundness <= f.roundhi))
                if pk is not None:
                    inb = inb & (np.asarray(raw.max_value if name == 'StarFinder' else raw.peak, float) <= pk)
                flux = np.asarray(raw.flux, float)
            inb = np.asarray(inb) & fin    # bounds on non-finite values are false anyway
            rows = ' '.join(f'{int(a)},{int(b)},{q(fl) if np.isfinite(fl) else 0}' for a, b, fl in zip(fin, inb, flux)) or '-'
            lines.append(f'stars | {rows} | ' + ('-' if br is None else str(br)))
            # identify output rows in the raw catalogue by centroid
            if tbl is None:
                exps.append(('none', name))
            else:
                rx, ry = np.asarray(raw.xcentroid, float), np.asarray(raw.ycentroid, float)
                idx = []
                for x, y in zip(tbl['xcentroid'], tbl['ycentroid']):
                    j = np.where((rx == x) & (ry == y))[0]
                    idx.append(int(j[0]) if len(j) else -1)
                exps.append(('ok ' + ' '.join(map(str, idx)), name))
                # (S) reported attributes within bounds, finite, ids 1..N, brightest = N largest fluxes
                ok = list(tbl['id']) == list(range(1, len(tbl) + 1))
                nanmag = False
                for col in tbl.colnames:
                    colfin = np.isfinite(np.asarray(tbl[col], float))
                    if col == 'mag' and not colfin.all() and bool(np.all(np.asarray(tbl['flux'], float)[~colfin] <= 0)):
                        nanmag = True           # known finding F40: mag = -2.5 log10(flux) of a source with non-positive flux
                        continue
                    if not colfin.all():
                        # "finite values": every column of every returned row (F76: daofind_mag of a blank-sky position given by xycoords)
                        rep.violation(f'starfinder-nonfinite:{col}:{name}', f'{name}: the returned table has a non-finite `{col}` '
                                      f'({[float(v) for v in np.asarray(tbl[col], float)]}; fluxes {[float(v) for v in tbl["flux"]]})',
                                      {'finder': name, 'brightest': br, 'peakmax': pk, 'min_separation': msep, 'xycoords': None if xyc is None else xyc.tolist(), 'data': img.tolist()})
                if name != 'StarFinder':
                    ok = ok and bool(np.all((tbl['sharpness'] >= f.sharplo) & (tbl['sharpness'] <= f.sharphi)))
                if pk is not None:
                    ok = ok and bool(np.all(tbl['max_value' if name == 'StarFinder' else 'peak'] <= pk))
                # exactly the sources that pass the filters, or the `brightest` of THEM
                n_pass = int(np.count_nonzero(inb))
                ok = ok and len(tbl) == (n_pass if br is None else min(br, n_pass))
                if br is not None:
                    ok = ok and len(tbl) <= br
                    allf = np.sort(flux[inb])[::-1]
                    ok = ok and np.allclose(np.sort(np.asarray(tbl['flux'], float))[::-1], allf[:len(tbl)])
                if xyc is not None:
                    ok = ok and len(tbl) <= len(xyc)
                if ok and nanmag:
                    rep.violation(f'starfinder-nonfinite-mag:nonpositive-flux:{name}', f'{name}: the returned table has a non-finite `mag` for a source with flux <= 0 '
                                  f'(fluxes {[float(v) for v in tbl["flux"]]})',
                                  {'finder': name, 'brightest': br, 'peakmax': pk, 'min_separation': msep, 'xycoords': None if xyc is None else xyc.tolist(), 'data': img.tolist()})
                if not ok:
                    rep.violation(f'starfinder-contract:{name}', f'{name}: returned table violates its selection contract '
                                  f'({len(tbl)} rows; {int(np.count_nonzero(inb))} raw detections pass the filters, brightest={br}, peakmax={pk})',
                                  {'finder': name, 'brightest': br, 'peakmax': pk, 'min_separation': msep, 'xycoords': None if xyc is None else xyc.tolist(), 'data': img.tolist()})
    out = drv.run(lines)
    if out is None:
        rep.tie_broken('model driver failed (stars)', drv.error)
        return
    nb = 0
    for ln, o, (e, name) in zip(lines, out, exps):
        rep.traces += 1
        if o != e and sorted(o.split()) != sorted(e.split()):
            nb += 1
            if nb <= 3:
                rep.tie_broken(f'star-finder selection model and {name} disagree', {'op': ln[:300], 'model': o, 'impl': e})
        elif o != e:
            rep.count('stars:tie-order-differs')


def separation_symmetry_probe(rep, r, n):
    """min_separation: the neighbourhood within which a detection must be the maximum is a disk, so the finders commute with mirroring
    and transposing the image (circular kernels); pairs of stars are placed exactly min_separation (and one pixel more / less) apart
    along an axis, the brighter one on either side"""
    from photutils.detection import DAOStarFinder, IRAFStarFinder, StarFinder
    gy_, gx_ = np.mgrid[-3:4, -3:4]
    sk = np.exp(-(gx_ ** 2 + gy_ ** 2) / (2 * 1.2 ** 2))
    for k in range(n):
        ny, nx = 41, 47
        yy, xx = np.mgrid[0:ny, 0:nx]
        msep = [3, 4.2, 4, 3.7, 5, 2.5][k % 6]                  # non-integer separations too (the neighbourhood stays a centred disk)
        img = np.zeros((ny, nx))
        pairs = []
        for (cx, cy) in [(11, 10), (34, 12), (12, 30), (35, 29)]:
            d = int(msep) + r.choice([0, 0, 0, 1, -1])
            ax = r.choice(['x', 'y'])
            a, b = r.choice([(100.0, 60.0), (60.0, 100.0)])
            p1, p2 = (cx, cy), ((cx + d, cy) if ax == 'x' else (cx, cy + d))
            for (px, py), amp in ((p1, a), (p2, b)):
                img += amp * np.exp(-((xx - px) ** 2 + (yy - py) ** 2) / (2 * 1.2 ** 2))
            pairs.append((p1, p2, a, b))
        finders = [('DAOStarFinder', lambda: DAOStarFinder(threshold=5.0, fwhm=2.8, min_separation=float(msep))),
                   ('StarFinder', lambda: StarFinder(threshold=5.0, kernel=sk, min_separation=float(msep))),
                   ('IRAFStarFinder', lambda: IRAFStarFinder(threshold=5.0, fwhm=2.8, minsep_fwhm=msep / 2.8))]
        for name, mk in finders:
            def pts(im, back):
                with warnings.catch_warnings():
                    warnings.simplefilter('ignore')
                    t = mk()(im)
                if t is None:
                    return []
                return sorted((round(float(back(x_, y_)[0]), 6), round(float(back(x_, y_)[1]), 6)) for x_, y_ in zip(t['xcentroid'], t['ycentroid']))
            try:
                base = pts(img, lambda x_, y_: (x_, y_))
                variants = {'mirror-x': pts(img[:, ::-1].copy(), lambda x_, y_: (nx - 1 - x_, y_)),
                            'mirror-y': pts(img[::-1, :].copy(), lambda x_, y_: (x_, ny - 1 - y_)),
                            'transpose': pts(img.T.copy(), lambda x_, y_: (y_, x_))}
            except Exception as e:                              # noqa: BLE001
                rep.violation(f'starfinder-raises:{name}', f'{name} raised {e!r}', {'finder': name, 'min_separation': msep})
                continue
            rep.case(('sepsym', name, img.tobytes(), msep), True, kind=f'separation-symmetry:{name}')
            rep.probe_only += 1
            for vn, got in variants.items():
                if len(got) != len(base) or any(abs(a_[0] - b_[0]) > 1e-4 or abs(a_[1] - b_[1]) > 1e-4 for a_, b_ in zip(base, got)):
                    rep.violation(f'separation-not-symmetric:{name}:{vn}', f'{name}(min_separation={msep}): {len(base)} sources on the image, {len(got)} on its '
                                  f'{vn} image (mapped back): {base} vs {got}', {'finder': name, 'min_separation': msep, 'pairs': pairs, 'variant': vn})
                    break


def xycoords_jitter_probe(rep, r, n):
    """(S) supplying xycoords replaces peak finding by those positions: giving each detected peak's position displaced by a fraction
    of a pixel (same pixel) must return the same measured centroids and fluxes as peak finding does"""
    from photutils.detection import DAOStarFinder, IRAFStarFinder
    for _ in range(n):
        yy, xx = np.mgrid[0:41, 0:45]
        img = np.zeros((41, 45))
        for (cx, cy) in [(11, 10), (31, 12), (13, 29), (33, 30)]:
            img += r.uniform(60, 150) * np.exp(-((xx - cx - r.uniform(-0.4, 0.4)) ** 2 + (yy - cy - r.uniform(-0.4, 0.4)) ** 2) / (2 * 1.3 ** 2))
        for name, cls in (('DAOStarFinder', DAOStarFinder), ('IRAFStarFinder', IRAFStarFinder)):
            with warnings.catch_warnings():
                warnings.simplefilter('ignore')
                ref = cls(threshold=5.0, fwhm=3.0)(img)
                if ref is None or len(ref) != 4:
                    continue
                # the pixel of each detected peak, displaced inside that pixel
                pix = np.array([[round(float(x_)), round(float(y_))] for x_, y_ in zip(ref['xcentroid'], ref['ycentroid'])], float)
                jit = pix + np.array([[r.uniform(-0.45, 0.45), r.uniform(-0.45, 0.45)] for _ in range(len(pix))])
                got = cls(threshold=5.0, fwhm=3.0, xycoords=jit)(img)
            rep.case(('xyjit', name, img.tobytes()), True, kind=f'xycoords-jitter:{name}')
            rep.probe_only += 1
            if got is None or len(got) != len(ref) or not np.allclose(got['xcentroid'], ref['xcentroid'], atol=1e-9) \
                    or not np.allclose(got['ycentroid'], ref['ycentroid'], atol=1e-9) or not np.allclose(got['flux'], ref['flux'], rtol=1e-9):
                rep.violation(f'xycoords-ne-peak-finding:{name}', f'{name}: with xycoords inside the pixels of the detected peaks the centroids are '
                              f'{None if got is None else [(round(float(a), 4), round(float(b), 4)) for a, b in zip(got["xcentroid"], got["ycentroid"])]}, '
                              f'peak finding gives {[(round(float(a), 4), round(float(b), 4)) for a, b in zip(ref["xcentroid"], ref["ycentroid"])]}',
                              {'finder': name, 'xycoords': jit.tolist(), 'data': img.tolist()})


def kernel_orientation_probe(rep, r, n):
    """(S) the DAOStarFinder kernel is the documented elliptical Gaussian: major axis `theta` degrees counter-clockwise from +x,
    minor-axis width ratio * fwhm - compared with an independently rotated Gaussian on the kernel's own grid"""
    from astropy.stats import gaussian_fwhm_to_sigma
    from photutils.detection import DAOStarFinder
    for _ in range(n):
        fw, ratio, th = r.uniform(2.5, 7.0), r.choice([1.0, 0.8, 0.5, 0.35]), r.choice([0.0, 90.0, 40.0, 120.0, r.uniform(0, 180)])
        k = DAOStarFinder(threshold=1.0, fwhm=fw, ratio=ratio, theta=th).kernel
        g = np.array(k.gaussian_kernel_unmasked, float)
        yy, xx = np.mgrid[0:k.ny, 0:k.nx]
        t = math.radians(th)
        sx = fw * gaussian_fwhm_to_sigma
        sy = sx * ratio
        xp = (xx - k.xc) * math.cos(t) + (yy - k.yc) * math.sin(t)
        yp = -(xx - k.xc) * math.sin(t) + (yy - k.yc) * math.cos(t)
        ref = np.exp(-(xp ** 2 / (2 * sx ** 2) + yp ** 2 / (2 * sy ** 2)))
        rep.case(('kernel', fw, ratio, th), ratio < 1 and th % 90 != 0, kind='starfinder-kernel')
        rep.probe_only += 1
        if g.shape != ref.shape or not np.allclose(g, ref, rtol=0, atol=1e-12):
            rep.violation('starfinder-kernel-ne-documented', f'DAOStarFinder(fwhm={fw:.3f}, ratio={ratio}, theta={th:.2f}): the kernel differs from the documented '
                          f'elliptical Gaussian by {float(np.abs(g - ref).max()) if g.shape == ref.shape else "shape"}',
                          {'fwhm': fw, 'ratio': ratio, 'theta': th})


def separation_footprint_correspondence(rep, drv, r):
    """(T) the neighbourhood the star finders hand to find_peaks for a given min_separation (captured by wrapping find_peaks in
    photutils.detection.core for the duration of the call) equals the Lean model `sepOffsets` (proved symmetric and exact)"""
    import photutils.detection.core as core
    from photutils.detection import DAOStarFinder, IRAFStarFinder
    rs = np.random.RandomState(7)
    yy, xx = np.mgrid[0:31, 0:31]
    img = 80 * np.exp(-((xx - 15) ** 2 + (yy - 14) ** 2) / (2 * 1.3 ** 2)) + rs.normal(0, 0.2, (31, 31))
    seps = [1.0, 2.0, 3.0, 2.5, 3.7, 4.2, 1.4, 5.0, 2.9999, r.randint(10, 60) / 10]
    lines, exps = [], []
    orig = core.find_peaks
    for sep in seps:
        got = {}

        def spy(data, threshold, **kw):
            got['fp'] = None if kw.get('footprint') is None else np.array(kw['footprint'])
            return orig(data, threshold, **kw)
        core.find_peaks = spy
        try:
            with warnings.catch_warnings():
                warnings.simplefilter('ignore')
                DAOStarFinder(threshold=5.0, fwhm=2.8, min_separation=sep)(img)
        finally:
            core.find_peaks = orig
        fp = got.get('fp')
        if fp is None:
            rep.tie_broken('min_separation footprint not observed', {'min_separation': sep})
            continue
        cy, cx = fp.shape[0] // 2, fp.shape[1] // 2        # scipy.ndimage footprint origin
        offs = sorted((j - cy, i - cx) for j in range(fp.shape[0]) for i in range(fp.shape[1]) if fp[j, i])
        lines.append(f'sepfoot {q(sep)}')
        exps.append((sep, offs))
    out = drv.run(lines)
    if out is None:
        rep.tie_broken('model driver failed (sepfoot)', drv.error)
        return
    for ln, o, (sep, offs) in zip(lines, out, exps):
        rep.traces += 1
        rep.case(('sepfoot', sep), True, kind='separation-footprint')
        mo = sorted(tuple(int(v) for v in t.split(',')) for t in o.split()[1:]) if o.startswith('ok') else None
        if mo != offs:
            sym = all((-a, -b) in offs for a, b in offs)
            if not sym:
                rep.violation('separation-footprint-not-centred', f'min_separation={sep}: the neighbourhood handed to find_peaks is not symmetric about the '
                              f'pixel (offsets {offs[:6]} ...)', {'min_separation': sep, 'offsets': offs})
            else:
                rep.tie_broken('separation footprint differs from the model', {'min_separation': sep, 'model': o[:200], 'impl': offs})


def iraf_separation_correspondence(rep, drv, r):
    """(T) the separation IRAFStarFinder works with (an explicit min_separation - zero included - or the minsep_fwhm default) and the
    neighbourhood it hands to find_peaks (captured as above) vs the Lean model `irafMinSep` / `neighbourhood`"""
    import photutils.detection.core as core
    from photutils.detection import IRAFStarFinder
    rs = np.random.RandomState(11)
    yy, xx = np.mgrid[0:31, 0:31]
    img = 80 * np.exp(-((xx - 15) ** 2 + (yy - 14) ** 2) / (2 * 1.3 ** 2)) + rs.normal(0, 0.2, (31, 31))
    cases = [(0, 2.0, 2.5), (0.0, 2.8, 2.5), (None, 2.0, 2.5), (None, 2.8, 1.5), (None, 1.0, 0.5), (3.0, 2.0, 2.5), (4.2, 2.8, 2.5), (-1.0, 2.0, 2.5),
             (None, r.randint(10, 40) / 10, r.randint(5, 30) / 10), (r.choice([0, 1.5, 2.5]), 2.4, 2.0)]
    orig = core.find_peaks
    lines, exps = [], []
    for given, fwhm, mf in cases:
        got = {}

        def spy(data, threshold, **kw):
            got['fp'] = None if kw.get('footprint') is None else np.array(kw['footprint'])
            return orig(data, threshold, **kw)
        try:
            with warnings.catch_warnings():
                warnings.simplefilter('ignore')
                f = IRAFStarFinder(threshold=5.0, fwhm=fwhm, minsep_fwhm=mf, min_separation=given)
                core.find_peaks = spy
                try:
                    f(img)
                finally:
                    core.find_peaks = orig
            fp = got.get('fp')
            if fp is None:
                rep.tie_broken('IRAFStarFinder neighbourhood not observed', {'min_separation': given, 'fwhm': fwhm, 'minsep_fwhm': mf})
                continue
            if fp.shape == f.kernel.mask.shape and np.array_equal(fp.astype(bool), f.kernel.mask.astype(bool)) and float(f.min_separation) == 0.0:
                res = f'ok {q(float(f.min_separation))} kernel'
            else:
                cy, cx = fp.shape[0] // 2, fp.shape[1] // 2
                res = f'ok {q(float(f.min_separation))} ' + ' '.join(f'{j - cy},{i - cx}' for j in range(fp.shape[0]) for i in range(fp.shape[1]) if fp[j, i])
        except ValueError:
            res = 'err ValueError'
        lines.append(f"irafsep {'none' if given is None else q(float(given))} {q(fwhm)} {q(mf)}")
        exps.append((res, given, fwhm, mf))
    out = drv.run(lines)
    if out is None:
        rep.tie_broken('model driver failed (irafsep)', drv.error)
        return
    for ln, o, (res, given, fwhm, mf) in zip(lines, out, exps):
        rep.traces += 1
        rep.case(('irafsep', given, fwhm, mf), True, kind='iraf-separation:' + ('default' if given is None else 'zero' if given == 0 else 'given'))
        if o != res:
            if given is not None and given >= 0 and res.startswith('ok') and res.split()[1] != q(float(given)):
                rep.violation('irafstarfinder-ignores-min_separation', f'IRAFStarFinder(fwhm={fwhm}, minsep_fwhm={mf}, min_separation={given!r}) works with a '
                              f'separation of {res.split()[1]}', {'min_separation': given, 'fwhm': fwhm, 'minsep_fwhm': mf})
            else:
                rep.tie_broken('IRAFStarFinder separation / neighbourhood differs from the model', {'op': ln, 'model': o[:200], 'impl': res[:200]})


def xycoords_pixel_correspondence(rep, drv, r):
    """(T) the pixel a supplied position belongs to: the expression found in the finders (Gen/XyRounding, `np.ceil(x - 0.5).astype(int)`)
    evaluated by numpy vs the Lean `xyPixel`, half-pixel and negative positions included; and (S) on the implementation: a source supplied
    at its pixel centre +- 0.5 is measured on the cut-out of the pixel the model names"""
    from photutils.detection import DAOStarFinder
    xs = [10.5, 11.5, 10.49, 10.51, 0.5, -0.5, -1.5, 3.0, 7.25, 12.75] + [r.randint(-40, 400) / 8 for _ in range(20)] + [r.randint(0, 60) + 0.5 for _ in range(10)]
    out = drv.run(['xypix ' + ' '.join(q(x) for x in xs)])
    if out is None:
        rep.tie_broken('model driver failed (xypix)', drv.error)
        return
    want = [int(v) for v in np.ceil(np.array(xs) - 0.5).astype(int)]
    got = [int(t) for t in out[0].split()[1:]] if out[0].startswith('ok') else None
    rep.traces += len(xs)
    rep.case(('xypix', tuple(xs)), True, kind='xycoords-pixel')
    if got != want:
        rep.tie_broken('xyPixel model differs from np.ceil(x - 0.5)', {'x': xs, 'model': got, 'numpy': want})
        return
    # implementation: a bright pixel-centred source at (20, 17); positions supplied on the half-pixel boundaries around it
    yy, xx = np.mgrid[0:35, 0:41]
    img = 100 * np.exp(-((xx - 20) ** 2 + (yy - 17) ** 2) / (2 * 1.3 ** 2))
    for (px, py) in [(20.5, 17.0), (19.5, 17.0), (20.0, 17.5), (20.0, 16.5), (20.5, 17.5)]:
        with warnings.catch_warnings():
            warnings.simplefilter('ignore')
            t = DAOStarFinder(threshold=1.0, fwhm=3.0, xycoords=np.array([(px, py)]), sharplo=-10, sharphi=10, roundlo=-10, roundhi=10)(img)
        mx, my = want[xs.index(px)] if px in xs else int(np.ceil(px - 0.5)), int(np.ceil(py - 0.5))
        # the centroid is an offset from the centre of the cut-out's pixel: the source is at (20, 17) whichever pixel was chosen, so the
        # result identifies the chosen pixel only through its peak value (the cut-out centre pixel value)
        peak = None if t is None else float(t['peak'][0])
        exp = float(img[my, mx])
        rep.case(('xypix-impl', px, py), True, kind='xycoords-pixel:implementation')
        if peak is None or abs(peak - exp) > 1e-9 * max(1.0, exp):
            rep.violation('xycoords-pixel', f'DAOStarFinder(xycoords=[({px}, {py})]): peak = {peak}, the value of the pixel ({mx}, {my}) that ceil(x - 0.5) names is {exp}',
                          {'xycoords': [px, py], 'pixel': [mx, my]})


def centroid_within_kernel_probe(rep, r, n):
    """(S) on background-subtracted noise (mixed-sign pixels, faint peaks) every source DAOStarFinder returns is measured ON a detected
    peak: its centroid lies within half a kernel size of the peak pixel its cut-out is centred on (the marginal fit falls back to the first
    moment, and to the peak pixel itself when that leaves the cut-out too - seed C14-r10 dropped the second test)"""
    from photutils.detection import DAOStarFinder
    for k in range(n):
        rs = np.random.RandomState(r.randrange(2 ** 31))
        ny, nx = r.choice([(25, 25), (21, 33), (11, 11)])
        img = np.round(rs.normal(0, 1.5, (ny, nx)) * 4) / 4
        f = DAOStarFinder(threshold=r.choice([1.0, 0.5, 2.0]), fwhm=r.choice([2.0, 2.5, 3.0]), sharplo=-100, sharphi=100, roundlo=-100, roundhi=100)
        with warnings.catch_warnings():
            warnings.simplefilter('ignore')
            try:
                raw = f._get_raw_catalog(img)
            except Exception as e:                              # noqa: BLE001
                rep.violation(f'starfinder-raises:DAOStarFinder:noise:{type(e).__name__}', f'DAOStarFinder raised {e!r}', {'data': img.tolist()})
                continue
        rep.case(('noise-centroid', img.tobytes()), raw is not None, kind='DAOStarFinder:noise-frame')
        rep.probe_only += 1
        if raw is None:
            continue
        xy = np.asarray(raw.xypos, float)
        cx, cy = np.asarray(raw.xcentroid, float), np.asarray(raw.ycentroid, float)
        hx, hy = f.kernel.xradius + 0.5, f.kernel.yradius + 0.5
        with np.errstate(invalid='ignore'):
            off = np.flatnonzero((np.abs(cx - xy[:, 0]) > hx) | (np.abs(cy - xy[:, 1]) > hy))
        if off.size:
            j = int(off[0])
            rep.violation('starfinder-centroid-outside-kernel:DAOStarFinder', f'DAOStarFinder on a noise frame: the source measured on the peak at {tuple(xy[j])} is reported at '
                          f'({cx[j]}, {cy[j]}), more than half a kernel ({hx}, {hy}) away', {'data': img.tolist(), 'threshold': float(f.threshold), 'fwhm': float(f.fwhm)})


def exclude_border_probe(rep, r, n):
    """exclude_border=True drops exactly the detections closer to an edge than the kernel half-size along THAT axis
    (non-square kernels: elongated DAO kernel, rectangular StarFinder kernel)"""
    from photutils.detection import DAOStarFinder, StarFinder
    for k in range(n):
        ny, nx = r.randint(40, 60), r.randint(40, 60)
        yy, xx = np.mgrid[0:ny, 0:nx]
        img = np.zeros((ny, nx))
        pos = []
        for _ in range(r.randint(5, 9)):
            t = r.random()
            x0 = r.choice([r.uniform(1, 7), r.uniform(nx - 8, nx - 2)]) if t < 0.4 else r.uniform(8, nx - 9)
            y0 = r.choice([r.uniform(1, 7), r.uniform(ny - 8, ny - 2)]) if 0.3 < t < 0.7 else r.uniform(8, ny - 9)
            img += r.uniform(300, 900) * np.exp(-((xx - x0) ** 2 + (yy - y0) ** 2) / (2 * 1.3 ** 2))
            pos.append((x0, y0))
        img += np.random.RandomState(r.randrange(2 ** 31)).normal(0, 0.2, img.shape)
        gy, gx = np.mgrid[-1:2, -4:5] if k % 2 == 0 else np.mgrid[-4:5, -1:2]
        kern = np.exp(-(gx ** 2 + gy ** 2) / (2 * 1.3 ** 2))
        makers = [('DAOStarFinder', lambda eb: DAOStarFinder(threshold=5.0, fwhm=r_fwhm, ratio=0.35, theta=th, exclude_border=eb)),
                  ('StarFinder', lambda eb: StarFinder(threshold=5.0, kernel=kern, exclude_border=eb))]
        r_fwhm, th = r.choice([6.0, 8.0]), r.choice([0.0, 90.0])
        for name, mk in makers:
            with warnings.catch_warnings():
                warnings.simplefilter('ignore')
                try:
                    f0, f1 = mk(False), mk(True)
                    c0, c1 = f0._get_raw_catalog(img), f1._get_raw_catalog(img)
                except Exception as e:                          # noqa: BLE001
                    rep.violation(f'exclude_border-raises:{name}', f'{name} raised {e!r}', {'finder': name})
                    continue
            kk = f1.kernel
            byr, bxr = ((kk.shape[0] - 1) // 2, (kk.shape[1] - 1) // 2) if isinstance(kk, np.ndarray) else (int(kk.yradius), int(kk.xradius))
            p0 = set() if c0 is None else {(int(x), int(y)) for x, y in np.asarray(c0.xypos)}
            p1 = set() if c1 is None else {(int(x), int(y)) for x, y in np.asarray(c1.xypos)}
            exp = {(x, y) for (x, y) in p0 if byr <= y < ny - byr and bxr <= x < nx - bxr}
            rep.case(('eb', name, img.tobytes()), byr != bxr and p0 != exp, kind=f'exclude_border:{name}')
            rep.probe_only += 1
            if p1 != exp:
                rep.violation(f'exclude_border:{name}', f'{name}(exclude_border=True), kernel half-sizes (y, x) = ({byr}, {bxr}): detections {sorted(p1 ^ exp)} '
                              f'are wrongly kept / dropped', {'finder': name, 'data': img.tolist(), 'kernel_half_sizes_yx': [byr, bxr]})


def centroid_refine(rep, r, n):
    """find_peaks(centroid_func=f) == f applied to each peak's cut-out (via centroid_sources)"""
    from photutils.detection import find_peaks
    from photutils.centroids import centroid_com, centroid_sources
    for _ in range(n):
        img, pos = star_scene(r)
        with warnings.catch_warnings():
            warnings.simplefilter('ignore')
            t = find_peaks(img, 5.0, box_size=5, centroid_func=centroid_com)
            if t is None:
                continue
            xs, ys = centroid_sources(img, t['x_peak'], t['y_peak'], box_size=5, centroid_func=centroid_com)
        rep.case(('refine', img.tobytes()), True, kind='centroid_func')
        rep.probe_only += 1
        if not (np.array_equal(np.asarray(t['x_centroid']), xs, equal_nan=True)
                and np.array_equal(np.asarray(t['y_centroid']), ys, equal_nan=True)):
            rep.violation('centroid-refinement', 'find_peaks centroid columns differ from centroid_sources on the peaks', {})
            continue
        # with a footprint (which overrides box_size, also for the centroids), an error map and a mask
        fy, fx = np.mgrid[-3:4, -3:4]
        fp = (fx ** 2 + fy ** 2) <= r.choice([9.5, 6.5, 12.5])
        fp[0, 3] = False                                           # not symmetric
        mask = np.zeros(img.shape, bool)
        mask[r.randrange(img.shape[0]), r.randrange(img.shape[1])] = True
        err = np.full(img.shape, 0.5) + 0.01 * np.arange(img.size).reshape(img.shape) % 1.0
        with warnings.catch_warnings():
            warnings.simplefilter('ignore')
            t2 = find_peaks(img, 5.0, box_size=3, footprint=fp, mask=mask, error=err, centroid_func=centroid_com)
            if t2 is None:
                continue
            xs2, ys2 = centroid_sources(img, t2['x_peak'], t2['y_peak'], footprint=fp, mask=mask, error=err, centroid_func=centroid_com)
        rep.case(('refine-fp', img.tobytes()), True, kind='centroid_func:footprint')
        rep.probe_only += 1
        if not (np.array_equal(np.asarray(t2['x_centroid']), xs2, equal_nan=True)
                and np.array_equal(np.asarray(t2['y_centroid']), ys2, equal_nan=True)):
            rep.violation('centroid-refinement:footprint', 'find_peaks(footprint=..., centroid_func=...) centroid columns differ from centroid_sources with that '
                          'footprint on the peaks', {'footprint': fp.astype(int).tolist()})


def replay(rep, data):
    run(rep, 'quick')
