"""C10 — no public call modifies the arrays, tables or models passed to it (DESIGN §5 C10)."""
import json
import os
import warnings

import numpy as np

import gens
from common import prove, rng

PROP_MODULES = ['PhotVerif.Props.C10', 'PhotVerif.Props.C10Table']


# ---------------------------------------------------------------- deep snapshots

def snap(o, depth=0):
    import astropy.units as u
    from astropy.modeling import Model
    from astropy.nddata import NDData
    from astropy.table import Table
    if depth > 4:
        return ('deep',)
    if o is None or isinstance(o, (bool, int, float, str, complex)):
        return ('s', repr(o))
    if isinstance(o, u.Quantity):
        return ('q', str(o.unit), snap(np.asarray(o.value), depth + 1))
    if isinstance(o, np.ma.MaskedArray):
        return ('ma', snap(np.asarray(o.data), depth + 1), snap(np.ma.getmaskarray(o), depth + 1), o.mask is np.ma.nomask)
    if isinstance(o, np.ndarray):
        return ('a', str(o.dtype), o.shape, o.tobytes() if o.dtype != object else repr(o.tolist()))
    if isinstance(o, NDData):
        unc = getattr(o, 'uncertainty', None)
        return ('nd', snap(o.data, depth + 1), snap(o.mask, depth + 1), snap(None if unc is None else unc.array, depth + 1), str(o.unit))
    if isinstance(o, Table):
        return ('t', tuple(o.colnames), tuple(snap(o[c], depth + 1) for c in o.colnames), repr(sorted(o.meta.items(), key=str)))
    if isinstance(o, Model):
        return ('m', type(o).__name__, tuple(o.param_names), tuple(snap(np.asarray(getattr(o, p).value), depth + 1) for p in o.param_names),
                repr(sorted(o.fixed.items())), repr(sorted(o.bounds.items())), repr(sorted((k, v is not None and v is not False) for k, v in o.tied.items())))
    if isinstance(o, (list, tuple)):
        return ('l', type(o).__name__, tuple(snap(x, depth + 1) for x in o))
    if isinstance(o, dict):
        return ('d', tuple((repr(k), snap(v, depth + 1)) for k, v in sorted(o.items(), key=lambda kv: repr(kv[0]))))
    if hasattr(o, 'array') and isinstance(getattr(o, 'array', None), np.ndarray):         # astropy kernels
        return ('k', type(o).__name__, snap(o.array, depth + 1))
    if hasattr(o, '__dict__'):
        # generic objects (apertures, segmentation images, estimators, sigma clips): public and private array / scalar state
        # generic objects: their public state (lazily filled caches and library-internal bookkeeping live in private attributes)
        items = []
        for k, v in sorted(vars(o).items()):
            if k.startswith('_') or (callable(v) and not hasattr(v, '__dict__')):
                continue
            if type(getattr(type(o), k, None)).__name__ in ('lazyproperty', 'cached_property'):
                continue
            items.append((k, snap(v, depth + 1)))
        return ('o', type(o).__name__, tuple(items))
    return ('r', repr(o))


def differs(a, b, path=''):
    """first path at which two snapshots differ"""
    if a == b:
        return None
    if type(a) is tuple and type(b) is tuple and len(a) == len(b) and a and a[0] == b[0]:
        for i, (x, y) in enumerate(zip(a, b)):
            d = differs(x, y, f'{path}/{a[0]}{i}')
            if d:
                return d
    return path or '/'


# ---------------------------------------------------------------- inputs

def scene(r, cond):
    ny, nx = r.randint(34, 44), r.randint(34, 44)
    img, pos = gens.gaussian_scene(r, ny, nx, nsrc=3, noise=0.0, pad=9)
    rs = np.random.RandomState(r.randrange(2 ** 31))
    img = img + rs.normal(0, 1.0, img.shape)                      # sky-subtracted: negative pixels everywhere, also inside the stars' cut-outs
    err = np.sqrt(np.abs(img)) * 0.3 + 0.5
    mask = np.zeros((ny, nx), bool)
    if 'mask' in cond:
        for _ in range(4):
            mask[r.randrange(ny), r.randrange(nx)] = True
        mask[int(pos[0][1]) + 1, int(pos[0][0])] = True
    if 'nonfinite' in cond:
        img[r.randrange(ny), r.randrange(nx)] = np.nan
        img[int(pos[1][1]), int(pos[1][0]) + 2] = np.inf
        img[int(pos[0][1]) - 1, int(pos[0][0]) - 1] = np.nan
        img[int(pos[0][1]) + 2, int(pos[0][0]) - 2] = -np.inf        # an infinity inside the first source's cut-out (a clean-up writes NaN there)
        err[r.randrange(ny), r.randrange(nx)] = np.nan
    return dict(data=img, error=err, mask=mask, pos=pos, ny=ny, nx=nx)


def wrap(kind, sc):
    """the caller's objects in one of the argument representations"""
    import astropy.units as u
    d, e, m = sc['data'].copy(), sc['error'].copy(), sc['mask'].copy()
    if kind == 'ndarray':
        return d, e, m, None
    if kind == 'masked':
        own = np.zeros_like(m)                                  # the MaskedArray's own mask differs from the mask argument
        own[0, 0] = True
        dm = np.ma.MaskedArray(d, mask=own)
        return dm, np.ma.MaskedArray(e, mask=np.zeros_like(m)), m, None
    if kind == 'quantity':
        return d * u.Jy, e * u.Jy, m, u.Jy
    if kind == 'view':
        big = np.zeros((d.shape[0] + 4, d.shape[1] + 6))
        big[2:-2, 3:-3] = d
        bige = np.ones_like(big)
        bige[2:-2, 3:-3] = e
        bigm = np.zeros(big.shape, bool)
        bigm[2:-2, 3:-3] = m
        return big[2:-2, 3:-3], bige[2:-2, 3:-3], bigm[2:-2, 3:-3], None
    raise ValueError(kind)


# ---------------------------------------------------------------- API table: name -> f(sc, D, E, M, U) returning the dict of caller-held objects
# each runner builds its own extra inputs (kernels, tables, models ...) and returns (inputs_dict, thunk); the thunk performs the calls

def touch_all(obj, skip=()):
    """read every public lazily evaluated property"""
    for n in dir(type(obj)):
        if n.startswith('_') or n in skip:
            continue
        a = getattr(type(obj), n, None)
        if isinstance(a, property) or type(a).__name__ in ('lazyproperty', 'cached_property'):
            try:
                getattr(obj, n)
            except Exception:                                   # noqa: BLE001
                pass


def api_list():
    import astropy.units as u
    from astropy.convolution import Gaussian2DKernel
    from astropy.nddata import NDData, StdDevUncertainty
    from astropy.stats import SigmaClip
    from astropy.table import Table
    import photutils.aperture as pa
    import photutils.background as pb
    import photutils.centroids as pc
    import photutils.detection as pd
    import photutils.profiles as pp
    import photutils.psf as ppsf
    import photutils.segmentation as ps
    from photutils.utils import calc_total_error

    def thr(U, v):
        return v if U is None else v * U

    def aperture(sc, D, E, M, U):
        aps = [pa.CircularAperture(sc['pos'], 3.5), pa.EllipticalAnnulus(sc['pos'], 2.0, 4.5, 3.0, theta=0.3), pa.RectangularAperture(sc['pos'][0], 5, 3, theta=1.0)]
        ins = dict(data=D, error=E, mask=M, apertures=aps[:2], rect=aps[2])

        def go():
            for m in ('exact', 'center', 'subpixel'):
                pa.aperture_photometry(D, aps[:2], error=E, mask=M, method=m)
            st = pa.ApertureStats(D, aps[0], error=E, mask=M, sigma_clip=SigmaClip(3.0), local_bkg=np.array([0.1, 0.2, 0.3]) * (1 if U is None else U))
            touch_all(st)
            am = aps[2].to_mask()
            raw = getattr(D, 'value', D)
            am.multiply(raw)
            am.cutout(raw)
            am.get_values(raw, mask=M)
            am.to_image(raw.shape)
            aps[0].area_overlap(raw, mask=M)
            aps[2].do_photometry(raw, error=getattr(E, 'value', E), mask=M)
        return ins, go

    def aperture_nddata(sc, D, E, M, U):
        nd = NDData(np.asarray(getattr(D, 'value', D)), uncertainty=StdDevUncertainty(np.asarray(getattr(E, 'value', E))), mask=M, unit=U)
        ap = pa.CircularAperture(sc['pos'], 3.5)
        ins = dict(nddata=nd, aperture=ap)

        def go():
            pa.aperture_photometry(nd, ap)
            touch_all(pa.ApertureStats(nd, ap))
        return ins, go

    def background(sc, D, E, M, U):
        cov = np.zeros(M.shape, bool)
        cov[:3, :] = True
        est, rms, sc_ = pb.MedianBackground(sigma_clip=SigmaClip(2.5)), pb.MADStdBackgroundRMS(sigma_clip=SigmaClip(2.5)), SigmaClip(3.0, maxiters=5)
        interp = pb.BkgZoomInterpolator()
        ins = dict(data=D, mask=M, coverage_mask=cov, bkg_estimator=est, bkgrms_estimator=rms, sigma_clip=sc_, interpolator=interp)

        def go():
            b = pb.Background2D(D, (9, 11), mask=M, coverage_mask=cov, filter_size=3, bkg_estimator=est, bkgrms_estimator=rms, sigma_clip=sc_, interpolator=interp,
                                filter_threshold=thr(None, 0.5), exclude_percentile=30)
            touch_all(b, skip=('background_mesh_masked', 'background_rms_mesh_masked', 'mesh_nmasked'))
            b2 = pb.Background2D(D, D.shape, mask=M, exclude_percentile=60)    # box == image: the "copy needed" path
            # box geometries for which the block reshape is a view of the data: full-width boxes, boxes of height / width 1
            for bs in ((D.shape[0] // 3, D.shape[1]), (D.shape[0], D.shape[1] // 2), (1, 7), (6, 1)):
                try:
                    touch_all(pb.Background2D(D, bs, mask=M, exclude_percentile=60, filter_size=1),
                              skip=('background_mesh_masked', 'background_rms_mesh_masked', 'mesh_nmasked'))
                except ValueError:
                    pass
            touch_all(b2, skip=('background_mesh_masked', 'background_rms_mesh_masked', 'mesh_nmasked'))
            for cls in (pb.MeanBackground, pb.MedianBackground, pb.ModeEstimatorBackground, pb.MMMBackground, pb.SExtractorBackground,
                        pb.BiweightLocationBackground, pb.StdBackgroundRMS, pb.MADStdBackgroundRMS, pb.BiweightScaleBackgroundRMS):
                cls(sigma_clip=SigmaClip(3.0))(D)
                cls(sigma_clip=None)(D, axis=0)
            lb = pb.LocalBackground(5, 9, bkg_estimator=pb.MedianBackground())
            lb(getattr(D, 'value', D), sc['pos'][0][0], sc['pos'][0][1], mask=M)
        return ins, go

    def segmentation(sc, D, E, M, U):
        kern = ps.make_2dgaussian_kernel(2.0, size=5)
        fp = np.ones((3, 3), bool)
        bkg = np.full(sc['data'].shape, 0.05) * (1 if U is None else U)
        ins = dict(data=D, error=E, mask=M, kernel=kern, footprint=fp, background=bkg)

        def go():
            t2d = ps.detect_threshold(D, 2.0, mask=M, error=E)
            ins['threshold'] = t2d
            s0 = snap(t2d)
            seg = ps.detect_sources(D, t2d, 5, mask=M)
            ins['segm'] = seg
            s1 = snap(seg)
            deb = ps.deblend_sources(D, seg, 5, nlevels=8, contrast=0.01, progress_bar=False, connectivity=4)
            ps.SourceFinder(5, progress_bar=False)(D, t2d, mask=M)
            from photutils.utils._convolution import _filter_data
            conv = _filter_data(D, kern)
            cat = ps.SourceCatalog(D, deb, convolved_data=conv, error=E, mask=M, background=bkg, localbkg_width=4)
            touch_all(cat, skip=('sky_centroid', 'sky_centroid_icrs', 'sky_centroid_win', 'sky_centroid_quad', 'sky_bbox_ll', 'sky_bbox_lr', 'sky_bbox_ul', 'sky_bbox_ur'))
            cat.to_table()
            cat.circular_photometry(3.0)
            cat.fluxfrac_radius(0.5)
            cat.make_kron_apertures()
            cat.make_cutouts((7, 7))
            cat[0].kron_photometry((2.5, 1.4))
            seg.make_source_mask(footprint=fp)
            seg.polygons if deb.nlabels < 20 else None
            # a SegmentationImage wraps the caller's label array without copying it: reading anything from it (the per-label Segment
            # objects, their cut-outs ...) must leave that array alone
            lab = np.array(deb.data, copy=True)
            ins['label_array'] = lab
            s2 = snap(lab)
            si = ps.SegmentationImage(lab)
            touch_all(si, skip=('polygons', 'patches') if deb.nlabels >= 20 else ())
            for sg in si.segments:
                _ = (sg.data, sg.data_ma, np.asarray(sg), sg.make_cutout(np.zeros(lab.shape)))
            si.make_source_mask(footprint=fp)
            if snap(lab) != s2:
                raise AssertionError('label-array-modified-by-reads')
            if snap(t2d) != s0:
                raise AssertionError('threshold-array-modified')
            if snap(seg) != s1:
                raise AssertionError('segm-modified')
        return ins, go

    def detection(sc, D, E, M, U):
        yy, xx = np.mgrid[-3:4, -3:4]
        kern = 2.5 * np.exp(-(xx ** 2 + yy ** 2) / 3.0)
        fp = np.ones((3, 3), bool)
        t2 = np.full(sc['data'].shape, 4.0) * (1 if U is None else U)
        ins = dict(data=D, mask=M, kernel=kern, footprint=fp, threshold=t2, error=E)

        def go():
            pd.find_peaks(D, t2, box_size=5, mask=M, error=E, centroid_func=pc.centroid_com)
            pd.find_peaks(D, t2, footprint=fp, mask=M, npeaks=2)
            pd.DAOStarFinder(threshold=thr(U, 5.0), fwhm=3.0)(D, mask=M)
            pd.IRAFStarFinder(threshold=thr(U, 5.0), fwhm=3.0)(D, mask=M)
            pd.StarFinder(threshold=thr(U, 5.0), kernel=kern)(D, mask=M)
        return ins, go

    def centroids(sc, D, E, M, U):
        x0, y0 = sc['pos'][0]
        sl = (slice(int(y0) - 6, int(y0) + 7), slice(int(x0) - 6, int(x0) + 7))
        Dc, Ec, Mc = D[sl], E[sl], M[sl]
        fp = np.ones((5, 5), bool)
        fp[0, 0] = fp[0, -1] = fp[-1, 0] = fp[-1, -1] = False      # excluded footprint elements are OR-ed into the mask cut-outs
        xs, ys = np.array([x0]), np.array([y0])
        ins = dict(data=D, cut=Dc, error=E, mask=M, cutmask=Mc, footprint=fp, xpos=xs, ypos=ys)

        def go():
            for f in (pc.centroid_com, pc.centroid_quadratic):
                f(Dc, mask=Mc)
            pc.centroid_quadratic(Dc, mask=Mc, fit_boxsize=3, xpeak=6, ypeak=6)
            pc.centroid_quadratic(Dc)                               # without a mask: the non-finite clean-up alone
            pc.centroid_com(Dc)
            for f in (pc.centroid_1dg, pc.centroid_2dg):
                f(Dc, mask=Mc)
                f(Dc, error=Ec, mask=Mc)
                f(Dc)
            pc.centroid_sources(D, xs, ys, box_size=7, mask=M, error=E, centroid_func=pc.centroid_2dg)
            pc.centroid_sources(D, np.array([xs[0], xs[0] + 2.0]), np.array([ys[0], ys[0] + 1.0]), footprint=fp, mask=M)
        return ins, go

    def profiles(sc, D, E, M, U):
        xy = (sc['pos'][0][0], sc['pos'][0][1])
        radii = np.arange(0, 9.0)
        ins = dict(data=D, error=E, mask=M, xycen=xy, radii=radii)

        def go():
            for cls, rr in ((pp.RadialProfile, radii), (pp.CurveOfGrowth, radii[1:])):
                p = cls(D, xy, rr, error=E, mask=M)
                touch_all(p)
                p = cls(D, xy, rr)
                touch_all(p)
        return ins, go

    def total_error(sc, D, E, M, U):
        g = np.full(sc['data'].shape, 2.0)
        g[2:5, 3:6] = 0.0                     # an exposure map with zero-exposure pixels (no source variance there)
        gbig = np.full((sc['data'].shape[0] + 2, sc['data'].shape[1] + 3), 1.5)
        gbig[1:-1, 2:-1] = g
        gview = gbig[1:-1, 2:-1]              # the gain as a view of a larger caller array
        gain = g if U is None else g * (u.electron / U)
        gain2 = gview if U is None else gview * (u.electron / U)
        ins = dict(data=D, bkg_error=E, gain=gain, gain_parent=gbig, gain_view=gain2)

        def go():
            calc_total_error(D, E, gain)
            calc_total_error(D, E, gain2)
            calc_total_error(D, E, 2.0 if U is None else 2.0 * (u.electron / U))
        return ins, go

    def psf(sc, D, E, M, U):
        model = ppsf.CircularGaussianPRF(fwhm=3.0)
        model.fwhm.fixed = False
        from astropy.table import QTable
        init = (Table if U is None else QTable)({'x': [p[0] for p in sc['pos']], 'y': [p[1] for p in sc['pos']], 'flux': np.array([100.0, 200.0, 150.0]) * (1 if U is None else U)})
        init.meta['note'] = 'mine'
        finder = pd.DAOStarFinder(threshold=thr(U, 5.0), fwhm=3.0)
        grouper = ppsf.SourceGrouper(6.0)
        lbk = pb.LocalBackground(5, 9)
        # a table that already uses the canonical column names (nothing to rename: no copy is forced by the renaming)
        init2 = (Table if U is None else QTable)({'x_init': [p[0] for p in sc['pos']], 'y_init': [p[1] for p in sc['pos']]})
        ins = dict(data=D, error=E, mask=M, model=model, init_params=init, init_params_canonical=init2, finder=finder, grouper=grouper, localbkg=lbk)

        def go():
            ph = ppsf.PSFPhotometry(model, (5, 5), aperture_radius=4, grouper=grouper, localbkg_estimator=lbk, progress_bar=False)
            try:
                ph(D, error=E, mask=M, init_params=init)
            except Exception:                                   # noqa: BLE001  (non-finite errors are rejected by the fitter)
                ph(D, mask=M, init_params=init)
            ph.make_model_image(sc['data'].shape)
            ph.make_residual_image(D)
            try:
                ph(D, mask=M, init_params=init2)
            except Exception:                                   # noqa: BLE001
                pass
            it = ppsf.IterativePSFPhotometry(model, (5, 5), finder=finder, aperture_radius=4, maxiters=2, progress_bar=False)
            try:
                it(D, error=E, mask=M, init_params=init)
            except Exception:                                   # noqa: BLE001
                it(D, mask=M, init_params=init)
            it.make_model_image(sc['data'].shape)
            it.make_residual_image(D)
        return ins, go

    def psf_models(sc, D, E, M, U):
        # evaluating a PSF model on the caller's float64 coordinate arrays (seed C13-r7 worked in place on them)
        yy0, xx0 = np.mgrid[0:sc['data'].shape[0], 0:sc['data'].shape[1]]
        xx, yy = np.ascontiguousarray(xx0, dtype=np.float64), np.ascontiguousarray(yy0, dtype=np.float64)
        stamp = np.asarray(np.ma.getdata(getattr(D, 'value', D)), float)[:9, :9].copy()
        stamp = np.where(np.isfinite(stamp), stamp, 0.0)
        x0, y0 = sc['pos'][0]
        models = [ppsf.GaussianPSF(x_0=x0, y_0=y0, x_fwhm=3.0, y_fwhm=2.0, theta=20.0), ppsf.CircularGaussianPSF(x_0=x0, y_0=y0, fwhm=3.0),
                  ppsf.GaussianPRF(x_0=x0, y_0=y0, x_fwhm=3.0, y_fwhm=2.0), ppsf.CircularGaussianPRF(x_0=x0, y_0=y0, fwhm=3.0),
                  ppsf.CircularGaussianSigmaPRF(x_0=x0, y_0=y0, sigma=1.3), ppsf.MoffatPSF(x_0=x0, y_0=y0), ppsf.AiryDiskPSF(x_0=x0, y_0=y0, radius=3.0),
                  ppsf.ImagePSF(stamp, x_0=x0, y_0=y0, oversampling=2)]
        ins = dict(x=xx, y=yy, stamp=stamp, models=models)

        def go():
            for m_ in models:
                m_(xx, yy)
                m_.evaluate(xx, yy, *m_.parameters)
        return ins, go

    def render(sc, D, E, M, U):
        from photutils.datasets import make_model_image
        model = ppsf.CircularGaussianPRF(fwhm=2.5)
        tbl = Table({'x_0': [p[0] for p in sc['pos']], 'y_0': [p[1] for p in sc['pos']], 'flux': [10.0, 20.0, 30.0], 'local_bkg': [0.1, 0.0, 0.2]})
        ins = dict(model=model, table=tbl)
        return ins, lambda: make_model_image(sc['data'].shape, model, tbl, model_shape=(7, 7))

    def morphology(sc, D, E, M, U):
        from photutils.morphology import data_properties, gini
        x0, y0 = sc['pos'][0]
        sl = (slice(int(y0) - 6, int(y0) + 7), slice(int(x0) - 6, int(x0) + 7))
        Dc, Mc = D[sl], M[sl]
        ins = dict(cut=Dc, mask=Mc, data=D)

        def go():
            touch_all(data_properties(Dc, mask=Mc))
            gini(getattr(Dc, 'value', Dc), mask=Mc)
        return ins, go

    def image_depth(sc, D, E, M, U):
        # ImageDepth is excluded from the static analysis (path-correlated guards): covered here with every mask kind the guards
        # distinguish - no True pixel at all, some True pixels - and None
        from photutils.utils import ImageDepth
        raw = getattr(D, 'value', D)
        raw = np.asarray(np.ma.getdata(raw))
        none_true = np.zeros(raw.shape, bool)
        some_true = np.zeros(raw.shape, bool)
        some_true[3:6, 4:8] = True
        ins = dict(data=raw, mask_none_true=none_true, mask_some_true=some_true)

        def go():
            for m_ in (none_true, some_true):
                ImageDepth(3.0, nsigma=5.0, mask_pad=2, napers=15, niters=2, seed=3, progress_bar=False)(np.nan_to_num(raw, nan=0.0, posinf=0.0, neginf=0.0), m_)
        return ins, go

    def isophote(sc, D, E, M, U):
        from photutils.isophote import Ellipse, EllipseGeometry
        x0, y0 = sc['pos'][0]
        raw = getattr(D, 'value', D)
        img = np.ma.MaskedArray(np.asarray(np.ma.getdata(raw)), mask=M.copy()) if isinstance(raw, np.ma.MaskedArray) else raw
        geo = EllipseGeometry(x0, y0, 3.0, 0.2, 0.5)
        ins = dict(image=img, geometry_start=(geo.x0, geo.y0, geo.sma, geo.eps, geo.pa), data=D)
        return ins, lambda: Ellipse(img, geo).fit_image(maxsma=8.0, maxit=10)

    def epsf(sc, D, E, M, U):
        from astropy.nddata import NDUncertainty

        class Weights(NDUncertainty):
            @property
            def uncertainty_type(self):
                return 'weights'

            def _data_unit_to_uncertainty_unit(self, value):
                return None

            def _propagate_add(self, *a):
                pass
            _propagate_subtract = _propagate_multiply = _propagate_divide = _propagate_add
        raw = np.asarray(np.ma.getdata(getattr(D, 'value', D)), float)
        raw = np.where(np.isfinite(raw), raw, 0.0)
        w = np.ones(raw.shape)
        nd_w = NDData(raw, uncertainty=Weights(w), mask=M)
        nd_s = NDData(raw, uncertainty=StdDevUncertainty(np.abs(np.asarray(np.ma.getdata(getattr(E, 'value', E)), float)) + 0.1), mask=M)
        tbl = Table({'x': [p[0] for p in sc['pos']], 'y': [p[1] for p in sc['pos']]})
        meta = {'telescope': 'mine'}
        ins = dict(nddata_weights=nd_w, nddata_stddev=nd_s, catalog=tbl, meta=meta)

        def go():
            st = ppsf.extract_stars(nd_w, tbl, size=9)
            ppsf.extract_stars(nd_s, tbl, size=9)
            models = []
            for i, (x, y) in enumerate([(0, 0), (20, 0), (0, 20), (20, 20)]):
                m_ = ppsf.ImagePSF(np.asarray(st[0].data) if len(st) else np.ones((9, 9)))
                m_.x_0, m_.y_0 = x, y
                models.append(m_)
            ins['epsfs'] = models
            ppsf.grid_from_epsfs(models, meta=meta)
        return ins, go

    return [('epsf', epsf), ('aperture', aperture), ('aperture-nddata', aperture_nddata), ('background', background), ('segmentation', segmentation),
            ('detection', detection), ('centroids', centroids), ('profiles', profiles), ('calc_total_error', total_error), ('psf', psf),
            ('make_model_image', render), ('psf-models', psf_models), ('morphology', morphology), ('isophote', isophote), ('ImageDepth', image_depth)]


def sweep(rep, r, nscenes):
    for k in range(nscenes):
        cond = [[], ['mask'], ['nonfinite'], ['mask', 'nonfinite']][k % 4]
        sc = scene(r, cond)
        for kind in ('ndarray', 'masked', 'quantity', 'view'):
            for name, build in api_list():
                D, E, M, U = wrap(kind, sc)
                try:
                    ins, go = build(sc, D, E, M, U)
                except Exception as e:                          # noqa: BLE001
                    rep.count(f'build-failed:{name}:{kind}:{type(e).__name__}')
                    continue
                before = {kk: snap(v) for kk, v in ins.items()}
                rep.case((name, kind, tuple(cond), k), True, kind=f'{name}:{kind}:{"+".join(cond) or "clean"}')
                rep.probe_only += 1
                raised = None
                with warnings.catch_warnings():
                    warnings.simplefilter('ignore')
                    try:
                        go()
                    except AssertionError as e:
                        raised = e
                        rep.violation(f'input-modified:{name}:{e}', f'{name}: {e} ({kind}, {cond})', {'api': name, 'representation': kind, 'conditions': cond,
                                                                                                       'seed_scene': k})
                    except Exception as e:                      # noqa: BLE001
                        raised = e
                        rep.count(f'raised:{name}:{kind}:{type(e).__name__}')
                for kk, v in ins.items():
                    if kk not in before:
                        continue
                    d = differs(before[kk], snap(v))
                    if d:
                        rep.violation(f'input-modified:{name}:{kk}', f'{name}: the caller\'s `{kk}` ({kind} representation, data with {cond or "no special pixels"}) '
                                      f'was modified by the call' + (f' (which raised {type(raised).__name__})' if raised else '') + f' at {d}',
                                      {'api': name, 'argument': kk, 'representation': kind, 'conditions': cond, 'data': sc['data'].tolist(),
                                       'mask': sc['mask'].astype(int).tolist(), 'positions': [list(p) for p in sc['pos']]})


def effects_tie(rep):
    """(T) the effect programs regenerated from the source: which units the analysis accepts; rejected units are proof obligations that
    no longer check (the dynamic sweep is the failing-input search)"""
    import effects_scan
    try:
        ents, _ = effects_scan.scan()
    except Exception as e:                                      # noqa: BLE001
        rep.tie_broken('effect translation failed', repr(e))
        return
    rep.count('effects:units', len(ents))
    rep.count('effects:accepted', sum(1 for e in ents if e['safe']))
    for e in ents:
        rep.traces += 1
        if not e['safe']:
            rep.tie_broken(f'effect analysis rejects {e["name"]}: may write the caller\'s {e.get("written")} (source lines {sorted(e.get("lines", []))})',
                           {'unit': e['name'], 'written': e.get('written'), 'lines': sorted(e.get('lines', []))})


def translator_selftest(rep, thorough):
    """(T) differential soundness test of the effects translator + analysis (tools/effects_selftest.py): units generated from a template
    grammar are EXECUTED on numpy arrays; whenever running a unit modifies its argument, the analysis must reject it"""
    import effects_selftest
    try:
        res = effects_selftest.run(stride=1 if thorough else 5)
    except Exception as e:                                      # noqa: BLE001
        rep.tie_broken('effects translator self-test failed to run', repr(e))
        return
    rep.count('translator-selftest:units-executed', res['executed'])
    rep.count('translator-selftest:agree', res['agree'])
    rep.count('translator-selftest:rejected-although-harmless', res['imprecise'])
    for form, d in res['per_form'].items():
        rep.count(f'translator-selftest:{form}:modifying-units', d['modifies'])
    rep.traces += res['executed']
    for u in res['unsound'][:3]:
        rep.tie_broken(f'effects translator unsound: a {u["form"]} unit that modifies its argument when executed is accepted '
                       f'(alias `{u["alias"]}`, then `{u["second"]}`, statement `{u["statement"]}`)', {'source': u['source']})
    if res['unsound']:
        rep.count('translator-selftest:unsound', len(res['unsound']))


def run(rep, tier):
    thorough = tier == 'thorough'
    rep.rule = ('effects: every public function / class of 37 modules translated to an effect program and analysed; dynamic: 12 API groups '
                '(aperture, NDData, background, segmentation+catalog, detection, centroids, profiles, total error, PSF, rendering, morphology, isophote) x '
                '{ndarray, MaskedArray with a mask, Quantity, view of a larger array} x data with negatives / masked pixels / NaN+inf; every public '
                'lazily evaluated property read; deep snapshots of every caller-held object (arrays, masks, tables, models, kernels, footprints, '
                'apertures, estimators, NDData) compared after return or raise.')
    rep.assumptions += ['calls into numpy / scipy / astropy are assumed not to modify their arguments except the in-place functions listed in tools/effects.py',
                        'attribute access and subscripts are treated as aliases; try bodies run entirely or not at all; summaries are used for calls between photutils functions',
                        'methods documented as in-place mutators of their own object (SegmentationImage.relabel*, ProfileBase.normalize, ...) are exempt',
                        'the translator itself is validated by a differential self-test (executed template units vs verdicts), not proved']
    rep.lean = prove(PROP_MODULES)
    r = rng('C10')
    effects_tie(rep)
    translator_selftest(rep, thorough)
    sweep(rep, r, 8 if thorough else 4)


def replay(rep, data):
    run(rep, 'quick')
