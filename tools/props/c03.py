"""C03 — results are covariant under integer translation and axis transposition (DESIGN §5 C03)."""
import math
import warnings
from fractions import Fraction as F

import numpy as np

import gens
from common import Driver, prove, q, rng

PROP_MODULES = ['PhotVerif.Props.C03']

X_LIKE = ['xcentroid', 'xcentroid_win', 'xcentroid_quad', 'bbox_xmin', 'bbox_xmax', 'maxval_xindex', 'minval_xindex']
Y_LIKE = [n.replace('x', 'y', 1) if n.startswith('x') else n.replace('_x', '_y') for n in X_LIKE]
XY_PAIRS = ['centroid', 'centroid_win', 'centroid_quad']                  # (n, 2) arrays of (x, y)
YX_PAIRS = ['maxval_index', 'minval_index']                               # (n, 2) arrays of (y, x)
INVARIANT = ['area', 'background_centroid', 'background_mean', 'background_sum', 'covar_sigx2', 'covar_sigxy', 'covar_sigy2', 'covariance', 'covariance_eigvals',
             'cutout_centroid', 'cutout_centroid_win', 'cutout_centroid_quad', 'cutout_maxval_index', 'cutout_minval_index',
             'cxx', 'cxy', 'cyy', 'eccentricity', 'ellipticity', 'elongation', 'equivalent_radius', 'fwhm', 'gini', 'inertia_tensor',
             'kron_flux', 'kron_fluxerr', 'kron_radius', 'label', 'local_background', 'max_value', 'min_value', 'moments', 'moments_central',
             'orientation', 'perimeter', 'segment_area', 'segment_flux', 'segment_fluxerr', 'semimajor_sigma', 'semiminor_sigma',
             # ApertureStats
             'biweight_location', 'biweight_midvariance', 'center_aper_area', 'mad_std', 'max', 'mean', 'median', 'min', 'mode', 'std', 'sum',
             'sum_aper_area', 'sum_err', 'var']
# transposition: property -> (counterpart, transform)
T_SWAP = {'xcentroid': 'ycentroid', 'xcentroid_win': 'ycentroid_win', 'xcentroid_quad': 'ycentroid_quad', 'bbox_xmin': 'bbox_ymin',
          'bbox_xmax': 'bbox_ymax', 'maxval_xindex': 'maxval_yindex', 'minval_xindex': 'minval_yindex', 'covar_sigx2': 'covar_sigy2', 'cxx': 'cyy'}
T_SWAP.update({v: k for k, v in list(T_SWAP.items())})
T_FLIP_PAIR = ['centroid', 'centroid_win', 'centroid_quad', 'maxval_index', 'minval_index', 'cutout_centroid', 'cutout_centroid_win',
               'cutout_centroid_quad', 'cutout_maxval_index', 'cutout_minval_index']
T_MATRIX_T = ['moments', 'moments_central']                                # matrix transposed
T_MATRIX_P = ['covariance', 'inertia_tensor']                              # rows and columns exchanged
T_SAME = ['area', 'background_centroid', 'background_mean', 'background_sum', 'covar_sigxy', 'covariance_eigvals', 'cxy', 'eccentricity', 'ellipticity', 'elongation',
          'equivalent_radius', 'fwhm', 'gini', 'kron_flux', 'kron_fluxerr', 'kron_radius', 'label', 'local_background', 'max_value', 'min_value',
          'perimeter', 'segment_area', 'segment_flux', 'segment_fluxerr', 'semimajor_sigma', 'semiminor_sigma',
          'biweight_location', 'biweight_midvariance', 'center_aper_area', 'mad_std', 'max', 'mean', 'median', 'min', 'mode', 'std', 'sum',
          'sum_aper_area', 'sum_err', 'var']


def val(x):
    v = getattr(x, 'value', x)
    try:
        return np.asarray(v, float)
    except (TypeError, ValueError):
        return None


def close(a, b, tol=1e-8):
    a, b = np.asarray(a, float), np.asarray(b, float)
    if a.shape != b.shape:
        return False
    with np.errstate(invalid='ignore'):
        ok = np.isclose(a, b, rtol=tol, atol=tol * max(1.0, float(np.nanmax(np.abs(a))) if a.size and np.isfinite(a).any() else 1.0), equal_nan=True)
    return bool(np.all(ok))


def angle_close(a, b, tol=1e-6):
    """angles in degrees compared modulo 180"""
    a, b = np.asarray(a, float), np.asarray(b, float)
    d = np.abs(((a - b) + 90.0) % 180.0 - 90.0)
    return bool(np.all((d <= tol) | (np.isnan(a) & np.isnan(b))))


def scene(r, ny, nx, nsrc, pad, noise=0.5):
    img, pos = gens.gaussian_scene(r, ny, nx, nsrc=nsrc, noise=noise, pad=pad)
    return img + 1.0 * 0, pos


def embed(a, NY, NX, dy, dx, fill=0):
    out = np.full((NY, NX), fill, dtype=a.dtype)
    out[dy:dy + a.shape[0], dx:dx + a.shape[1]] = a
    return out


def offsets(r, ny, nx):
    dy, dx = r.randint(0, 9), r.randint(0, 9)
    if r.random() < 0.2:
        dy = 0
    if r.random() < 0.2:
        dx = 0
    py, px = dy + r.randint(0, 7), dx + r.randint(0, 7)
    return dy, dx, ny + py, nx + px


# ---------------------------------------------------------------- apertures

def gen_apertures(r, ny, nx, margin, k=None):
    from photutils.aperture import (CircularAperture, CircularAnnulus, EllipticalAperture, EllipticalAnnulus, RectangularAperture, RectangularAnnulus)
    kinds = ['rect', 'ell', 'rectann', 'circ', 'ellann', 'circann']
    kind = r.choice(kinds) if k is None else kinds[k % 6]          # every run of >= 6 cases sees every shape
    n = r.randint(1, 3)
    # generic (non-dyadic) positions and sizes: a pixel centre or sub-pixel centre exactly on the aperture boundary is a rounding
    # knife-edge for the 'center' / 'subpixel' methods, not a covariance question
    pos = [(r.uniform(margin, nx - 1 - margin), r.uniform(margin, ny - 1 - margin)) for _ in range(n)]
    if r.random() < 0.3:
        pos = [(round(x * 4) / 4 + 0.0137, round(y * 4) / 4 - 0.0291) for x, y in pos]
    th = r.uniform(-math.pi, math.pi)
    if k is not None and (k // 6) % 2 == 0:
        th = -r.uniform(0.2, math.pi / 2 - 0.2)                    # sin and cos of opposite sign (extent formulas with signs: seed C03-r10)
    a = r.choice([1.43, 2.07, 2.76, 3.51])
    p = dict(kind=kind, pos=pos, theta=th, a=a, b=a * r.choice([0.4, 0.7, 1.0]), w=2 * a, h=a * r.choice([0.8, 1.5]))

    def make(pos, theta, swap=False):
        if kind == 'circ':
            return CircularAperture(pos, p['a'])
        if kind == 'circann':
            return CircularAnnulus(pos, p['a'] * 0.5, p['a'])
        if kind == 'ell':
            return EllipticalAperture(pos, p['a'], p['b'], theta=theta)
        if kind == 'ellann':
            return EllipticalAnnulus(pos, p['a'] * 0.5, p['a'], p['b'], theta=theta)
        if kind == 'rect':
            return RectangularAperture(pos, p['w'], p['h'], theta=theta)
        return RectangularAnnulus(pos, p['w'] * 0.5, p['w'], p['h'], theta=theta)
    return p, make


def aperture_sweep(rep, r, n):
    from photutils.aperture import ApertureStats, aperture_photometry
    for k in range(n):
        ny, nx = r.randint(14, 30), r.randint(14, 30)
        img, _ = scene(r, ny, nx, 2, 4, noise=1.0)
        err = np.abs(img) ** 0.5 + 0.25
        mask = None
        if r.random() < 0.5:
            mask = np.zeros((ny, nx), bool)
            for _ in range(r.randint(1, 4)):
                mask[r.randrange(ny), r.randrange(nx)] = True
        p, make = gen_apertures(r, ny, nx, margin=5, k=k)
        method = ['exact', 'center', 'subpixel', 'center', 'exact'][k % 5]
        dy, dx, NY, NX = offsets(r, ny, nx)
        rp = {'api': 'aperture', 'aperture': p, 'method': method, 'data': img.tolist(), 'mask': None if mask is None else mask.astype(int).tolist(),
              'offset': [dx, dy], 'canvas': [NY, NX]}
        rep.case(('ap', img.tobytes(), str(p), dx, dy), dx > 0 and dy > 0, kind=f"aperture:{p['kind']}:{method}")
        rep.probe_only += 1
        with warnings.catch_warnings():
            warnings.simplefilter('ignore')
            try:
                ap0 = make(p['pos'], p['theta'])
                t0 = aperture_photometry(img, ap0, error=err, mask=mask, method=method, subpixels=5)
                s0 = ApertureStats(img, ap0, error=err, mask=mask, sum_method=method, subpixels=5)
                # translation
                apT = make([(x + dx, y + dy) for x, y in p['pos']], p['theta'])
                tT = aperture_photometry(embed(img, NY, NX, dy, dx), apT, error=embed(err, NY, NX, dy, dx),
                                         mask=None if mask is None else embed(mask, NY, NX, dy, dx, False), method=method, subpixels=5)
                sT = ApertureStats(embed(img, NY, NX, dy, dx), apT, error=embed(err, NY, NX, dy, dx),
                                   mask=None if mask is None else embed(mask, NY, NX, dy, dx, False), sum_method=method, subpixels=5)
                # transposition
                apX = make([(y, x) for x, y in p['pos']], math.pi / 2 - p['theta'])
                tX = aperture_photometry(img.T.copy(), apX, error=err.T.copy(), mask=None if mask is None else mask.T.copy(), method=method, subpixels=5)
                sX = ApertureStats(img.T.copy(), apX, error=err.T.copy(), mask=None if mask is None else mask.T.copy(), sum_method=method, subpixels=5)
            except Exception as e:                                  # noqa: BLE001
                rep.violation(f'aperture-raises:{type(e).__name__}', f'shifted / transposed aperture measurement raised {e!r}', rp)
                continue
        bad = None
        for col in ('aperture_sum', 'aperture_sum_err'):
            if not close(val(t0[col]), val(tT[col])):
                bad = ('translate', col, val(t0[col]).tolist(), val(tT[col]).tolist())
            elif method != 'subpixel' and not close(val(t0[col]), val(tX[col])):
                bad = ('transpose', col, val(t0[col]).tolist(), val(tX[col]).tolist())
        if bad is None and not (close(val(tT['xcenter']), val(t0['xcenter']) + dx) and close(val(tT['ycenter']), val(t0['ycenter']) + dy)):
            bad = ('translate', 'xcenter/ycenter', None, None)
        if bad is None:
            bad = compare_props(s0, sT, sX, dx, dy, transposable=(method != 'subpixel'), skip=('mode',))
        if bad:
            rep.violation(f'aperture-{bad[0]}:{bad[1]}:{p["kind"]}', f'{bad[0]}: {bad[1]} original {bad[2]} vs transformed {bad[3]}', rp)


def getp(obj, name):
    try:
        with warnings.catch_warnings():
            warnings.simplefilter('ignore')
            return val(getattr(obj, name))
    except AttributeError:
        return None
    except Exception as e:                                          # noqa: BLE001
        return e


def compare_props(o0, oT, oX, dx, dy, transposable=True, skip=(), keep=None, tol=1e-8):
    """compare every classified property of the original / translated / transposed objects; returns the first discrepancy"""
    def sel(a):
        return a if keep is None or a is None or isinstance(a, Exception) or a.ndim == 0 else a[keep]
    names = set(X_LIKE + Y_LIKE + XY_PAIRS + YX_PAIRS + INVARIANT)
    # sources whose second-moment matrix is singular or isotropic to rounding: the sign of det / the axis direction is decided by
    # rounding noise (NaN-vs-regularised branch, orientation of a round source), not by the coordinate handling
    SHAPE = {'covar_sigx2', 'covar_sigy2', 'covar_sigxy', 'covariance', 'covariance_eigvals', 'cxx', 'cxy', 'cyy', 'eccentricity', 'ellipticity',
             'elongation', 'fwhm', 'orientation', 'semimajor_sigma', 'semiminor_sigma', 'kron_flux', 'kron_fluxerr', 'kron_radius'}
    mu = getp(o0, 'moments_central')
    degenerate = None
    if isinstance(mu, np.ndarray) and mu.ndim >= 2:
        m3 = mu.reshape((-1,) + mu.shape[-2:])
        with np.errstate(all='ignore'):
            a, b, c = m3[:, 0, 2] / m3[:, 0, 0], m3[:, 1, 1] / m3[:, 0, 0], m3[:, 2, 0] / m3[:, 0, 0]
            det = a * c - b * b
            sc = np.maximum(1e-300, np.abs(a * c) + b * b)
            degenerate = ~np.isfinite(det) | (np.abs(det) < 1e-9 * sc) | (np.abs(det - 1.0 / 144) < 1e-9) | (a <= 0) | (c <= 0) \
                | ((np.abs(a - c) < 1e-9 * np.abs(a)) & (np.abs(b) < 1e-9 * np.abs(a)))
        degenerate = sel(degenerate) if degenerate.size > 1 else degenerate
    for nme in sorted(names):
        if nme in skip:
            continue
        if nme in SHAPE and degenerate is not None and np.any(degenerate):
            continue
        a0 = getp(o0, nme)
        if a0 is None:
            continue
        if isinstance(a0, Exception):
            continue
        a0 = sel(a0)
        if oT is not None:
            aT = getp(oT, nme)
            if isinstance(aT, Exception) or aT is None:
                return ('translate', nme, 'value', repr(aT))
            aT = sel(aT)
            if nme in X_LIKE:
                exp = a0 + dx
            elif nme in Y_LIKE:
                exp = a0 + dy
            elif nme in XY_PAIRS:
                exp = a0 + np.array([dx, dy])
            elif nme in YX_PAIRS:
                exp = a0 + np.array([dy, dx])
            else:
                exp = a0
            okay = angle_close(exp, aT) if nme == 'orientation' else close(exp, aT, tol)
            if not okay:
                return ('translate', nme, np.asarray(exp).tolist(), np.asarray(aT).tolist())
        if oX is not None and transposable:
            if nme in T_SWAP:
                aX, exp = getp(oX, T_SWAP[nme]), a0
            elif nme in T_FLIP_PAIR:
                aX, exp = getp(oX, nme), a0[..., ::-1]
            elif nme in T_MATRIX_T:
                aX, exp = getp(oX, nme), np.swapaxes(a0, -1, -2)
            elif nme in T_MATRIX_P:
                aX, exp = getp(oX, nme), a0[..., ::-1, ::-1]
            elif nme == 'orientation':
                aX, exp = getp(oX, nme), 90.0 - a0
            elif nme in T_SAME:
                aX, exp = getp(oX, nme), a0
            else:
                continue
            if isinstance(aX, Exception) or aX is None:
                return ('transpose', nme, 'value', repr(aX))
            aX = sel(aX)
            okay = angle_close(exp, aX) if nme == 'orientation' else close(exp, aX, tol)
            if not okay:
                return ('transpose', nme, np.asarray(exp).tolist(), np.asarray(aX).tolist())
    return None


# ---------------------------------------------------------------- segmentation / catalog

def catalog_sweep(rep, r, n):
    from photutils.segmentation import SegmentationImage, SourceCatalog, deblend_sources, detect_sources
    for k in range(n):
        ny, nx = r.randint(56, 72), r.randint(56, 72)
        img, pos = scene(r, ny, nx, r.randint(2, 4), 18, noise=0.5)
        # faint, small sources near the detection limit: the fall-back branches of the fitted centroids run for these
        yy_, xx_ = np.mgrid[0:ny, 0:nx]
        for _ in range(r.randint(6, 10)):
            fx, fy = r.uniform(18, nx - 19), r.uniform(18, ny - 19)
            img = img + r.uniform(4.5, 8.0) * np.exp(-((xx_ - fx) ** 2 + (yy_ - fy) ** 2) / (2 * r.uniform(0.8, 1.2) ** 2))
        err = np.sqrt(np.abs(img)) + 0.5
        dy, dx, NY, NX = offsets(r, ny, nx)
        conn = r.choice([4, 8])
        rp = {'api': 'detect/deblend/SourceCatalog', 'data': img.tolist(), 'offset': [dx, dy], 'canvas': [NY, NX], 'connectivity': conn}
        rep.probe_only += 1
        with warnings.catch_warnings():
            warnings.simplefilter('ignore')
            try:
                seg0 = detect_sources(img, 3.0, 5, connectivity=conn)
                segT = detect_sources(embed(img, NY, NX, dy, dx), 3.0, 5, connectivity=conn)
            except Exception as e:                                  # noqa: BLE001
                rep.violation(f'detect-raises:{type(e).__name__}', f'detect_sources raised {e!r}', rp)
                continue
            if seg0 is None:
                continue
            rep.case(('cat', img.tobytes(), dx, dy), dx > 0 and dy > 0, kind=f'catalog:{seg0.nlabels}src')
            if segT is None or not np.array_equal(segT.data, embed(seg0.data, NY, NX, dy, dx)):
                rep.violation('detect-translate', 'segmentation map of the embedded image is not the embedded segmentation map', rp)
                continue
            try:
                deb0 = deblend_sources(img, seg0, 5, nlevels=16, contrast=0.01, connectivity=conn, progress_bar=False)
                debT = deblend_sources(embed(img, NY, NX, dy, dx), segT, 5, nlevels=16, contrast=0.01, connectivity=conn, progress_bar=False)
            except Exception as e:                                  # noqa: BLE001
                rep.violation(f'deblend-raises:{type(e).__name__}', f'deblend_sources raised {e!r}', rp)
                continue
            if not np.array_equal(debT.data, embed(deb0.data, NY, NX, dy, dx)):
                rep.violation('deblend-translate', 'deblended map of the embedded image is not the embedded deblended map', rp)
                continue
            kw = dict(localbkg_width=r.choice([0, 0, 4]), kron_params=r.choice([(2.5, 1.4, 0.0), (2.0, 1.0, 0.0)]))
            rp['catalog_kwargs'] = {k_: list(v) if isinstance(v, tuple) else v for k_, v in kw.items()}
            try:
                bkg = 0.02 * np.arange(nx)[None, :] + 0.05 * np.arange(ny)[:, None] + 0.5      # a background map with different x and y gradients
                c0 = SourceCatalog(img, deb0, error=err, background=bkg, **kw)
                cT = SourceCatalog(embed(img, NY, NX, dy, dx), debT, error=embed(err, NY, NX, dy, dx), background=embed(bkg, NY, NX, dy, dx), **kw)
                cX = SourceCatalog(img.T.copy(), SegmentationImage(deb0.data.T.copy()), error=err.T.copy(), background=bkg.T.copy(), **kw)
                # footprints (Kron and local-background apertures) inside the original frame
                keep = np.ones(c0.nlabels, bool)
                aslist = lambda z: list(z) if isinstance(z, (list, tuple, np.ndarray)) else [z]
                kas, las = aslist(c0.kron_aperture), aslist(c0.local_background_aperture)
                for i in range(c0.nlabels):
                    for ap in (kas[i], las[i]):
                        if ap is None:
                            continue
                        bb = ap.bbox
                        if bb.ixmin < 1 or bb.iymin < 1 or bb.ixmax > nx - 1 or bb.iymax > ny - 1:
                            keep[i] = False
                if not keep.any():
                    continue
                bad = compare_props(c0, cT, cX, dx, dy, keep=keep if c0.nlabels > 1 else None, tol=1e-7)
            except Exception as e:                                  # noqa: BLE001
                rep.violation(f'catalog-raises:{type(e).__name__}', f'SourceCatalog on shifted / transposed inputs raised {e!r}', rp)
                continue
        if bad:
            rep.violation(f'catalog-{bad[0]}:{bad[1]}', f'{bad[0]}: {bad[1]} expected {bad[2]} got {bad[3]}', rp)


# ---------------------------------------------------------------- detection

def interior(tbl, xcol, ycol, ny, nx, m, dx=0, dy=0):
    if tbl is None:
        return []
    out = []
    for row in tbl:
        x, y = float(row[xcol]) - dx, float(row[ycol]) - dy
        if m <= x <= nx - 1 - m and m <= y <= ny - 1 - m:
            out.append((x, y, row))
    return sorted(out, key=lambda t: (round(t[1], 6), round(t[0], 6)))


def detection_sweep(rep, r, n):
    from photutils.detection import DAOStarFinder, IRAFStarFinder, StarFinder, find_peaks
    for k in range(n):
        ny, nx = r.randint(40, 56), r.randint(40, 56)
        img, pos = scene(r, ny, nx, r.randint(2, 4), 10, noise=0.5)
        dy, dx, NY, NX = offsets(r, ny, nx)
        if k % 2 == 1 and dx % 2 == 0:
            dx, NX = dx + 1, NX + 1                             # an odd offset along x for the half-pixel xycoords scenes
        big = embed(img, NY, NX, dy, dx)
        rp = {'api': 'detection', 'data': img.tolist(), 'offset': [dx, dy], 'canvas': [NY, NX]}
        rep.case(('det', img.tobytes(), dx, dy), dx > 0 and dy > 0, kind='detection')
        rep.probe_only += 1
        with warnings.catch_warnings():
            warnings.simplefilter('ignore')
            box = r.choice([3, 5, (3, 5)])
            try:
                p0 = find_peaks(img, 4.0, box_size=box)
                pT = find_peaks(big, 4.0, box_size=box)
            except Exception as e:                                  # noqa: BLE001
                rep.violation(f'find_peaks-raises:{type(e).__name__}', f'find_peaks raised {e!r}', rp)
                continue
            a = interior(p0, 'x_peak', 'y_peak', ny, nx, 3)
            b = interior(pT, 'x_peak', 'y_peak', ny, nx, 3, dx, dy)
            if [(x, y, float(t['peak_value'])) for x, y, t in a] != [(x, y, float(t['peak_value'])) for x, y, t in b]:
                rep.violation('find_peaks-translate', f'interior peaks differ: {[(x, y) for x, y, _ in a]} vs shifted {[(x, y) for x, y, _ in b]}',
                              dict(rp, box_size=box))
                continue
            yy, xx = np.mgrid[-3:4, -3:4]
            kern = np.exp(-(xx ** 2 + yy ** 2) / (2 * 1.2 ** 2))
            finders = {'DAOStarFinder': lambda **kw: DAOStarFinder(threshold=5.0, fwhm=3.0, **kw),
                       'IRAFStarFinder': lambda **kw: IRAFStarFinder(threshold=5.0, fwhm=3.0, **kw),
                       'StarFinder': lambda **kw: StarFinder(threshold=5.0, kernel=kern)}
            # every other scene: the positions are supplied (xycoords), on exact half-pixels - the pixel a position belongs to must not
            # depend on the parity of its integer part (the offset is odd in at least one axis in half of these scenes)
            kw0, kwT = {}, {}
            if k % 2 == 1:
                xyc = np.array([(math.floor(p_[0]) + 0.5, math.floor(p_[1]) + 0.5) for p_ in pos if 9 <= p_[0] <= nx - 10 and 9 <= p_[1] <= ny - 10])
                if len(xyc):
                    kw0, kwT = {'xycoords': xyc}, {'xycoords': xyc + np.array([dx, dy])}
                    rp = dict(rp, xycoords=xyc.tolist())
            for name, mk in finders.items():
                try:
                    t0 = mk(**kw0)(img)
                    tT = mk(**kwT)(big)
                except Exception as e:                              # noqa: BLE001
                    rep.violation(f'{name}-raises:{type(e).__name__}', f'{name} raised {e!r}', rp)
                    break
                a = interior(t0, 'xcentroid', 'ycentroid', ny, nx, 8)
                b = interior(tT, 'xcentroid', 'ycentroid', ny, nx, 8, dx, dy)
                if len(a) != len(b):
                    rep.violation(f'{name}-translate:count', f'{len(a)} interior sources vs {len(b)} on the embedded image', rp)
                    break
                bad = None
                for (x0, y0, r0), (x1, y1, r1) in zip(a, b):
                    if abs(x0 - x1) > 1e-8 or abs(y0 - y1) > 1e-8:
                        bad = ('position', (x0, y0), (x1, y1))
                        break
                    for col in r0.colnames:
                        if col in ('id', 'xcentroid', 'ycentroid'):
                            continue
                        if not close(val(r0[col]), val(r1[col]), 1e-8):
                            bad = (col, float(r0[col]), float(r1[col]))
                            break
                    if bad:
                        break
                if bad:
                    rep.violation(f'{name}-translate:{bad[0]}', f'{name}: {bad[0]} {bad[1]} vs {bad[2]} on the embedded image', rp)
                    break


# ---------------------------------------------------------------- centroids, profiles, rendering

def centroid_sweep(rep, r, n):
    from photutils.centroids import centroid_1dg, centroid_2dg, centroid_com, centroid_quadratic, centroid_sources
    for k in range(n):
        ny, nx = r.randint(9, 17), r.randint(9, 17)
        img, pos = scene(r, ny, nx, 1, 4, noise=0.0)
        img = img + 0.05 * np.sin(np.arange(ny * nx).reshape(ny, nx))      # deterministic asymmetry
        mask = None
        if r.random() < 0.4:
            mask = np.zeros((ny, nx), bool)
            mask[r.randrange(ny), r.randrange(nx)] = True
        rp = {'api': 'centroids', 'data': img.tolist(), 'mask': None if mask is None else mask.astype(int).tolist()}
        rep.case(('cen', img.tobytes()), ny != nx, kind='centroids:transpose')
        rep.probe_only += 1
        for fn, tol in ((centroid_com, 1e-9), (centroid_quadratic, 1e-7), (centroid_1dg, 2e-4), (centroid_2dg, 2e-4)):
            with warnings.catch_warnings():
                warnings.simplefilter('ignore')
                try:
                    c0 = np.asarray(fn(img, mask=mask), float)
                    cX = np.asarray(fn(img.T.copy(), mask=None if mask is None else mask.T.copy()), float)
                except Exception as e:                              # noqa: BLE001
                    rep.violation(f'{fn.__name__}-raises:{type(e).__name__}', f'{fn.__name__} raised {e!r}', rp)
                    continue
            if not close(c0[::-1], cX, tol):
                rep.violation(f'{fn.__name__}-transpose', f'{fn.__name__}: (x, y) = {c0.tolist()} but on the transposed image {cX.tolist()}', rp)
        # centroid_sources: translation + transposition
        dy, dx, NY, NX = offsets(r, ny, nx)
        x0, y0 = pos[0]
        # centroid_quadratic started from a given peak, the maximum searched in a box around it: translation (dx != dy most of the time)
        # and transposition (seed C03-r13 re-based the row index of the maximum found in the search box with the column start)
        sb_ = r.choice([3, 5, (3, 5), (5, 3)])
        sbT_ = sb_ if np.isscalar(sb_) else sb_[::-1]
        xp_, yp_ = min(max(round(x0) + r.choice([-1, 0, 1]), 0), nx - 1), min(max(round(y0) + r.choice([-1, 0, 1]), 0), ny - 1)
        with warnings.catch_warnings():
            warnings.simplefilter('ignore')
            try:
                qa = np.asarray(centroid_quadratic(img, xpeak=xp_, ypeak=yp_, search_boxsize=sb_), float)
                qb = np.asarray(centroid_quadratic(embed(img, NY, NX, dy, dx), xpeak=xp_ + dx, ypeak=yp_ + dy, search_boxsize=sb_), float)
                qc = np.asarray(centroid_quadratic(img.T.copy(), xpeak=yp_, ypeak=xp_, search_boxsize=sbT_), float)
            except Exception as e:                                  # noqa: BLE001
                rep.violation(f'centroid_quadratic-raises:search_boxsize:{type(e).__name__}', f'centroid_quadratic(xpeak, ypeak, search_boxsize) raised {e!r}', rp)
                qa = None
        if qa is not None:
            rq = dict(rp, xpeak=xp_, ypeak=yp_, search_boxsize=sb_, offset=[dx, dy])
            # the embedding adds zero pixels: a search box that reaches beyond the original frame sees them, so only boxes inside it are compared
            hy_, hx_ = (sb_ // 2, sb_ // 2) if np.isscalar(sb_) else (sb_[0] // 2, sb_[1] // 2)
            inside_ = hy_ <= yp_ < ny - hy_ and hx_ <= xp_ < nx - hx_ and 2 <= qa[0] < nx - 2 and 2 <= qa[1] < ny - 2 if np.all(np.isfinite(qa)) else False
            if inside_ and not close(qa + np.array([dx, dy]), qb, 1e-7):
                rep.violation('centroid_quadratic-translate:search_boxsize', f'centroid_quadratic(xpeak={xp_}, ypeak={yp_}, search_boxsize={sb_}) = {qa.tolist()}; '
                              f'on the image embedded at ({dx},{dy}) with the shifted start it is {qb.tolist()}', rq)
            elif not close(qa[::-1], qc, 1e-7):
                rep.violation('centroid_quadratic-transpose:search_boxsize', f'centroid_quadratic(xpeak={xp_}, ypeak={yp_}, search_boxsize={sb_}) = {qa.tolist()} '
                              f'but on the transposed image with the swapped start {qc.tolist()}', rq)
        with warnings.catch_warnings():
            warnings.simplefilter('ignore')
            try:
                a = np.asarray(centroid_sources(img, [round(x0)], [round(y0)], box_size=(5, 7), centroid_func=centroid_com), float).ravel()
                b = np.asarray(centroid_sources(embed(img, NY, NX, dy, dx), [round(x0) + dx], [round(y0) + dy], box_size=(5, 7),
                                                centroid_func=centroid_com), float).ravel()
                c = np.asarray(centroid_sources(img.T.copy(), [round(y0)], [round(x0)], box_size=(7, 5), centroid_func=centroid_com), float).ravel()
            except Exception as e:                                  # noqa: BLE001
                rep.violation(f'centroid_sources-raises:{type(e).__name__}', f'centroid_sources raised {e!r}', rp)
                continue
        if not close(a + np.array([dx, dy]), b, 1e-9):
            rep.violation('centroid_sources-translate', f'{a.tolist()} + ({dx},{dy}) vs {b.tolist()}', dict(rp, offset=[dx, dy]))
        elif not close(a[::-1], c, 1e-9):
            rep.violation('centroid_sources-transpose', f'{a.tolist()} vs transposed {c.tolist()}', rp)
        # with a strongly varying error map and an error-weighted fitter: the error cut-out must follow the source
        xi, yi = int(round(x0)), int(round(y0))
        if 4 <= xi < nx - 4 and 4 <= yi < ny - 4:
            gy_, gx_ = np.mgrid[0:ny, 0:nx]
            err = 0.2 + 0.15 * gx_ + 0.4 * gy_ + 2.0 * ((gx_ + 2 * gy_) % 3)
            img_s = img + 0.04 * float(img.max()) * (gx_ - xi) + 0.02 * float(img.max()) * (gy_ - yi)   # a sloped sky: the weights matter
            embed_err = embed(err, NY, NX, dy, dx)
            embed_err[embed_err == 0] = 1.0
            with warnings.catch_warnings():
                warnings.simplefilter('ignore')
                try:
                    a2 = np.asarray(centroid_sources(img_s, [xi], [yi], box_size=7, error=err, centroid_func=centroid_2dg), float).ravel()
                    b2 = np.asarray(centroid_sources(embed(img_s, NY, NX, dy, dx), [xi + dx], [yi + dy], box_size=7, error=embed_err,
                                                     centroid_func=centroid_2dg), float).ravel()
                except Exception as e:                              # noqa: BLE001
                    rep.violation(f'centroid_sources-raises:{type(e).__name__}', f'centroid_sources(error=...) raised {e!r}', rp)
                    continue
            rep.count('centroid_sources:error-map')
            if np.all(np.isfinite(a2)) and np.all(np.abs(a2 - [xi, yi]) < 3) and not close(a2 + np.array([dx, dy]), b2, 2e-4):
                rep.violation('centroid_sources-translate:error-map', f'error-weighted centroid {a2.tolist()} + ({dx},{dy}) vs {b2.tolist()} on the embedded '
                              'image and error map', dict(rp, offset=[dx, dy]))


def profile_sweep(rep, r, n):
    from photutils.profiles import CurveOfGrowth, RadialProfile
    for k in range(n):
        # clearly non-square frames with the source beyond the short dimension along the long axis (row/column mix-ups show there)
        short, long_ = r.randint(28, 34), r.randint(48, 60)
        ny, nx = (short, long_) if k % 2 == 0 else (long_, short)
        img, pos = scene(r, ny, nx, 1, 13, noise=0.3)
        img0, _ = gens.gaussian_scene(r, ny, nx, nsrc=0, noise=0.3, pad=13)
        far = r.uniform(short + 1, long_ - 14)
        x0f, y0f = (far, r.uniform(13, short - 14)) if k % 2 == 0 else (r.uniform(13, short - 14), far)
        yy_, xx_ = np.mgrid[0:ny, 0:nx]
        img = img0 + 80.0 * np.exp(-((xx_ - x0f) ** 2 / (2 * 1.7 ** 2) + (yy_ - y0f) ** 2 / (2 * 1.2 ** 2)))
        pos = [(x0f, y0f)]
        err = np.sqrt(np.abs(img)) + 0.1
        mask = None
        if r.random() < 0.4:
            mask = np.zeros((ny, nx), bool)
            mask[r.randrange(ny), r.randrange(nx)] = True
        x0, y0 = pos[0]
        x0, y0 = round(x0 * 4) / 4, round(y0 * 4) / 4
        radii = np.arange(0, 11) * r.choice([1.0, 0.75])
        dy, dx, NY, NX = offsets(r, ny, nx)
        rp = {'api': 'profiles', 'data': img.tolist(), 'xycen': [x0, y0], 'radii': radii.tolist(), 'offset': [dx, dy], 'canvas': [NY, NX],
              'mask': None if mask is None else mask.astype(int).tolist()}
        rep.case(('prof', img.tobytes(), dx, dy), dx > 0 and dy > 0, kind='profiles')
        rep.probe_only += 1
        for cls, rr in ((RadialProfile, radii), (CurveOfGrowth, radii[1:])):
            with warnings.catch_warnings():
                warnings.simplefilter('ignore')
                try:
                    p0 = cls(img, (x0, y0), rr, error=err, mask=mask)
                    pT = cls(embed(img, NY, NX, dy, dx), (x0 + dx, y0 + dy), rr, error=embed(err, NY, NX, dy, dx),
                             mask=None if mask is None else embed(mask, NY, NX, dy, dx, False))
                    pX = cls(img.T.copy(), (y0, x0), rr, error=err.T.copy(), mask=None if mask is None else mask.T.copy())
                    res = [(o.profile, o.profile_error, o.area) for o in (p0, pT, pX)]
                    if cls is RadialProfile:
                        # the raw (radius, value) pairs of the pixels within the largest radius: same multiset
                        raw = []
                        for o in (p0, pT, pX):
                            dr, dp = np.asarray(val(o.data_radius)), np.asarray(val(o.data_profile))
                            idx = np.lexsort((np.round(dp, 9), np.round(dr, 9)))
                            raw.append((dr[idx], dp[idx]))
                        res = [a + b for a, b in zip(res, raw)]
                except Exception as e:                              # noqa: BLE001
                    rep.violation(f'{cls.__name__}-raises:{type(e).__name__}', f'{cls.__name__} raised {e!r}', rp)
                    continue
            for tag, other in (('translate', res[1]), ('transpose', res[2])):
                for nm, a, b in zip(('profile', 'profile_error', 'area', 'data_radius', 'data_profile'), res[0], other):
                    if not close(val(a), val(b), 1e-9):
                        rep.violation(f'{cls.__name__}-{tag}:{nm}', f'{cls.__name__}.{nm} changed under {tag}', rp)
                        break


def render_sweep(rep, r, n):
    from astropy.table import Table
    from photutils.datasets import make_model_image
    from photutils.psf import CircularGaussianPRF
    for k in range(n):
        ny, nx = r.randint(16, 30), r.randint(16, 30)
        ms = r.choice([5, 7, 8])
        nsrc = r.randint(1, 4)
        xs = [r.uniform(ms / 2 + 0.5, nx - 1 - ms / 2 - 0.5) for _ in range(nsrc)]
        ys = [r.uniform(ms / 2 + 0.5, ny - 1 - ms / 2 - 0.5) for _ in range(nsrc)]
        if r.random() < 0.4:
            xs = [round(x * 2) / 2 for x in xs]
            ys = [round(y * 2) / 2 for y in ys]
        fl = [r.uniform(1, 10) for _ in range(nsrc)]
        dy, dx, NY, NX = offsets(r, ny, nx)
        dkw = r.choice([{}, {}, {'discretize_method': 'interp'}, {'discretize_method': 'oversample', 'discretize_oversample': r.choice([2, 3, 10])}])
        rp = {'api': 'make_model_image', 'shape': [ny, nx], 'x': xs, 'y': ys, 'flux': fl, 'model_shape': ms, 'offset': [dx, dy], 'canvas': [NY, NX],
              'discretize': dkw}
        rep.case(('render', tuple(xs), tuple(ys), dx, dy, repr(dkw)), dx > 0 and dy > 0, kind='render' + (':' + dkw['discretize_method'] if dkw else ''))
        rep.probe_only += 1
        m = CircularGaussianPRF(fwhm=2.3)
        with warnings.catch_warnings():
            warnings.simplefilter('ignore')
            try:
                a = make_model_image((ny, nx), m, Table({'x_0': xs, 'y_0': ys, 'flux': fl}), model_shape=ms, **dkw)
                b = make_model_image((NY, NX), m, Table({'x_0': [x + dx for x in xs], 'y_0': [y + dy for y in ys], 'flux': fl}), model_shape=ms, **dkw)
            except Exception as e:                                  # noqa: BLE001
                rep.violation(f'render-raises:{type(e).__name__}', f'make_model_image raised {e!r}', rp)
                continue
        if not np.allclose(b, embed(np.asarray(a), NY, NX, dy, dx), rtol=0, atol=1e-10):
            rep.violation('render-translate', 'the image rendered at shifted positions on the canvas is not the embedded image', rp)


# ---------------------------------------------------------------- tie: central moments

def moments_correspondence(rep, r, n):
    from photutils.utils._moments import _moments_central
    drv = Driver()
    lines, exp = [], []
    for k in range(n):
        ny, nx = gens.size(r, 1, 7), gens.size(r, 1, 7)
        d = gens.image(r, ny, nx, special=0.0, palette=0.3)
        xc, yc = gens.dy(r, 2, 2), gens.dy(r, 2, 2)
        order = r.choice([1, 2, 3])
        lines.append(f'cmoment {ny} {nx} {q(xc)} {q(yc)} {order} | {gens.arr_tokens(d)}')
        exp.append((np.asarray(_moments_central(d, center=(xc, yc), order=order), float), d, xc, yc, order))
        # the same raster embedded and transposed (model-side covariance, checked against the implementation as well)
        dy, dx = r.randint(0, 3), r.randint(0, 3)
        big = embed(d, ny + dy + r.randint(0, 2), nx + dx + r.randint(0, 2), dy, dx)
        lines.append(f'cmoment {big.shape[0]} {big.shape[1]} {q(xc + dx)} {q(yc + dy)} {order} | {gens.arr_tokens(big)}')
        exp.append((np.asarray(_moments_central(big, center=(xc + dx, yc + dy), order=order), float), big, xc + dx, yc + dy, order))
        lines.append(f'cmoment {nx} {ny} {q(yc)} {q(xc)} {order} | {gens.arr_tokens(d.T)}')
        exp.append((np.asarray(_moments_central(d.T.copy(), center=(yc, xc), order=order), float), d.T, yc, xc, order))
    out = drv.run(lines)
    if out is None:
        rep.tie_broken('model driver failed', drv.error)
        return
    mats = []
    for ln, o, (m, d, xc, yc, order) in zip(lines, out, exp):
        rep.traces += 1
        rep.case(('mom', ln), d.shape[0] != d.shape[1], kind='moments')
        mv = np.array([float(F(t)) for t in o[3:].split()]).reshape(order + 1, order + 1) if o.startswith('ok') else None
        mats.append(mv)
        if mv is None or not np.allclose(mv, m, rtol=1e-10, atol=1e-9):
            rep.tie_broken('central-moment model and _moments_central disagree', {'model': o[:200], 'impl': m.tolist(), 'op': ln[:200]})
    for i in range(0, len(mats) - 2, 3):
        if mats[i] is None or mats[i + 1] is None or mats[i + 2] is None:
            continue
        if not np.array_equal(mats[i], mats[i + 1]) or not np.array_equal(mats[i], mats[i + 2].T):
            rep.tie_broken('model central moments are not covariant (contradicts moment_translate / moment_transpose)', {'op': lines[i][:200]})
        a, b, c = exp[i][0], exp[i + 1][0], exp[i + 2][0]
        if not np.allclose(a, b, rtol=1e-9, atol=1e-9) or not np.allclose(a, c.T, rtol=1e-9, atol=1e-9):
            rep.violation('moments-covariance', '_moments_central differs between the original, the embedded and the transposed raster',
                          {'data': exp[i][1].tolist(), 'center': [exp[i][2], exp[i][3]], 'order': exp[i][4]})


def run(rep, tier):
    thorough = tier == 'thorough'
    scale = 8 if thorough else 1
    rep.rule = ('scenes of 1-4 rotated elliptical Gaussians + noise; integer offsets 0..9 and extra pads 0..7 (incl. offset 0 on one axis); '
                'apertures of all six classes at quarter-pixel positions with random theta, three sum methods; detect_sources/deblend_sources '
                '(4/8-connectivity), SourceCatalog (all numeric properties, Kron + local background), find_peaks, DAO/IRAF/StarFinder, '
                'centroid functions, RadialProfile/CurveOfGrowth, make_model_image; transposition with theta -> 90deg - theta. '
                'Non-trivial = both offsets non-zero (translation) / non-square frame (transposition).')
    rep.assumptions += ['measurement footprints are required to lie inside the original frame (sources near the edge are skipped)',
                        'float comparisons at 1e-8 (fits 2e-4): cut-out data are identical, only the origin added at the end differs',
                        'the theorems cover the shared index mechanisms (bbox, overlap slices, render window, centre of mass, central moments, '
                        'local-maximum test); the per-API relations are metamorphic probes on the implementation']
    rep.lean = prove(PROP_MODULES)
    if not rep.lean.ok:
        scale *= 2
    r = rng('C03')
    moments_correspondence(rep, r, 40 * scale)
    aperture_sweep(rep, r, 40 * scale)
    catalog_sweep(rep, r, 12 * scale)
    detection_sweep(rep, r, 6 * scale)
    centroid_sweep(rep, r, 10 * scale)
    profile_sweep(rep, r, 8 * scale)
    render_sweep(rep, r, 20 * scale)


def replay(rep, data):
    run(rep, 'quick')
