"""C12 — PSF photometry recovers rendered scenes and keeps its bookkeeping straight (DESIGN §5 C12)."""
import math
import warnings
from fractions import Fraction as F

import numpy as np

import gens
from common import Driver, prove, q, rng

PROP_MODULES = ['PhotVerif.Props.C12']


def run(rep, tier):
    thorough = tier == 'thorough'
    scale = 12 if thorough else 1
    rep.rule = ('(a) SourceGrouper on dyadic positions with exact ties at the separation vs the Lean component model (ids by first appearance, '
                'sizes, group_by order); (b) PSFPhotometry on noise-free rendered scenes (Gaussian PRF / ImagePSF / gridded), isolated to overlapping '
                'sources, positions near edges, masks, shuffled input rows, supplied group_id, fixed parameters, bounds: recovery + every bookkeeping '
                'column vs the Lean model (npixfit, flags bits 1/2/4, ids, group sizes, invalid positions). Non-trivial = at least two sources in one group '
                'or a clipped / masked fit window.')
    rep.assumptions += ['the optimiser (astropy TRF/LM fitters) is not modelled: recovery of x, y, flux is probed on the implementation only',
                        'scipy fclusterdata is compared with the model, not assumed']
    rep.lean = prove(PROP_MODULES)
    if not rep.lean.ok:
        scale *= 3
    r = rng('C12')
    drv = Driver()
    lines, exps, metas = [], [], []
    grouper_stream(rep, r, 150 * scale, lines, exps, metas)
    phot_stream(rep, r, 60 * scale, lines, exps, metas)
    local_background_probe(rep, r, 6 * scale)
    interleaved_groups_probe(rep, r, 2 * scale)
    out = drv.run(lines)
    if out is None:
        rep.tie_broken('model driver failed', drv.error)
        return
    nb = 0
    for ln, o, e, m in zip(lines, out, exps, metas):
        rep.traces += 1
        if callable(e):
            ok = e(o)
        else:
            ok = (o == e)
        if not ok:
            nb += 1
            if nb <= 3:
                rep.tie_broken(f'PSF bookkeeping model ({m}) and implementation disagree', {'op': ln[:300], 'model': o,
                                                                                           'impl': None if callable(e) else e})


def grouper_stream(rep, r, n, lines, exps, metas):
    from photutils.psf import SourceGrouper
    for k in range(n):
        npts = r.randint(1, 9)
        m = r.choice([1, 2])
        xs = [r.randint(0, 12 * 2 ** m) / 2 ** m for _ in range(npts)]
        ys = [r.randint(0, 12 * 2 ** m) / 2 ** m for _ in range(npts)]
        sep = r.choice([1.0, 2.0, 2.5, 3.0, 5.0, 0.5])       # 3-4-5 triangles make exact ties common
        with warnings.catch_warnings():
            warnings.simplefilter('ignore')
            g = SourceGrouper(sep)(xs, ys)
        g = [int(v) for v in g]
        # (S) single-linkage components by union-find, first-appearance numbering
        parent = list(range(npts))

        def find(a):
            while parent[a] != a:
                parent[a] = parent[parent[a]]
                a = parent[a]
            return a
        for i in range(npts):
            for j in range(i + 1, npts):
                if F(xs[i] - xs[j]) ** 2 + F(ys[i] - ys[j]) ** 2 <= F(sep) ** 2:
                    a, b = find(i), find(j)
                    if a != b:
                        parent[max(a, b)] = min(a, b)
        ids, ref = {}, []
        for i in range(npts):
            rt = find(i)
            ids.setdefault(rt, len(ids) + 1)
            ref.append(ids[rt])
        rep.case(('grp', tuple(xs), tuple(ys), sep), len(set(ref)) < npts, kind='SourceGrouper',
                 sample={'x': xs, 'y': ys, 'min_separation': sep, 'group_id': g})
        if g != ref:
            rep.violation('grouper-not-single-linkage', f'SourceGrouper({sep}) gives {g}, single-linkage clusters by first appearance are {ref}',
                          {'x': xs, 'y': ys, 'min_separation': sep})
            continue
        lines.append(f'group {q(F(sep) ** 2)} | ' + ' '.join(q(v) for v in xs) + ' | ' + ' '.join(q(v) for v in ys))
        sizes = [g.count(v) for v in g]
        exps.append((lambda gg, ss: (lambda o: o.split(' | ')[0] == 'ok ' + ' '.join(map(str, gg))
                                     and o.split(' | ')[1] == ' '.join(map(str, ss))))(g, sizes))
        metas.append('grouper')


def render_scene(r, kind):
    from photutils.psf import CircularGaussianPRF, ImagePSF, make_psf_model_image
    # frames: nearly square, clearly wide, clearly tall (a source beyond the short dimension along the long axis)
    frame = r.choice(['square', 'wide', 'tall'])
    ny, nx = {'square': (41, 45), 'wide': (33, 61), 'tall': (61, 33)}[frame]
    yy, xx = np.mgrid[0:ny, 0:nx]
    if kind == 'prf':
        model = CircularGaussianPRF(flux=1, fwhm=2.6)
    else:
        gy, gx = np.mgrid[-12:13, -12:13]
        d = np.exp(-(gx ** 2 + gy ** 2) / (2 * (2 * 1.2) ** 2))
        model = ImagePSF(d / d.sum() * 4, oversampling=2)
    # clusters whose members overlap each other, but which are far from every other cluster, so that the
    # grouper's single-linkage clusters contain every pair of sources that contaminate each other
    centres = {'square': [(8.0, 8.0), (30.0, 9.0), (10.0, 30.0), (34.0, 31.0), (21.0, 20.0)],
               'wide': [(8.0, 8.0), (30.0, 9.0), (52.0, 10.0), (10.0, 24.0), (34.0, 23.0), (53.0, 24.0)],
               'tall': [(8.0, 8.0), (9.0, 30.0), (10.0, 52.0), (24.0, 10.0), (23.0, 34.0), (24.0, 53.0)]}[frame]
    r.shuffle(centres)
    srcs = []
    chosen = centres[:r.randint(1, 4)]
    for (cx0, cy0) in chosen:
        if r.random() < 0.2:
            # cluster hugging an edge - unless that brings it within reach of another cluster (clusters must stay isolated
            # from each other: only members of one cluster may contaminate each other)
            cand = r.choice([1.3, nx - 2.4])
            if all(o == (cx0, cy0) or math.hypot(cand - o[0], cy0 - o[1]) >= 16.0 for o in chosen) \
                    and all(math.hypot(cand - s_[0], cy0 - s_[1]) >= 14.0 for s_ in srcs):
                cx0 = cand
        bx, by = cx0 + r.uniform(-1, 1), cy0 + r.uniform(-1, 1)
        others = list(srcs)                                                  # sources of the clusters placed before this one
        srcs.append((bx, by, r.uniform(200, 900)))
        for _ in range(r.choice([0, 0, 1, 2])):
            for _try in range(20):                                           # companions stay inside the frame
                ang, dist = r.uniform(0, 2 * math.pi), r.uniform(3.0, 4.5)
                cx_, cy_ = bx + dist * math.cos(ang), by + dist * math.sin(ang)
                # ... at least 2.9 px from the members of their own cluster and at least 9 px from every source of another cluster (the
                # central cluster of the square frame is only 14 px from its neighbours: thorough tier, seed 17)
                if 0.5 <= cx_ <= nx - 1.5 and 0.5 <= cy_ <= ny - 1.5 and all(math.hypot(cx_ - s_[0], cy_ - s_[1]) >= 2.9 for s_ in srcs) \
                        and all(math.hypot(cx_ - s_[0], cy_ - s_[1]) >= 9.0 for s_ in others):
                    srcs.append((cx_, cy_, r.uniform(200, 900)))
                    break
    img = np.zeros((ny, nx))
    for x, y, f in srcs:
        m = model.copy()
        m.x_0, m.y_0, m.flux = x, y, f
        img += m(xx, yy)
    return model, img, srcs


def phot_stream(rep, r, n, lines, exps, metas):
    from astropy.table import Table
    from photutils.psf import PSFPhotometry, IterativePSFPhotometry, SourceGrouper
    from photutils.detection import DAOStarFinder
    for k in range(n):
        kind = r.choice(['prf', 'prf', 'image'])
        model, img, srcs = render_scene(r, kind)
        ny, nx = img.shape
        fit_shape = r.choice([(5, 5), (7, 7), (5, 7)])
        order = list(range(len(srcs)))
        r.shuffle(order)
        init = Table({'x': [srcs[i][0] + r.uniform(-0.25, 0.25) for i in order],
                      'y': [srcs[i][1] + r.uniform(-0.25, 0.25) for i in order],
                      'flux': [srcs[i][2] * r.uniform(0.9, 1.1) for i in order]})
        mask = None
        if r.random() < 0.4:
            mask = np.zeros(img.shape, bool)
            for _ in range(6):
                mask[r.randrange(ny), r.randrange(nx)] = True
        # a non-finite pixel two pixels from a source that the user's mask (if any) does not cover: it is ignored like a masked pixel
        umask = mask
        if r.random() < 0.4:
            if mask is None and r.random() < 0.6:
                mask = np.zeros(img.shape, bool)
                mask[r.randrange(ny), r.randrange(nx)] = True
                umask = mask
            sx_, sy_, _f = srcs[r.randrange(len(srcs))]
            py_, px_ = int(round(sy_)) + r.choice([-2, 2]), int(round(sx_)) + r.choice([-2, 0, 2])
            if 0 <= py_ < ny and 0 <= px_ < nx and not (mask is not None and mask[py_, px_]):
                img = img.copy()
                img[py_, px_] = r.choice([np.nan, np.inf])
                mask = (np.zeros(img.shape, bool) if mask is None else mask.copy())
                mask[py_, px_] = True               # the effective mask, used by the oracles below; the call receives `umask`
        sep = r.choice([6.0, 7.0, 8.0])
        use_gid = r.random() < 0.35
        truth = {i: srcs[i] for i in order}
        if use_gid:
            # a valid user grouping: the single-linkage clusters, numbered differently (reversed)
            with warnings.catch_warnings():
                warnings.simplefilter('ignore')
                g0 = [int(v) for v in SourceGrouper(sep)(init['x'], init['y'])]
            init['group_id'] = [max(g0) + 1 - v for v in g0]
        # a supplied group_id column is honoured with or without a grouper object
        no_grouper = use_gid and r.random() < 0.5
        # local-background settings: a constant pedestal under the scene, supplied exactly through the init_params 'local_bkg' column -
        # alone, or together with a LocalBackground estimator whose (source-contaminated) annulus must then be ignored, as documented
        lbkg = r.choice(['none', 'none', 'column', 'column+estimator'])
        localbkg_estimator = None
        if lbkg != 'none':
            from photutils.background import LocalBackground
            ped = r.choice([5.0, 12.5, -3.0])
            img = img + ped
            init['local_bkg'] = [ped] * len(order)
            if lbkg == 'column+estimator':
                localbkg_estimator = LocalBackground(2.5, 6.0)
        phot = PSFPhotometry(model, fit_shape, grouper=None if no_grouper else SourceGrouper(sep), aperture_radius=4, progress_bar=False,
                             localbkg_estimator=localbkg_estimator)
        replay = {'local_bkg': lbkg, 'grouper': None if no_grouper else 'SourceGrouper', 'model': kind, 'sources': srcs, 'order': order, 'init': {c_: [float(v) for v in init[c_]] for c_ in init.colnames}, 'fit_shape': list(fit_shape), 'min_separation': sep,
                  'group_id_supplied': use_gid, 'mask': None if umask is None else np.argwhere(umask).tolist(), 'nonfinite_pixels': np.argwhere(~np.isfinite(img)).tolist()}
        try:
            with warnings.catch_warnings():
                warnings.simplefilter('ignore')
                res = phot(img, init_params=init, mask=umask)
        except Exception as e:
            rep.violation(f'psfphot-raises:{type(e).__name__}', f'PSFPhotometry raised {e!r}', replay)
            continue
        nsrc = len(order)
        grouped = len(set(res['group_id'])) < nsrc
        rep.case((kind, tuple(map(tuple, srcs)), tuple(order), fit_shape, sep, use_gid), grouped or mask is not None,
                 kind=f'psfphot:{kind}' + (':group_id' if use_gid else '') + (':no-grouper' if no_grouper else '') + (':mask' if umask is not None else '') + (':nonfinite' if not np.isfinite(img).all() else '') + ('' if lbkg == 'none' else ':local_bkg-' + lbkg),
                 sample={'model': kind, 'nsources': nsrc, 'fit_shape': list(fit_shape), 'group_sizes': [int(v) for v in res['group_size']]})
        # (S) rows in input order with ids 1..N
        if list(res['id']) != list(range(1, nsrc + 1)) or not np.allclose(res['x_init'], init['x']) or not np.allclose(res['y_init'], init['y']):
            rep.violation('rows-not-in-input-order', 'output rows are not in input order with ids 1..N', replay)
            continue
        if lbkg != 'none' and not np.array_equal(np.asarray(res['local_bkg'], float), np.asarray(init['local_bkg'], float)):
            rep.violation(f'local_bkg-column-not-used:{lbkg}', f"init_params['local_bkg'] = {list(init['local_bkg'])} was supplied but the output local_bkg is "
                          f"{[float(v) for v in res['local_bkg']]}", replay)
            continue
        # (S) the same scene with a starved fitter (some fits stop before converging): flag bit 8 marks exactly the rows whose own
        #     fit report says so - also when the groups interleave with the row order
        if k % 4 == 2:
            ph8 = PSFPhotometry(model, fit_shape, grouper=None if no_grouper else SourceGrouper(sep), aperture_radius=4, progress_bar=False,
                                localbkg_estimator=localbkg_estimator, fitter_maxiters=r.choice([2, 3, 4]))
            # every other row starts exactly at the truth (its fit stops at once), the others well off (they run out of iterations)
            init8 = init.copy()
            for j_, i_ in enumerate(order):
                tx_, ty_, tf_ = srcs[i_]
                if j_ % 2 == 0:
                    init8['x'][j_], init8['y'][j_], init8['flux'][j_] = tx_, ty_, tf_
                else:
                    init8['x'][j_], init8['y'][j_], init8['flux'][j_] = tx_ + 0.4, ty_ - 0.3, tf_ * 1.3
            with warnings.catch_warnings():
                warnings.simplefilter('ignore')
                try:
                    r8 = ph8(img, init_params=init8, mask=umask)
                    infos = ph8.fit_info['fit_infos']
                except Exception as e:                          # noqa: BLE001
                    rep.violation(f'psfphot-raises:{type(e).__name__}:fitter_maxiters', f'PSFPhotometry(fitter_maxiters small) raised {e!r}', replay)
                    continue

            def not_converged(fi):
                if fi.get('ierr', None) is not None:
                    return fi['ierr'] not in (1, 2, 3, 4)
                return fi.get('status', None) is not None and fi['status'] in (-1, 0)
            exp8 = [not_converged(fi) for fi in infos]
            got8 = [bool(int(v) & 8) for v in r8['flags']]
            rep.count('flag8-probe' + (':mixed' if any(exp8) and not all(exp8) else ''))
            if len(exp8) == len(got8) and exp8 != got8 and list(r8['id']) == list(range(1, nsrc + 1)):
                # the fit reports are in source-id order; cross-check with the group structure only through the outputs
                rep.violation('flag8-ne-fit-report', f'flag bit 8 is set for rows {[j for j, v in enumerate(got8) if v]} but the fit reports of rows '
                              f'{[j for j, v in enumerate(exp8) if v]} say "not converged" (group ids {[int(v) for v in r8["group_id"]]})', replay)
                continue
        # (S) flag bit 16 (no covariance matrix returned by the fitter) is set for a fitter that returns none - the fitted errors are
        #     then NaN - and never for the default fitter
        if k % 6 == 1:
            from astropy.modeling.fitting import SimplexLSQFitter
            with warnings.catch_warnings():
                warnings.simplefilter('ignore')
                try:
                    r16 = PSFPhotometry(model, fit_shape, grouper=None if no_grouper else SourceGrouper(sep), aperture_radius=4, progress_bar=False,
                                        localbkg_estimator=localbkg_estimator, fitter=SimplexLSQFitter())(img, init_params=init, mask=umask)
                except Exception as e:                          # noqa: BLE001
                    rep.violation(f'psfphot-raises:{type(e).__name__}:simplex', f'PSFPhotometry(fitter=SimplexLSQFitter()) raised {e!r}', replay)
                    continue
            rep.count('flag16-probe')
            nocov = [bool(np.isnan(float(v))) for v in r16['x_err']]
            f16 = [bool(int(v) & 16) for v in r16['flags']]
            d16 = [bool(int(v) & 16) for v in res['flags']]
            if f16 != nocov or any(d16):
                rep.violation('flag16-ne-no-covariance', f'flag bit 16: Simplex fitter rows {f16} (errors NaN: {nocov}); default fitter rows {d16} '
                              f'(x_err {[float(v) for v in res["x_err"]]})', replay)
                continue
        # (S) recovery of the rendered truth (noise-free, started within a pixel)
        bad = None
        for j, i in enumerate(order):
            x, y, f = srcs[i]
            on_masked_core = mask is not None and mask[max(0, int(round(y)) - 1):int(round(y)) + 2, max(0, int(round(x)) - 1):int(round(x)) + 2].any()
            if on_masked_core:
                continue
            # (the default fitter stops at about 1e-3 px in chains of four or more blended sources; sources of different clusters are kept
            # at least 9 px apart by the scene generator - thorough tier, seeds 15 and 17)
            tol_ = 3e-3 if int(res['group_size'][j]) <= 3 else 5e-3
            if abs(res['x_fit'][j] - x) > tol_ or abs(res['y_fit'][j] - y) > tol_ or abs(res['flux_fit'][j] - f) > tol_ * f:
                bad = (j, (x, y, f), (float(res['x_fit'][j]), float(res['y_fit'][j]), float(res['flux_fit'][j])))
                break
        if bad:
            rep.violation('truth-not-recovered' + (':grouped' if grouped else ':single'),
                          f'row {bad[0]}: rendered {bad[1]} but fitted {bad[2]}', replay)
            continue
        # (S) npixfit of every row = unmasked pixels of the fit window around THAT row's initial position, clipped to the image
        from astropy.nddata import overlap_slices
        nbad_ = None
        for j in range(nsrc):
            try:
                slc, _ = overlap_slices(img.shape, fit_shape, (float(init['y'][j]), float(init['x'][j])), mode='trim')
                exp_n = int(np.count_nonzero(~mask[slc])) if mask is not None else int((slc[0].stop - slc[0].start) * (slc[1].stop - slc[1].start))
            except Exception:                                   # noqa: BLE001  (no overlap: left to the model correspondence)
                continue
            if int(res['npixfit'][j]) != exp_n:
                nbad_ = (j, int(res['npixfit'][j]), exp_n)
                break
        if nbad_:
            rep.violation('npixfit-ne-window', f'row {nbad_[0]}: npixfit = {nbad_[1]} but its fit window holds {nbad_[2]} unmasked pixels '
                          f'(npixfit column {[int(v) for v in res["npixfit"]]}, group ids {[int(v) for v in res["group_id"]]})', replay)
            continue
        # (S) documented flag bits 1, 2, 4 evaluated directly: npixfit below the fit window size, fit position outside the image, flux <= 0
        fbad = None
        for j in range(nsrc):
            fl = int(res['flags'][j])
            xf, yf, ff = float(res['x_fit'][j]), float(res['y_fit'][j]), float(res['flux_fit'][j])
            e1 = int(res['npixfit'][j]) < fit_shape[0] * fit_shape[1]
            e2 = xf < 0 or yf < 0 or xf > nx or yf > ny
            e4 = ff <= 0
            if (bool(fl & 1), bool(fl & 2), bool(fl & 4)) != (e1, e2, e4):
                fbad = (j, fl, (e1, e2, e4), (xf, yf, ff))
                break
        if fbad:
            rep.violation('flags-ne-documented', f'row {fbad[0]}: flags = {fbad[1]} but (npixfit < window, position outside the {ny}x{nx} image, flux <= 0) = '
                          f'{fbad[2]} for (x_fit, y_fit, flux_fit) = {fbad[3]}', replay)
            continue
        # (S) group ids / sizes
        gid = [int(v) for v in res['group_id']]
        if use_gid:
            if gid != list(init['group_id']):
                rep.violation('group_id-not-kept', 'supplied group_id column was not used', replay)
        if [int(v) for v in res['group_size']] != [gid.count(v) for v in gid]:
            rep.violation('group_size-wrong', 'group_size does not count the members of each group', replay)
        # (T) model: grouping of the initial positions, per-row npixfit / invalid / flags
        if not use_gid:
            lines.append(f'group {q(F(sep) ** 2)} | ' + ' '.join(q(v) for v in init['x']) + ' | ' + ' '.join(q(v) for v in init['y']))
            sizes = [gid.count(v) for v in gid]
            exps.append((lambda gg, ss: (lambda o: o.split(' | ')[0] == 'ok ' + ' '.join(map(str, gg))
                                         and o.split(' | ')[1] == ' '.join(map(str, ss))))(gid, sizes))
            metas.append('psfphot-groups')
        for j in range(nsrc):
            lines.append(f'npixfit {ny} {nx} {fit_shape[0]} {fit_shape[1]} {q(init["x"][j])} {q(init["y"][j])} | ' + gens.mask_tokens(mask))
            exps.append((lambda npx: (lambda o: o.split()[0] == 'ok' and int(o.split()[1]) == npx and o.split()[2] == 'false'))(int(res['npixfit'][j])))
            metas.append('npixfit')
            fl = int(res['flags'][j])
            lines.append(f'psfflags {ny} {nx} {fit_shape[0]} {fit_shape[1]} {int(res["npixfit"][j])} {q(float(res["x_fit"][j]))} '
                         f'{q(float(res["y_fit"][j]))} {q(float(res["flux_fit"][j]))}')
            exps.append((lambda f7: (lambda o: int(o.split()[1]) % 8 == f7))(fl % 8))
            metas.append('flags')
        # (S) flux scales with the image; iterative(maxiters=1) == single; fixed parameters keep their value
        if k % 3 == 0:
            with warnings.catch_warnings():
                warnings.simplefilter('ignore')
                init2 = init.copy()
                init2['flux'] = np.asarray(init['flux']) * 3
                if 'local_bkg' in init2.colnames:
                    init2['local_bkg'] = np.asarray(init['local_bkg']) * 3
                res3 = PSFPhotometry(model, fit_shape, grouper=SourceGrouper(sep), aperture_radius=4, progress_bar=False)(
                    img * 3, init_params=init2, mask=mask)
            if not np.allclose(res3['flux_fit'], 3 * np.asarray(res['flux_fit']), rtol=1e-4):
                rep.violation('flux-not-scaling', 'scaling the image by 3 does not scale the fitted fluxes by 3', replay)
            # the same for scale factors far from 1 (images in calibrated flux units): powers of two, so that the scaled scene is the
            # same scene bit for bit up to the exponent
            for kk_ in ([2.0 ** 40, 2.0 ** -30] if k % 6 == 0 else [2.0 ** -60]):
                with warnings.catch_warnings():
                    warnings.simplefilter('ignore')
                    initk = init.copy()
                    initk['flux'] = np.asarray(init['flux']) * kk_
                    if 'local_bkg' in initk.colnames:
                        initk['local_bkg'] = np.asarray(init['local_bkg']) * kk_
                    try:
                        resk = PSFPhotometry(model, fit_shape, grouper=SourceGrouper(sep), aperture_radius=4, progress_bar=False)(
                            img * kk_, init_params=initk, mask=mask)
                    except Exception as e:                      # noqa: BLE001
                        rep.violation(f'psfphot-raises:scaled-image:{type(e).__name__}', f'PSFPhotometry on the image scaled by {kk_:g} raised {e!r}', replay)
                        continue
                rep.count(f'flux-scaling-probe:2^{int(round(math.log2(kk_)))}')
                ok_ = np.allclose(np.asarray(resk['flux_fit'], float) / kk_, np.asarray(res['flux_fit'], float), rtol=1e-4) and \
                    np.allclose(resk['x_fit'], res['x_fit'], atol=1e-3) and np.allclose(resk['y_fit'], res['y_fit'], atol=1e-3)
                if not ok_:
                    moved = not (np.array_equal(np.asarray(resk['x_fit']), np.asarray(resk['x_init'])) and np.array_equal(np.asarray(resk['y_fit']), np.asarray(resk['y_init'])))
                    tag = 'small-scale' if kk_ < 2.0 ** -20 else 'large-scale'
                    rep.violation(f'flux-not-scaling:{tag}' + ('' if moved else ':fit-did-not-start'),
                                  f'scaling the image (and the initial fluxes) by 2^{int(round(math.log2(kk_)))} does not scale the fitted fluxes: flux_fit / k = '
                                  f'{(np.asarray(resk["flux_fit"], float) / kk_).tolist()} instead of {np.asarray(res["flux_fit"], float).tolist()}; '
                                  + ('positions fitted' if moved else 'x_fit, y_fit equal the initial values (the optimiser stopped at once), flags ' + str([int(v) for v in resk["flags"]])),
                                  dict(replay, scale=kk_))
            mfix = model.copy()
            mfix.x_0.fixed = True
            with warnings.catch_warnings():
                warnings.simplefilter('ignore')
                resf = PSFPhotometry(mfix, fit_shape, grouper=SourceGrouper(sep), aperture_radius=4, progress_bar=False)(
                    img, init_params=init, mask=mask)
            if not np.array_equal(np.asarray(resf['x_fit']), np.asarray(init['x'])):
                rep.violation('fixed-parameter-changed', 'a fixed x_0 did not keep its initial value', replay)
        rep.probe_only += 1
    # IterativePSFPhotometry with one iteration equals PSFPhotometry
    for _ in range(max(4, n // 3)):
        model, img, srcs = render_scene(r, 'prf')
        finder = DAOStarFinder(5.0, 2.6)
        # with a mask (a masked hot pixel next to the first source), an error map and supplied initial positions as well
        variant = r.choice(['plain', 'mask', 'mask+init', 'error+mask'])
        kw = {}
        img2 = img
        if 'mask' in variant:
            m = np.zeros(img.shape, bool)
            hx, hy = int(round(srcs[0][0])) + 1, int(round(srcs[0][1]))
            if 0 <= hx < img.shape[1] and 0 <= hy < img.shape[0]:
                m[hy, hx] = True
                img2 = img.copy()
                img2[hy, hx] += 500.0
            kw['mask'] = m
        if 'error' in variant:
            kw['error'] = np.full(img.shape, 0.5)
        if 'init' in variant:
            kw['init_params'] = Table({'x': [s_[0] + 0.1 for s_ in srcs], 'y': [s_[1] - 0.1 for s_ in srcs]})
        with warnings.catch_warnings():
            warnings.simplefilter('ignore')
            a = PSFPhotometry(model, (5, 5), finder=finder, grouper=SourceGrouper(6.0), aperture_radius=4, progress_bar=False)(img2, **kw)
            b = IterativePSFPhotometry(model, (5, 5), finder=finder, grouper=SourceGrouper(6.0), aperture_radius=4, maxiters=1,
                                       progress_bar=False)(img2, **kw)
        rep.case(('iter1', img.tobytes(), variant), True, kind=f'iterative-maxiters1:{variant}')
        rep.probe_only += 1
        rp = {'sources': srcs, 'variant': variant, 'mask': None if 'mask' not in kw else np.argwhere(kw['mask']).tolist()}
        if a is None or b is None:
            if (a is None) != (b is None):
                rep.violation('iterative1-ne-single', 'IterativePSFPhotometry(maxiters=1) differs from PSFPhotometry (None)', rp)
            continue
        if len(a) != len(b) or not np.allclose(a['flux_fit'], b['flux_fit'], rtol=1e-10) or not np.allclose(a['x_fit'], b['x_fit'], rtol=1e-10) \
                or list(a['npixfit']) != list(b['npixfit']) or list(a['flags']) != list(b['flags']):
            rep.violation(f'iterative1-ne-single:{variant}', f'IterativePSFPhotometry(maxiters=1) differs from PSFPhotometry ({variant}): '
                          f'flux {list(np.round(b["flux_fit"], 3))} vs {list(np.round(a["flux_fit"], 3))}, npixfit {list(b["npixfit"])} vs {list(a["npixfit"])}', rp)


def local_background_probe(rep, r, n):
    """(S) LocalBackground(r_in, r_out)(data, x, y): the sigma-clipped median of the pixels whose centres lie in the annulus around
    (x, y) - x is the column coordinate - on non-square frames with a sky that differs between (x, y) and (y, x)"""
    from astropy.stats import SigmaClip
    from photutils.aperture import CircularAnnulus
    from photutils.background import LocalBackground
    for _ in range(n):
        ny, nx = r.choice([(40, 70), (70, 40), (50, 55)])
        rs = np.random.RandomState(r.randrange(2 ** 31))
        yy, xx = np.mgrid[0:ny, 0:nx]
        img = 10.0 + 0.3 * xx - 0.2 * yy + rs.normal(0, 0.5, (ny, nx)) + np.where(xx > nx / 2, 15.0, 0.0)
        xs = [r.uniform(12, nx - 13) for _ in range(3)]
        ys = [r.uniform(12, ny - 13) for _ in range(3)]
        rin, rout = r.choice([(4.0, 8.0), (5.0, 9.5)])
        mask = rs.rand(ny, nx) < 0.02 if r.random() < 0.5 else None
        with warnings.catch_warnings():
            warnings.simplefilter('ignore')
            got = np.atleast_1d(LocalBackground(rin, rout)(img, xs, ys, mask=mask))
            exp = []
            for x_, y_ in zip(xs, ys):
                v = CircularAnnulus((x_, y_), rin, rout).to_mask(method='center').get_values(img, mask=mask)
                exp.append(float(np.median(SigmaClip(sigma=3.0, maxiters=10)(v, masked=False))))
        rep.case(('localbkg', img.tobytes(), tuple(xs)), True, kind='LocalBackground')
        rep.probe_only += 1
        if not np.allclose(got, exp, rtol=1e-10, atol=1e-10):
            rep.violation('local-background-ne-annulus-median', f'LocalBackground({rin}, {rout}) at x = {xs}, y = {ys} on a {ny} x {nx} frame gives {got.tolist()}, '
                          f'the clipped median of the annulus pixels is {exp}', {'shape': [ny, nx], 'x': xs, 'y': ys, 'r_in': rin, 'r_out': rout})


def interleaved_groups_probe(rep, r, n):
    """(S) groups whose members are interleaved in the input table (A1, B1, A2, B2 ...), each source on its own sky pedestal given in the
    `local_bkg` column: every row is fitted with ITS OWN local background, so the rendered fluxes come back (seed C12-r8 subtracted the
    local background of the row at the same position of the group-sorted table)"""
    from astropy.table import Table
    from photutils.psf import CircularGaussianPRF, PSFPhotometry, SourceGrouper
    for k in range(n):
        yy, xx = np.mgrid[0:48, 0:64]
        npairs = r.choice([2, 3])
        cx = [12 + 20 * j for j in range(npairs)]
        srcs = []                                               # (x, y, flux, pedestal)
        for j in range(npairs):
            ped = [5.0, 20.0, 11.0][j]
            y0 = r.uniform(20, 28)
            srcs.append((cx[j] - 2.2 + r.uniform(-0.3, 0.3), y0 + r.uniform(-0.3, 0.3), r.choice([600.0, 1000.0]), ped))
            srcs.append((cx[j] + 2.2 + r.uniform(-0.3, 0.3), y0 + r.uniform(-0.3, 0.3), r.choice([800.0, 1200.0]), ped))
        order = [2 * j for j in range(npairs)] + [2 * j + 1 for j in range(npairs)]         # A1 B1 (C1) A2 B2 (C2)
        if k % 2:
            order = order[::-1]
        srcs = [srcs[i] for i in order]
        img = np.zeros(xx.shape)
        for j in range(npairs):
            img[:, max(0, cx[j] - 10):cx[j] + 10] += [5.0, 20.0, 11.0][j]
        m = CircularGaussianPRF(fwhm=3.0)
        for (x_, y_, f_, _) in srcs:
            m.x_0, m.y_0, m.flux = x_, y_, f_
            img += m(xx, yy)
        init = Table({'x': [s_[0] + 0.2 for s_ in srcs], 'y': [s_[1] - 0.2 for s_ in srcs], 'flux': [s_[2] * 0.9 for s_ in srcs], 'local_bkg': [s_[3] for s_ in srcs]})
        rp = {'image': img.tolist(), 'init_params': {c_: [float(v) for v in init[c_]] for c_ in init.colnames}, 'grouper_min_separation': 8.0}
        try:
            with warnings.catch_warnings():
                warnings.simplefilter('ignore')
                t = PSFPhotometry(CircularGaussianPRF(fwhm=3.0), (7, 7), grouper=SourceGrouper(8.0), aperture_radius=4, progress_bar=False)(img, init_params=init)
        except Exception as e:                                  # noqa: BLE001
            rep.violation(f'psfphot-raises:interleaved-groups:{type(e).__name__}', f'PSFPhotometry raised {e!r}', rp)
            continue
        rep.case(('interleaved', img.tobytes()[:64], k), True, kind='interleaved-groups')
        rep.probe_only += 1
        gid = [int(v) for v in t['group_id']]
        want = [f_ for (_, _, f_, _) in srcs]
        got = [float(v) for v in t['flux_fit']]
        if len(set(gid)) != npairs or max(np.bincount(gid)[1:]) != 2:
            rep.violation('interleaved-groups:grouping', f'{npairs} pairs 4.4 px apart, 20 px between pairs: group ids {gid}', rp)
        elif not np.allclose(got, want, rtol=2e-3) or not np.allclose(np.asarray(t['local_bkg'], float), [s_[3] for s_ in srcs]):
            rep.violation('interleaved-groups:flux', f'interleaved groups {gid} with per-row local_bkg {[s_[3] for s_ in srcs]}: flux_fit {got}, rendered {want}', rp)


def replay(rep, data):
    run(rep, 'quick')
