"""C11 — Background2D maps are full-size, finite, mask-blind and equivariant (DESIGN §5 C11)."""
import contextlib
import math
import warnings
from fractions import Fraction as F

import numpy as np

import gens
from common import Driver, prove, q, rng

PROP_MODULES = ['PhotVerif.Props.C11']


@contextlib.contextmanager
def bottleneck(on):
    """run with / without the optional bottleneck accelerator (module-level function bindings)"""
    import photutils.background.core as core
    import photutils.background.background_2d as b2d
    import photutils.utils._stats as st
    saved = {(m, n): getattr(m, n) for m in (core, b2d) for n in ('nanmean', 'nanmedian', 'nanstd', 'nanmin') if hasattr(m, n)}
    try:
        if not on:
            for (m, n) in saved:
                setattr(m, n, getattr(np, n))
        elif not st.HAS_BOTTLENECK:
            yield False
            return
        yield True
    finally:
        for (m, n), f in saved.items():
            setattr(m, n, f)


def exact_clip_margin(vals, sigma, maxiters):
    """smallest relative distance of a clipping decision from its threshold (exact rationals) — knife-edge detector"""
    vals = [F(v) for v in vals]
    s2 = F(sigma) ** 2
    cur = list(vals)
    margin = math.inf
    bounds = None
    for it in range(maxiters):
        if not cur:
            bounds = None
            break
        srt = sorted(cur)
        n = len(srt)
        med = srt[n // 2] if n % 2 else (srt[n // 2 - 1] + srt[n // 2]) / 2
        mean = sum(cur) / n
        var = sum((x - mean) ** 2 for x in cur) / n
        bounds = (med, var)
        for x in vals:
            a, b = (x - med) ** 2, s2 * var
            den = max(abs(a), abs(b), F(1, 10 ** 30))
            margin = min(margin, float(abs(a - b) / den)) if a != b else min(margin, 0.0 if var != 0 else math.inf)
        nxt = [x for x in cur if (x - med) ** 2 <= s2 * var]
        if len(nxt) == len(cur):
            break
        cur = nxt
    return margin


def estimators():
    from photutils.background import (MeanBackground, MedianBackground, ModeEstimatorBackground, MMMBackground,
                                      SExtractorBackground, BiweightLocationBackground, StdBackgroundRMS,
                                      MADStdBackgroundRMS, BiweightScaleBackgroundRMS)
    return ([MeanBackground, MedianBackground, ModeEstimatorBackground, MMMBackground, SExtractorBackground, BiweightLocationBackground],
            [StdBackgroundRMS, MADStdBackgroundRMS, BiweightScaleBackgroundRMS])


def gen_case(r, k):
    ny, nx = gens.size(r, 1, 11), gens.size(r, 1, 11)
    t = r.random()
    if t < 0.2:
        by, bx = ny, nx                                    # box == image
    elif t < 0.5:
        by = r.choice([d for d in range(1, ny + 1) if ny % d == 0])
        bx = r.choice([d for d in range(1, nx + 1) if nx % d == 0])
    else:
        by, bx = r.randint(1, ny), r.randint(1, nx)        # padded edge boxes, corner box
    corner = k % 7 == 3
    if corner:
        # both dimensions leave a remainder: the padded corner box is the one box handled as a 2-D array - large enough for clipping to act,
        # with outliers inside it, and kept by exclude_percentile (seed C11-r13 clipped it row by row)
        ny, nx = r.randint(8, 11), r.randint(8, 11)
        by, bx = ny - r.randint(3, 4), nx - r.randint(3, 4)
    data = gens.image(r, ny, nx, special=0.3, palette=0.35)
    if corner:
        data = np.round(np.random.RandomState(r.randrange(2 ** 31)).normal(10, 1, (ny, nx)) * 16) / 16
        for _ in range(r.randint(1, 2)):
            data[r.randrange(by, ny), r.randrange(bx, nx)] = r.choice([64.0, -48.0, 100.5])
    if r.random() < 0.3:                                    # a few strong outliers so that clipping acts
        for _ in range(r.randint(1, 3)):
            data[r.randrange(ny), r.randrange(nx)] = r.choice([64.0, -48.0, 100.5])
    if k % 13 == 0:
        data[:] = gens.dy(r, 2, 6)
    mask = gens.mask(r, ny, nx)
    cov = gens.mask(r, ny, nx) if r.random() < 0.3 else None
    tot = np.zeros((ny, nx), bool) | (mask if mask is not None else False) | (cov if cov is not None else False)
    if tot.mean() > 0.5 and r.random() < 0.8:               # mostly-masked images leave no usable box: keep a few only
        mask, cov = (None if r.random() < 0.5 else ~tot if (~tot).mean() < 0.5 else None), None
    pct = r.choice([0.0, 10.0, 10.0, 25.0, 50.0, 75.0, 90.0, 100.0, 100.0, 70.0, 30.0, 60.0, 80.0])
    sigma = r.choice([None, 3.0, 3.0, 2.0, 1.5, 2.5])
    maxiters = r.choice([1, 2, 3, 10, 10])
    est = r.choice(['mean', 'median', 'sextractor', 'sextractor'])
    if corner:
        mask, cov = None, None
        pct = r.choice([90.0, 100.0, 95.0])
        sigma = r.choice([3.0, 2.0, 2.5])
    return dict(ny=ny, nx=nx, by=by, bx=bx, data=data, mask=mask, cov=cov, pct=pct, sigma=sigma, maxiters=maxiters, est=est,
                rms_own_clip=r.choice([None, None, 1.0, 1.5]))


def replay_of(c, **extra):
    d = {'data': c['data'].tolist(), 'box_size': [c['by'], c['bx']],
         'mask': None if c['mask'] is None else c['mask'].astype(int).tolist(),
         'coverage_mask': None if c['cov'] is None else c['cov'].astype(int).tolist(),
         'exclude_percentile': c['pct'], 'sigma_clip': None if c['sigma'] is None else [c['sigma'], c['maxiters']],
         'bkg_estimator': c['est'], 'filter_size': [1, 1], 'estimators_own_sigma_clip': c.get('rms_own_clip')}
    d.update(extra)
    return d


def make_b2d(c, data=None, **kw):
    from astropy.stats import SigmaClip
    from photutils.background import Background2D, MeanBackground, MedianBackground, SExtractorBackground
    est = {'mean': MeanBackground, 'median': MedianBackground, 'sextractor': SExtractorBackground}[c['est']]()
    sc = None if c['sigma'] is None else SigmaClip(sigma=c['sigma'], maxiters=c['maxiters'])
    args = dict(mask=c['mask'], coverage_mask=c['cov'], exclude_percentile=c['pct'], filter_size=(1, 1), sigma_clip=sc, bkg_estimator=est)
    if c.get('rms_own_clip'):
        # estimators that come with a sigma clip of their own (stronger than Background2D's): Background2D's clip is the only one
        # that counts - the estimator objects are applied to the already selected pixels
        from photutils.background import StdBackgroundRMS
        args['bkgrms_estimator'] = StdBackgroundRMS(sigma_clip=SigmaClip(sigma=c['rms_own_clip'], maxiters=10))
        est.sigma_clip = SigmaClip(sigma=c['rms_own_clip'], maxiters=10)
    args.update(kw)
    with warnings.catch_warnings():
        warnings.simplefilter('ignore')
        return Background2D(c['data'] if data is None else data, (c['by'], c['bx']), **args)


def correspondence(rep, r, ncases):
    drv = Driver()
    lines, cases = [], []
    for k in range(ncases):
        c = gen_case(r, k)
        m = np.zeros((c['ny'], c['nx']), bool)
        if c['mask'] is not None:
            m |= c['mask']
        if c['cov'] is not None:
            m |= c['cov']
        sg = 'none' if c['sigma'] is None else q(c['sigma'])
        lines.append(f"bkgmesh {c['ny']} {c['nx']} {c['by']} {c['bx']} {q(c['pct'])} {sg} {c['maxiters']} {c['est']} | "
                     f"{gens.arr_tokens(c['data'])} | {gens.mask_tokens(m)}")
        cases.append((c, m))
    out = drv.run(lines)
    if out is None:
        rep.tie_broken('model driver failed', drv.error)
        return
    nb = 0
    for ln, o, (c, m) in zip(lines, out, cases):
        rep.traces += 1
        if not o.startswith('ok'):
            nb += 1
            if nb <= 3:
                rep.tie_broken('mesh model rejected the case', {'model': o, 'op': ln[:200]})
            continue
        cells = [t.split() for t in o[3:].split(';')]
        nby, nbx = -(-c['ny'] // c['by']), -(-c['nx'] // c['bx'])
        npix = c['by'] * c['bx']
        thr_f = (1 - (c['pct'] / 100.0)) * npix
        thr_q = (1 - F(c['pct']) / 100) * npix
        partial = (c['ny'] % c['by'] != 0) or (c['nx'] % c['bx'] != 0)
        excluded_any = any(t[0] == 'x' for t in cells)
        rep.case((c['data'].tobytes(), c['by'], c['bx'], c['pct'], c['sigma'], c['maxiters'], c['est'], m.tobytes()),
                 partial or excluded_any, kind=f"{c['est']}:{'pad' if partial else 'exact'}:{'clip' if c['sigma'] else 'noclip'}"
                 f":{'excl' if excluded_any else 'full'}",
                 sample={'shape': [c['ny'], c['nx']], 'box': [c['by'], c['bx']], 'pct': c['pct']})
        if thr_f != float(thr_q) and thr_q.denominator == 1:
            # (1 - p/100) * npix is inexact here although the threshold is an integer: a box with exactly p percent of its pixels
            # masked must still be included (defect F41, fixed) - these cases are compared like all others
            rep.count('integer-threshold-with-inexact-float-formula')
        for bn_on in (True, False):
            with bottleneck(bn_on) as active:
                if not active:
                    rep.count('bottleneck-absent')
                    continue
                try:
                    b = make_b2d(c)
                    raised = None
                except ValueError as e:
                    raised = e
                except Exception as e:                      # noqa: BLE001
                    rep.violation(f'construct-raises:{type(e).__name__}', f'Background2D raised {e!r}', replay_of(c, bottleneck=bn_on))
                    break
                all_excl = all(t[0] == 'x' for t in cells)
                if raised is not None:
                    if not all_excl:
                        rep.tie_broken('implementation rejects a case whose model has usable boxes', {'error': repr(raised), 'case': replay_of(c)})
                    else:
                        rep.count('all-excluded:ValueError')
                    break
                if all_excl:
                    rep.tie_broken('model excludes every box but the implementation built a mesh', {'case': replay_of(c)})
                    break
                nanm = b._mesh_nan_mask
                ngood = np.asarray(b.npixels_mesh)
                with warnings.catch_warnings():
                    warnings.simplefilter('ignore')
                    mesh, rmesh = np.asarray(b.background_mesh, float), np.asarray(b.background_rms_mesh, float)
                if mesh.shape != (nby, nbx):
                    rep.violation('mesh-shape', f'mesh shape {mesh.shape}, expected {(nby, nbx)} (edge boxes padded)', replay_of(c, bottleneck=bn_on))
                    break
                bad = None
                for idx, t in enumerate(cells):
                    i, j = divmod(idx, nbx)
                    vals = c['data'][i * c['by']:(i + 1) * c['by'], j * c['bx']:(j + 1) * c['bx']]
                    mm = m[i * c['by']:(i + 1) * c['by'], j * c['bx']:(j + 1) * c['bx']]
                    good = vals[~mm & np.isfinite(vals)]
                    n_model = int(t[-1])
                    if n_model != int(ngood[i, j]) or (t[0] == 'x') != bool(nanm[i, j]):
                        if c['sigma'] is not None and exact_clip_margin(good.tolist(), c['sigma'], c['maxiters']) < 1e-9:
                            rep.count('skipped:knife-edge-clip')
                            bad = 'skip'
                            break
                        bad = (f'box ({i},{j}): implementation uses {int(ngood[i, j])} pixels, excluded={bool(nanm[i, j])}; the estimator '
                               f'contract (sigma-clipped unmasked finite pixels of the box, exclusion when fewer good pixels than the threshold) gives '
                               f'{n_model} pixels, excluded={t[0] == "x"}')
                        sig = 'box-pixels'
                        break
                    if t[0] == 'x':
                        continue
                    mv, vv = float(F(t[0])), float(F(t[1]))
                    sc = max(1.0, abs(mv), float(np.abs(good).max()) if good.size else 1.0)
                    if not (abs(mesh[i, j] - mv) <= 1e-9 * sc):
                        if c['est'] == 'sextractor' and c['sigma'] is not None and exact_clip_margin(good.tolist(), c['sigma'], c['maxiters']) < 1e-9:
                            bad = 'skip'
                            break
                        bad = f'box ({i},{j}): background_mesh {mesh[i, j]!r} but {c["est"]} of the clipped box pixels is {mv!r}'
                        sig = 'mesh-value'
                        break
                    if not (abs(rmesh[i, j] - math.sqrt(vv)) <= 1e-7 * sc):
                        bad = f'box ({i},{j}): background_rms_mesh {rmesh[i, j]!r} but the std of the clipped box pixels is {math.sqrt(vv)!r}'
                        sig = 'rms-mesh-value'
                        break
                if bad == 'skip':
                    break
                if bad:
                    # the model output is the statement's contract evaluated exactly: a mismatch contradicts the property
                    rep.violation(f'{sig}:{c["est"]}:{"pad" if partial else "exact"}' + ('' if bn_on else ':no-bottleneck'), bad,
                                  replay_of(c, bottleneck=bn_on))
                    break


def idw_correspondence(rep, r, n):
    from photutils.utils import ShepardIDWInterpolator
    from scipy.spatial import cKDTree
    drv = Driver()
    lines, exp = [], []
    for k in range(n):
        npts = r.randint(1, 9)
        pts = set()
        while len(pts) < npts:
            pts.add((r.randint(0, 5), r.randint(0, 5)))
        pts = np.array(sorted(pts), float)
        vals = np.array([gens.dy(r, 2, 6) for _ in range(npts)])
        pos = np.array([[r.choice([r.randint(0, 5), r.uniform(0, 5)]), r.choice([r.randint(0, 5), r.uniform(0, 5)])]])
        nn = r.choice([1, 2, 3, 8, 10])
        power = r.choice([1.0, 2.0, 1.0, 0.5])
        reg = r.choice([0.0, 0.0, 0.25, 1.0])
        f = ShepardIDWInterpolator(pts, vals)
        with warnings.catch_warnings():
            warnings.simplefilter('ignore')
            got = f(pos, n_neighbors=nn, power=power, reg=reg)
        if nn == 1:
            rep.count('idw:n_neighbors=1')
            d, idx = cKDTree(pts).query(pos, k=1)
            if float(np.ravel(got)[0]) != vals[int(np.ravel(idx)[0])]:
                rep.violation('idw-nearest', 'n_neighbors=1 does not return the nearest value', {'points': pts.tolist(), 'values': vals.tolist(), 'pos': pos.tolist()})
            continue
        d, idx = cKDTree(pts).query(pos, k=nn)
        d, idx = d[0], idx[0]
        ok = np.isfinite(d)
        grp = ' | '.join(f'{q(float(dd ** power))} {q(float(vals[ii]))} {1 if dd <= 1e-12 else 0}' for dd, ii in zip(d[ok], idx[ok]))
        lines.append(f'idw {q(reg)} | {grp}')
        exp.append((float(got), vals[idx[ok]], {'points': pts.tolist(), 'values': vals.tolist(), 'pos': pos.tolist(), 'n_neighbors': nn, 'power': power, 'reg': reg}))
    out = drv.run(lines)
    if out is None:
        rep.tie_broken('model driver failed (idw)', drv.error)
        return
    for ln, o, (got, nv, rp) in zip(lines, out, exp):
        rep.traces += 1
        rep.case(('idw', ln), len(nv) > 1, kind='idw')
        if not (nv.min() - 1e-12 <= got <= nv.max() + 1e-12):
            rep.violation('idw-outside-range', f'IDW value {got} outside the range [{nv.min()}, {nv.max()}] of its neighbours', rp)
            continue
        mv = float(F(o[3:])) if o.startswith('ok') else math.nan
        if not (abs(mv - got) <= 1e-12 * max(1.0, abs(mv))):
            rep.tie_broken('IDW model and implementation disagree', {'model': o, 'impl': got, 'case': rp})


def scene(r, ny, nx):
    """smooth gradient + noise + a few sources, float64"""
    yy, xx = np.mgrid[0:ny, 0:nx]
    rs = np.random.RandomState(r.randrange(2 ** 31))
    img = 5.0 + r.uniform(-0.05, 0.05) * xx + r.uniform(-0.05, 0.05) * yy + rs.normal(0, 1.0, (ny, nx))
    for _ in range(r.randint(0, 4)):
        x0, y0 = r.uniform(0, nx), r.uniform(0, ny)
        img += r.uniform(20, 200) * np.exp(-((xx - x0) ** 2 + (yy - y0) ** 2) / (2 * r.uniform(0.8, 2.0) ** 2))
    return img


def probes(rep, r, n):
    """(S) the property's relations on the implementation, every estimator x interpolator x filter"""
    from astropy.stats import SigmaClip
    from photutils.background import Background2D, BkgIDWInterpolator, BkgZoomInterpolator
    bkgs, rmss = estimators()
    for k in range(n):
        ny, nx = r.randint(4, 40), r.randint(4, 40)
        by, bx = r.randint(2, min(ny, 12)), r.randint(2, min(nx, 12))
        if r.random() < 0.15:
            by, bx = ny, nx
        img = scene(r, ny, nx)
        mask = None
        if r.random() < 0.6:
            mask = np.zeros((ny, nx), bool)
            for _ in range(r.randint(1, 3)):
                y0, x0 = r.randrange(ny), r.randrange(nx)
                mask[y0:y0 + r.randint(1, by + 2), x0:x0 + r.randint(1, bx + 2)] = True
        cov = None
        if r.random() < 0.4:
            cov = np.zeros((ny, nx), bool)
            if r.random() < 0.5:
                cov[:, :r.randint(1, max(1, nx // 3))] = True
            else:
                cov[r.randrange(ny):, r.randrange(nx):] = True
        if r.random() < 0.45:
            img[r.randrange(ny), r.randrange(nx)] = r.choice([np.nan, np.inf, -np.inf])
            if cov is not None and r.random() < 0.5:
                mask = None                         # coverage mask alone + automatically masked non-finite pixels
        Be, Re = bkgs[k % len(bkgs)], rmss[(k // len(bkgs)) % len(rmss)]
        interp_name = r.choice(['zoom', 'zoom', 'idw'])
        fs = r.choice([(1, 1), (3, 3), (3, 3), (5, 3), (1, 3)])
        fthr = r.choice([None, None, 5.0, 5.5])
        pct = r.choice([10.0, 10.0, 0.0, 0.0, 50.0, 100.0, 30.0])
        fill = r.choice([0.0, -7.5, 3.25])
        sigma = r.choice([3.0, 3.0, None, 2.5])
        bn_on = r.random() < 0.5

        def build(data, mask=mask, cov=cov):
            interp = BkgZoomInterpolator() if interp_name == 'zoom' else BkgIDWInterpolator()
            sc = None if sigma is None else SigmaClip(sigma=sigma, maxiters=10)
            with warnings.catch_warnings():
                warnings.simplefilter('ignore')
                # every fourth scene hands the masks over as 0/1 integer arrays (F78: an integer coverage_mask was used as an index array)
                as_given = (lambda m_: m_) if k % 4 != 1 else (lambda m_: None if m_ is None else m_.astype([np.uint8, np.int64][(k // 4) % 2]))
                b = Background2D(data, (by, bx), mask=as_given(mask), coverage_mask=as_given(cov), fill_value=fill, exclude_percentile=pct,
                                 filter_size=fs, filter_threshold=fthr, sigma_clip=sc, bkg_estimator=Be(), bkgrms_estimator=Re(),
                                 interpolator=interp)
                return b, np.asarray(b.background), np.asarray(b.background_rms), np.asarray(b.background_mesh), np.asarray(b.background_rms_mesh)

        rp = {'data': img.tolist(), 'box_size': [by, bx], 'mask': None if mask is None else mask.astype(int).tolist(),
              'coverage_mask': None if cov is None else cov.astype(int).tolist(), 'fill_value': fill, 'exclude_percentile': pct,
              'filter_size': list(fs), 'filter_threshold': fthr, 'sigma': sigma, 'bkg_estimator': Be.__name__, 'bkgrms_estimator': Re.__name__,
              'interpolator': interp_name, 'bottleneck': bn_on}
        tag = f'{Be.__name__}:{Re.__name__}:{interp_name}'
        cov0, mask0 = (None if cov is None else cov.copy()), (None if mask is None else mask.copy())
        with bottleneck(bn_on) as active:
            if not active:
                continue
            try:
                b, bg, rms, mesh, rmesh = build(img)
            except ValueError as e:
                if 'All boxes contain' in str(e):
                    # a full (unpadded) box with every pixel finite and unmasked and no clipping has no "masked" pixel at all:
                    # it must be included for every exclude_percentile in [0, 100]
                    tm = ~np.isfinite(img)
                    if mask is not None:
                        tm |= mask
                    if cov is not None:
                        tm |= cov
                    full_good = any(not tm[i:i + by, j:j + bx].any() for i in range(0, ny - by + 1, by) for j in range(0, nx - bx + 1, bx))
                    if sigma is None and full_good:
                        rep.violation(f'full-box-excluded:pct={pct:g}', f'exclude_percentile={pct}: a completely unmasked full box exists but '
                                      f'Background2D excluded every box ({e})', rp)
                    else:
                        rep.count('probe:all-boxes-excluded')
                    continue
                rep.violation(f'construct-raises:ValueError:{tag}', f'Background2D raised {e!r}', rp)
                continue
            except Exception as e:                              # noqa: BLE001
                rep.violation(f'construct-raises:{type(e).__name__}:{tag}', f'Background2D raised {e!r}', rp)
                continue
            rep.case(('probe', img.tobytes(), by, bx, tag, fs, pct), True, kind=f'probe:{tag}')
            rep.probe_only += 1
            ok = True
            if (cov is not None and not np.array_equal(cov, cov0)) or (mask is not None and not np.array_equal(mask, mask0)):
                rep.violation(f'input-mask-modified:{tag}', "Background2D modified the caller's mask / coverage_mask", rp)
                continue
            if bg.shape != img.shape or rms.shape != img.shape:
                rep.violation(f'map-shape:{tag}', f'map shape {bg.shape}/{rms.shape} != data shape {img.shape}', rp)
                continue
            if not (np.isfinite(bg).all() and np.isfinite(rms).all()):
                rep.violation(f'map-nonfinite:{tag}', 'background / background_rms contains non-finite values', rp)
                continue
            if cov is not None and not (np.all(bg[cov] == fill) and np.all(rms[cov] == fill)):
                rep.violation(f'coverage-fill:{tag}', 'coverage_mask pixels are not exactly fill_value', rp)
                continue
            lo, hi = mesh.min(), mesh.max()
            inside = bg if cov is None else bg[~cov]
            if inside.size and not (inside.min() >= lo - 1e-9 * max(1, abs(lo)) and inside.max() <= hi + 1e-9 * max(1, abs(hi))):
                rep.violation(f'map-outside-mesh-range:{tag}', f'background map range [{inside.min()}, {inside.max()}] leaves the mesh range [{lo}, {hi}]', rp)
                continue
            # automatically masked non-finite pixels behave exactly like explicitly masked ones (and leave the caller's masks alone)
            nonfin = ~np.isfinite(img)
            if nonfin.any() and not (cov is not None and cov[nonfin].all()):
                m2 = nonfin.copy() if mask is None else (mask | nonfin)
                cov_snap = None if cov is None else cov.copy()
                try:
                    _, bg3, rms3, mesh3, _ = build(np.where(nonfin, 0.0, img), mask=m2)
                    if not (np.array_equal(bg, bg3) and np.array_equal(rms, rms3) and np.array_equal(mesh, mesh3)):
                        rep.violation(f'nonfinite-not-like-masked:{tag}', 'a non-finite pixel gives other maps than the same pixel masked explicitly '
                                      f'(max |difference| {float(np.max(np.abs(bg - bg3))):.4g})', rp)
                        continue
                except Exception as e:                          # noqa: BLE001
                    rep.violation(f'nonfinite-not-like-masked-raises:{type(e).__name__}:{tag}', f'explicitly masked non-finite pixels made the call raise {e!r}', rp)
                    continue
                if cov is not None and not np.array_equal(cov, cov_snap):
                    rep.violation(f'coverage-mask-modified:{tag}', "Background2D modified the caller's coverage_mask", rp)
                    continue
            # mask-blindness: overwrite the values under the masks
            total = np.zeros((ny, nx), bool)
            if mask is not None:
                total |= mask
            if cov is not None:
                total |= cov
            if total.any():
                alt = img.copy()
                alt[total] = np.where(np.arange(total.sum()) % 3 == 0, np.nan, np.where(np.arange(total.sum()) % 3 == 1, 1e30, -12345.0))
                try:
                    _, bg2, rms2, mesh2, rmesh2 = build(alt)
                    if not (np.array_equal(bg, bg2) and np.array_equal(rms, rms2) and np.array_equal(mesh, mesh2)):
                        rep.violation(f'mask-not-blind:{tag}', 'changing the values stored under masked / coverage-masked pixels changed the maps', rp)
                        ok = False
                except Exception as e:                          # noqa: BLE001
                    rep.violation(f'mask-not-blind-raises:{type(e).__name__}:{tag}', f'values under the mask made the call raise {e!r}', rp)
                    ok = False
            if not ok:
                continue
            # equivariance: x2^m is exact in floating point; +c and xk to tolerance
            scale_tol = 1e-8 * max(1.0, float(np.abs(mesh).max()))
            try:
                _, bgs, rmss_, _, _ = build(img * 4.0)
                _, bgc, rmsc, _, _ = build(img + 16.0)
                _, bgk, rmsk, _, _ = build(img * 3.7)
                # extreme but legitimate units: tiny flux scale (2^-30), large scale (2^20), large pedestal (2^17)
                _, bgt, rmst, _, _ = build(img * 2.0 ** -30)
                _, bgl, rmsl, _, _ = build(img * 2.0 ** 20)
                _, bgp, rmsp, _, _ = build(img + 2.0 ** 17)
            except Exception as e:                              # noqa: BLE001
                rep.violation(f'equivariance-raises:{type(e).__name__}:{tag}', f'shifted / scaled data made the call raise {e!r}', rp)
                continue
            un = np.ones_like(bg, bool) if cov is None else ~cov
            if fthr is None:         # filter_threshold is an absolute level: not equivariant by design
                if not (np.allclose(bgs[un], 4.0 * bg[un], rtol=0, atol=4 * scale_tol) and np.allclose(rmss_[un], 4.0 * rms[un], rtol=0, atol=4 * scale_tol)):
                    rep.violation(f'scale-equivariance:{tag}', 'multiplying the data by 4 did not scale background and RMS by 4', rp)
                    continue
                if not (np.allclose(bgk[un], 3.7 * bg[un], rtol=0, atol=4 * scale_tol) and np.allclose(rmsk[un], 3.7 * rms[un], rtol=0, atol=4 * scale_tol)):
                    rep.violation(f'scale-equivariance:{tag}', 'multiplying the data by 3.7 did not scale background and RMS by 3.7', rp)
                    continue
                if not (np.allclose(bgc[un], bg[un] + 16.0, rtol=0, atol=4 * scale_tol) and np.allclose(rmsc[un], rms[un], rtol=0, atol=4 * scale_tol)):
                    rep.violation(f'shift-equivariance:{tag}', 'adding 16 to the data did not add 16 to the background / left the RMS', rp)
                    continue
                bad_ext = None
                for nm_, k_, a_, b_ in (('2^-30', 2.0 ** -30, bgt, rmst), ('2^20', 2.0 ** 20, bgl, rmsl)):
                    if not (np.allclose(a_[un], k_ * bg[un], rtol=0, atol=4 * scale_tol * k_) and np.allclose(b_[un], k_ * rms[un], rtol=0, atol=4 * scale_tol * k_)):
                        bad_ext = f'multiplying the data by {nm_} did not scale background and RMS by {nm_}'
                if bad_ext is None and not (np.allclose(bgp[un], bg[un] + 2.0 ** 17, rtol=0, atol=1e-6) and np.allclose(rmsp[un], rms[un], rtol=0, atol=1e-6)):
                    bad_ext = 'adding 2^17 to the data did not add 2^17 to the background / left the RMS'
                if bad_ext:
                    rep.violation(f'equivariance-extreme-scale:{tag}', bad_ext, rp)
                    continue
            # constant image reproduced exactly
            cval = r.choice([0.0, 7.25, -3.5, 1024.0])
            const = np.full((ny, nx), cval)
            try:
                _, bg0, rms0, _, _ = build(const)
            except Exception as e:                              # noqa: BLE001
                rep.violation(f'constant-raises:{type(e).__name__}:{tag}', f'constant image made the call raise {e!r}', rp)
                continue
            if not (np.all(bg0[un] == cval) and np.all(rms0[un] == 0.0)):
                rep.violation(f'constant-not-exact:{tag}', f'constant image {cval}: background range [{bg0[un].min()}, {bg0[un].max()}], '
                              f'rms max {rms0[un].max()}', rp)


def float32_constant_probe(rep, r, n):
    """constant float32 frames with large boxes: the statistics must be accumulated accurately whatever accelerator is dispatched to
    (a float32 accumulator over thousands of pixels is off by hundreds of ulp).  Tolerance: 16 float32 ulp (numpy's pairwise float32
    mean is not exact; observed <= 5 ulp on the pinned tree)."""
    import warnings
    from astropy.stats import SigmaClip
    import photutils.background as pb
    for _ in range(n):
        cval = np.float32(r.choice([30000.7, 1000.1, 0.1, 65000.3, -2047.9]))
        by, bx = r.randint(48, 110), r.randint(48, 110)
        ny, nx = by * r.randint(1, 2) + r.choice([0, 0, 7]), bx * r.randint(1, 2) + r.choice([0, 0, 5])
        be = r.choice([pb.MeanBackground, pb.MedianBackground, pb.SExtractorBackground, pb.MMMBackground])
        re_ = r.choice([pb.StdBackgroundRMS, pb.MADStdBackgroundRMS])
        sc = r.choice([None, 3.0])
        rp = dict(kind='float32-constant', value=float(cval), shape=[ny, nx], box=[by, bx], bkg=be.__name__, rms=re_.__name__, sigma=sc)
        rep.case(('f32const', float(cval), ny, nx, by, bx, be.__name__, re_.__name__, sc), True, kind='float32-constant')
        rep.probe_only += 1
        try:
            with warnings.catch_warnings():
                warnings.simplefilter('ignore')
                b = pb.Background2D(np.full((ny, nx), cval, dtype=np.float32), (by, bx), bkg_estimator=be(), bkgrms_estimator=re_(),
                                    sigma_clip=None if sc is None else SigmaClip(sc))
                bg, rms = np.asarray(b.background, float), np.asarray(b.background_rms, float)
        except Exception as e:                                  # noqa: BLE001
            rep.violation(f'constant-raises:{type(e).__name__}:float32', f'constant float32 image made the call raise {e!r}', rp)
            continue
        ulp = float(np.spacing(np.abs(cval)))
        if not (np.all(np.abs(bg - float(cval)) <= 16 * ulp) and np.all(np.abs(rms) <= 16 * ulp)):
            rep.violation('constant-not-exact:float32', f'constant float32 image {cval}: background off by up to {np.abs(bg - float(cval)).max() / ulp:.0f} ulp, '
                          f'rms up to {np.abs(rms).max() / ulp:.0f} ulp (float32 ulp)', rp)


def filter_threshold_probe(rep, r, n):
    """(S) filter_threshold is a level of the BACKGROUND mesh: with filter_size > 1 only the boxes whose background value exceeds it are median
    filtered, in the background mesh and - the same boxes - in the RMS mesh; every other box keeps the value of the unfiltered meshes.  Images
    with a background near 0 and an RMS near 5, so that the threshold lies between the two meshes (seed C11-r12 compared the threshold with the
    minimum of the mesh being filtered)"""
    import warnings
    import photutils.background as pb
    for k in range(n):
        rs = np.random.RandomState(r.randrange(2 ** 31))
        by, bx = r.choice([(8, 8), (10, 8), (8, 12)])
        ny, nx = by * r.randint(4, 6), bx * r.randint(4, 6)
        img = rs.normal(0.0, 5.0, (ny, nx))
        for _ in range(r.randint(1, 3)):                          # a few bright boxes
            j, i = r.randrange(ny // by), r.randrange(nx // bx)
            img[j * by:(j + 1) * by, i * bx:(i + 1) * bx] += r.choice([8.0, 15.0])
        fthr = r.choice([3.0, 4.0])
        fs = r.choice([(3, 3), (3, 5)])
        kw = dict(sigma_clip=None, bkg_estimator=pb.MeanBackground(), bkgrms_estimator=pb.StdBackgroundRMS())
        rp = {'kind': 'filter-threshold', 'data': img.tolist(), 'box_size': [by, bx], 'filter_size': list(fs), 'filter_threshold': fthr}
        try:
            with warnings.catch_warnings():
                warnings.simplefilter('ignore')
                b0 = pb.Background2D(img, (by, bx), filter_size=(1, 1), **kw)
                b1 = pb.Background2D(img, (by, bx), filter_size=fs, filter_threshold=fthr, **kw)
                m0, r0, m1, r1 = (np.asarray(v, float) for v in (b0.background_mesh, b0.background_rms_mesh, b1.background_mesh, b1.background_rms_mesh))
        except Exception as e:                                  # noqa: BLE001
            rep.violation(f'construct-raises:{type(e).__name__}:filter-threshold', f'Background2D raised {e!r}', rp)
            continue
        rep.case(('fthr', img.tobytes()[:64], fthr, fs), True, kind='filter-threshold')
        rep.probe_only += 1
        if not (fthr >= m0.min()):
            continue
        keep = m0 <= fthr
        if not (np.array_equal(m1[keep], m0[keep]) and np.array_equal(r1[keep], r0[keep])):
            nb_, nr_ = int(np.count_nonzero(m1[keep] != m0[keep])), int(np.count_nonzero(r1[keep] != r0[keep]))
            rep.violation('filter-threshold-not-selective', f'filter_threshold={fthr} (background mesh range [{m0.min():.3g}, {m0.max():.3g}], RMS mesh minimum {r0.min():.3g}): '
                          f'{nb_} background and {nr_} RMS mesh values of boxes at or below the threshold changed under filter_size={fs}', rp)


def integer_constant_probe(rep, r, n):
    """constant frames of integer dtype, values beyond the float32 integer range (2**24) included: the constant comes back exactly, RMS 0
    (defect F65: integer data were copied to float32)"""
    import warnings
    import photutils.background as pb
    for k in range(n):
        dt, cval = [(np.int32, 16777217), (np.int64, 2 ** 31 + 1), (np.uint16, 65535), (np.int64, -(2 ** 26) - 3), (np.uint32, 2 ** 25 + 1), (np.int16, -32767)][k % 6]
        by, bx = r.randint(8, 20), r.randint(8, 20)
        ny, nx = by * r.randint(2, 3) + r.choice([0, 3]), bx * r.randint(2, 3) + r.choice([0, 5])
        be = r.choice([pb.MeanBackground, pb.MedianBackground, pb.SExtractorBackground])
        if k == 2:
            # corpus case (defect F74): the float32 mean of 323 copies of 65535 is 65534.996
            by, bx, ny, nx, be = 19, 17, 57, 39, pb.MeanBackground
        rp = dict(kind='integer-constant', value=int(cval), dtype=np.dtype(dt).name, shape=[ny, nx], box=[by, bx], bkg=be.__name__)
        rep.case(('intconst', int(cval), np.dtype(dt).name, ny, nx, by, bx, be.__name__), True, kind=f'integer-constant:{np.dtype(dt).name}')
        rep.probe_only += 1
        try:
            with warnings.catch_warnings():
                warnings.simplefilter('ignore')
                b = pb.Background2D(np.full((ny, nx), cval, dtype=dt), (by, bx), bkg_estimator=be())
                bg, rms, med = np.asarray(b.background), np.asarray(b.background_rms), float(b.background_median)
        except Exception as e:                                  # noqa: BLE001
            rep.violation(f'constant-raises:{type(e).__name__}:{np.dtype(dt).name}', f'constant {np.dtype(dt).name} image made the call raise {e!r}', rp)
            continue
        if not (np.all(bg.astype(object) == int(cval)) and med == float(cval) and np.all(rms == 0)):
            rep.violation(f'constant-not-exact:integer:{np.dtype(dt).name}', f'constant {np.dtype(dt).name} image {cval}: background range [{bg.min()}, {bg.max()}], '
                          f'background_median {med!r}, rms max {rms.max()}', rp)


def run(rep, tier):
    thorough = tier == 'thorough'
    scale = 12 if thorough else 1
    rep.rule = ('mesh: images 1..11 px per side, box sizes dividing / not dividing the image / equal to it, dyadic data with plateaus, outliers and '
                'NaN/inf, masks + coverage masks, exclude_percentile 0..100, sigma None/1.5..3, maxiters 1..10, Mean/Median/SExtractor estimators, '
                'bottleneck on and off; compared per box with the exact model (value 1e-9, pixel counts and exclusion exactly). '
                'Probes: 4..40 px scenes (gradient + noise + sources), every background x RMS estimator class, zoom and IDW interpolators, '
                'filter sizes/thresholds. Non-trivial = padded edge boxes or an excluded box present.')
    rep.assumptions += ['astropy.stats.SigmaClip is modelled (final bounds applied to the original sample), not verified',
                        'scipy.ndimage.zoom and cKDTree are oracles; only the clip / convex-combination envelope is proved',
                        'float rounding inside the statistics is compared to 1e-9; clipping decisions within 1e-9 of their threshold are skipped and counted',
                        'ModeEstimator / MMM / biweight estimators and MAD / biweight RMS are probed on the implementation only']
    rep.lean = prove(PROP_MODULES)
    if not rep.lean.ok:
        scale *= 3
    r = rng('C11')
    correspondence(rep, r, 220 * scale)
    idw_correspondence(rep, r, 80 * scale)
    probes(rep, r, 36 * scale)
    float32_constant_probe(rep, r, 16 * scale)
    integer_constant_probe(rep, r, 6 * scale)
    filter_threshold_probe(rep, r, 6 * scale)


def replay(rep, data):
    run(rep, 'quick')
