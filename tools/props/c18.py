"""C18 — rendered model images are the exact superposition of their sources (DESIGN §5 C18)."""
import math
import warnings
from fractions import Fraction as F

import numpy as np

from common import Driver, prove, q, rng

PROP_MODULES = ['PhotVerif.Props.C18']


def make_model(r, kind):
    from astropy.modeling.models import Gaussian2D, Const2D
    from photutils.psf import CircularGaussianPRF, GaussianPSF, ImagePSF
    if kind == 'gauss2d':
        return Gaussian2D(amplitude=1, x_mean=0, y_mean=0, x_stddev=1.3, y_stddev=0.9, theta=0.4), ('x_mean', 'y_mean', 'amplitude')
    # model_shape / psf_shape override the bounding box: with a small bbox_factor the requested windows extend well beyond the box
    # (seed C18-r13 evaluated the model with_bounding_box=True inside the window)
    small = {} if r.random() < 0.5 else {'bbox_factor': r.choice([1.0, 2.0])}
    if kind == 'prf':
        return CircularGaussianPRF(flux=1, fwhm=2.1, **small), ('x_0', 'y_0', 'flux')
    if kind == 'gausspsf':
        return GaussianPSF(flux=1, x_fwhm=2.5, y_fwhm=1.7, theta=30, **small), ('x_0', 'y_0', 'flux')
    if kind == 'imagepsf':
        yy, xx = np.mgrid[-4:5, -4:5]
        d = np.exp(-(xx ** 2 + yy ** 2) / 4.0)
        return ImagePSF(d / d.sum()), ('x_0', 'y_0', 'flux')
    if kind == 'compound':
        m = Gaussian2D(1, 0, 0, 1.2, 1.2) + Const2D(0.25)
        return m, ('x_mean_0', 'y_mean_0', 'amplitude_0')
    raise ValueError(kind)


def gen_table(r, shape, names, nrows, unit=None):
    from astropy.table import QTable
    import astropy.units as u
    ny, nx = shape
    xs, ys, fl, ms, lb = [], [], [], [], []
    for _ in range(nrows):
        t = r.random()
        if t < 0.55:
            x, y = r.uniform(0, nx - 1), r.uniform(0, ny - 1)
        elif t < 0.8:
            x, y = r.choice([-0.5, 0.0, nx - 1.0, nx - 0.5, -2.5, nx + 1.5]), r.uniform(-1, ny)
        else:
            x, y = r.choice([-30.0, nx + 25.0]), r.choice([-40.0, ny + 12.5, 3.0])
        if r.random() < 0.3:
            x, y = round(x * 2) / 2, round(y * 2) / 2
        xs.append(x)
        ys.append(y)
        fl.append(r.choice([1.0, 2.5, 10.0, 0.0]))
        ms.append(r.choice([3, 4, 5, 7, 8]))
        lb.append(r.choice([0.0, 0.0, 0.5, -0.25]))
    t = QTable()
    t[names[0]] = xs
    t[names[1]] = ys
    t[names[2]] = np.array(fl) * (unit if unit is not None else 1)
    return t, ms, lb


def run(rep, tier):
    from photutils.datasets import make_model_image
    import astropy.units as u
    thorough = tier == 'thorough'
    scale = 15 if thorough else 1
    rep.rule = ('tables of 0-5 rows with positions inside / on the edge / far off the image (incl. row 0 off-image), half-integer positions, '
                'scalar and per-row model_shape (odd and even), local_bkg, parameter-name maps, unit-ful fluxes; models: Gaussian2D, '
                'CircularGaussianPRF, GaussianPSF, ImagePSF, compound. The Lean accumulation model is fed the full-frame evaluation of the real model per row. '
                'Non-trivial = at least one row overlaps and at least one row is clipped or skipped.')
    rep.assumptions += ['the model evaluation itself (astropy/photutils models) is an oracle supplied by the harness',
                        'float accumulation order is not modelled (1e-12 relative)', 'discretize methods other than "center" are probed only']
    rep.lean = prove(PROP_MODULES)
    if not rep.lean.ok:
        scale *= 3
    r = rng('C18')
    drv = Driver()
    lines, checks = [], []
    kinds = ['gauss2d', 'prf', 'gausspsf', 'imagepsf', 'compound']
    for k in range(90 * scale):
        kind = kinds[k % len(kinds)]
        model, names = make_model(r, kind)
        ny, nx = r.randint(1, 11), r.randint(1, 11)
        nrows = r.randint(0, 5)
        unit = u.Jy if (r.random() < 0.3 and kind in ('prf', 'gausspsf', 'imagepsf')) else None
        tbl, ms, lb = gen_table(r, (ny, nx), names, nrows, unit)
        per_row_shape = r.random() < 0.4
        with_bkg = r.random() < 0.5
        if per_row_shape and nrows:
            tbl['model_shape'] = ms
        if with_bkg and nrows:
            tbl['local_bkg'] = np.array(lb) * (unit if unit is not None else 1)
        else:
            lb = [0.0] * nrows
        mshape = ms[0] if nrows else 5
        kw = dict(x_name=names[0], y_name=names[1])
        decoy = None
        if nrows and r.random() < 0.3:
            # params_map takes precedence over a column that happens to be named like the model parameter
            decoy = names[2] + '_fit'
            tbl[decoy] = tbl[names[2]]
            tbl[names[2]] = tbl[names[2]] * 3 + (1.0 if unit is None else 1.0 * unit)
            kw['params_map'] = {names[2]: decoy}
        if not (per_row_shape and nrows):
            kw['model_shape'] = mshape
        elif r.random() < 0.4:
            # a model_shape column AND the keyword: the keyword is documented to be ignored (each row keeps its own window)
            kw['model_shape'] = r.choice([3, 15, (5, 9)])
        # discretisation: pixel-centre sampling (default), bilinear interpolation of the corner values, or sub-sampling by a factor
        dmethod = r.choice(['center', 'center', 'center', 'interp', 'oversample']) if unit is None else 'center'
        dfactor = r.choice([1, 3, 4, 10])
        if dmethod != 'center':
            kw['discretize_method'] = dmethod
            if dmethod == 'oversample':
                kw['discretize_oversample'] = dfactor
        replay = {'model': kind, 'shape': [ny, nx], 'table': {c: np.asarray(getattr(tbl[c], 'value', tbl[c])).tolist() for c in tbl.colnames},
                  'unit': None if unit is None else 'Jy', 'kwargs': {kk: vv for kk, vv in kw.items()}}
        snap_params = {p: np.array(getattr(model, p).value) for p in model.param_names}
        snap_tbl = tbl.copy()
        try:
            with warnings.catch_warnings():
                warnings.simplefilter('ignore')
                img = make_model_image((ny, nx), model, tbl, **kw)
        except Exception as e:
            rep.violation(f'make_model_image-raises:{type(e).__name__}' + (':unit' if unit is not None else ''),
                          f'make_model_image raised {e!r}', replay)
            continue
        # inputs untouched
        if any(not np.array_equal(snap_params[p], getattr(model, p).value) for p in model.param_names) or \
                any(not np.array_equal(np.asarray(getattr(snap_tbl[c], 'value', snap_tbl[c])), np.asarray(getattr(tbl[c], 'value', tbl[c])))
                    for c in snap_tbl.colnames) or tbl.colnames != snap_tbl.colnames:
            rep.violation('inputs-modified', 'make_model_image modified the input model or table', replay)
            continue
        # per-row full-frame evaluation of the real model (oracle for `val`)
        yy, xx = np.mgrid[0:ny, 0:nx]
        groups = []
        overlap_any, unit_expected, clipped = False, False, False
        for i in range(nrows):
            m = model.copy()
            for pn in names:
                setattr(m, pn, tbl[decoy if (decoy and pn == names[2]) else pn][i])
            with warnings.catch_warnings():
                warnings.simplefilter('ignore')
                if dmethod == 'center':
                    v = m(xx, yy)
                else:
                    # the discretised value of a pixel does not depend on the window it is rendered in: full-frame reference
                    from astropy.convolution import discretize_model
                    v = discretize_model(m, (0, nx), (0, ny), mode='linear_interp' if dmethod == 'interp' else 'oversample',
                                         **({'factor': dfactor} if dmethod == 'oversample' else {}))
            vv = np.asarray(getattr(v, 'value', v), float)
            sy = sx = (ms[i] if per_row_shape else mshape)
            x0 = float(getattr(tbl[names[0]][i], 'value', tbl[names[0]][i]))
            y0 = float(getattr(tbl[names[1]][i], 'value', tbl[names[1]][i]))
            groups.append(f'{q(x0)} {q(y0)} {sy} {sx} {q(lb[i])} {1 if unit is not None else 0} | ' + ' '.join(q(t) for t in vv.ravel()))
            lo_y, lo_x = math.ceil(y0 - sy / 2), math.ceil(x0 - sx / 2)
            ov = (lo_y + sy > 0 and lo_y < ny and lo_x + sx > 0 and lo_x < nx)
            overlap_any |= ov
            clipped |= (not ov) or lo_y < 0 or lo_x < 0 or lo_y + sy > ny or lo_x + sx > nx
            unit_expected |= (ov and unit is not None)
        rep.case((kind, ny, nx, tuple(map(tuple, [np.asarray(getattr(tbl[c], 'value', tbl[c])).tolist() for c in tbl.colnames]))),
                 overlap_any and clipped, kind=f'{kind}:rows{min(nrows, 3)}' + (':unit' if unit is not None else '') + (':params_map' if decoy else '') + ('' if dmethod == 'center' else ':' + dmethod),
                 sample={'model': kind, 'shape': [ny, nx], 'nrows': nrows, 'per_row_shape': per_row_shape})
        has_unit = hasattr(img, 'unit')
        # (S) units regardless of which rows overlap
        if unit is not None and nrows and not has_unit:
            rep.violation('units-lost' + ('' if overlap_any else ':no-row-overlaps'), 'unit-ful sources but the image carries no unit'
                          + ('' if overlap_any else ' (no row overlaps the image)'), replay)
            continue
        lines.append(f'render {ny} {nx} | ' + ' | '.join(groups) if groups else f'render {ny} {nx}')
        checks.append((np.asarray(getattr(img, 'value', img), float), has_unit, replay, nrows, tbl, model, kw, (ny, nx)))
    out = drv.run(lines)
    if out is None:
        rep.tie_broken('model driver failed', drv.error)
        out = []
    nb = 0
    for ln, o, (img, has_unit, replay, nrows, tbl, model, kw, shape) in zip(lines, out, checks):
        rep.traces += 1
        if not o.startswith('ok'):
            nb += 1
            if nb <= 3:
                rep.tie_broken('render model rejected the case', {'model': o, 'op': ln[:200]})
            continue
        flag, px = o[3:].split('|')
        mv = np.array([float(F(t)) for t in px.split()]).reshape(img.shape) if img.size else img
        scale_ = max(1.0, float(np.abs(mv).max()) if mv.size else 1.0)
        if not np.allclose(img, mv, rtol=0, atol=1e-12 * scale_):
            # the model output IS the statement's superposition of the oracle values: a mismatch contradicts the property
            bad = np.unravel_index(np.argmax(np.abs(img - mv)), img.shape)
            rep.violation('not-superposition', f'pixel {tuple(int(b) for b in bad)}: image {img[bad]} but the sum over rows of '
                          f'(model + local_bkg) on the clipped windows is {mv[bad]}', replay)
            continue
        if bool(int(flag)) != has_unit:
            nb += 1
            if nb <= 3:
                rep.tie_broken('units flag of the model and implementation disagree', {'model': flag, 'impl': has_unit, 'case': replay})
        # (S) row-order invariance and additivity on the implementation
        from photutils.datasets import make_model_image
        if nrows >= 2:
            with warnings.catch_warnings():
                warnings.simplefilter('ignore')
                try:
                    rev = make_model_image(shape, model, tbl[::-1], **kw)
                    a = make_model_image(shape, model, tbl[:1], **kw)
                    b = make_model_image(shape, model, tbl[1:], **kw)
                except Exception as e:
                    rep.violation(f'reorder-or-split-raises:{type(e).__name__}', f'rendering a reordered / split table raised {e!r}', replay)
                    continue
            g = lambda z: np.asarray(getattr(z, 'value', z), float)
            if not np.allclose(g(rev), img, rtol=0, atol=1e-12 * scale_):
                rep.violation('row-order-dependent', 'reversing the table rows changed the image', replay)
            elif not np.allclose(g(a) + g(b), img, rtol=0, atol=1e-12 * scale_):
                rep.violation('not-additive', 'image of the concatenated table differs from the sum of the two images', replay)
    psfphot_images(rep, r, 3 * scale)
    iterative_images(rep, r, 3 * scale)
    bbox_window_probe(rep, r, 6 * scale)


def psfphot_images(rep, r, n):
    """PSFPhotometry.make_model_image / make_residual_image: residual == data - model exactly"""
    from astropy.table import Table
    from photutils.psf import PSFPhotometry, CircularGaussianPRF
    yy, xx = np.mgrid[0:31, 0:33]
    for _ in range(n):
        srcs = [(r.uniform(5, 27), r.uniform(5, 25), r.uniform(100, 500)) for _ in range(3)]
        img = np.zeros((31, 33))
        for x, y, f in srcs:
            img += CircularGaussianPRF(flux=f, x_0=x, y_0=y, fwhm=2.5)(xx, yy)
        phot = PSFPhotometry(CircularGaussianPRF(fwhm=2.5), (5, 5), aperture_radius=4, progress_bar=False)
        with warnings.catch_warnings():
            warnings.simplefilter('ignore')
            phot(img, init_params=Table({'x': [s[0] for s in srcs], 'y': [s[1] for s in srcs]}))
            mod = phot.make_model_image(img.shape, psf_shape=(9, 9))
            res = phot.make_residual_image(img, psf_shape=(9, 9))
        rep.case(('psfphot', img.tobytes()), True, kind='psfphot-model/residual')
        rep.probe_only += 1
        if not np.array_equal(res, img - mod):
            rep.violation('residual-ne-data-minus-model', 'make_residual_image != data - make_model_image', {})
            continue
        # the same with a sky pedestal and a local-background estimator, for every container the data may arrive in
        import astropy.units as u
        from astropy.nddata import NDData
        from photutils.background import LocalBackground
        sky = r.choice([3.0, 7.5])
        img2 = img + sky
        ph2 = PSFPhotometry(CircularGaussianPRF(fwhm=2.5), (5, 5), aperture_radius=4, progress_bar=False, localbkg_estimator=LocalBackground(5, 8))
        with warnings.catch_warnings():
            warnings.simplefilter('ignore')
            ph2(img2, init_params=Table({'x': [s[0] for s in srcs], 'y': [s[1] for s in srcs]}))
            for inc in (True, False):
                mod2 = ph2.make_model_image(img2.shape, psf_shape=(9, 9), include_localbkg=inc)
                for cname, cont in (('ndarray', img2), ('nddata', NDData(img2)), ('nddata-unit', NDData(img2, unit=u.Jy)), ('quantity', img2 * u.Jy)):
                    rep.count(f'residual-container:{cname}:include_localbkg={inc}')
                    try:
                        if cname in ('nddata-unit', 'quantity'):
                            phu = PSFPhotometry(CircularGaussianPRF(fwhm=2.5), (5, 5), aperture_radius=4, progress_bar=False, localbkg_estimator=LocalBackground(5, 8))
                            phu(img2 * u.Jy, init_params=Table({'x': [s[0] for s in srcs], 'y': [s[1] for s in srcs]}))
                            got = phu.make_residual_image(cont, psf_shape=(9, 9), include_localbkg=inc)
                        else:
                            got = ph2.make_residual_image(cont, psf_shape=(9, 9), include_localbkg=inc)
                    except Exception as e:                      # noqa: BLE001
                        rep.violation(f'residual-raises:{cname}:{type(e).__name__}', f'make_residual_image({cname}, include_localbkg={inc}) raised {e!r}',
                                      {'sources': srcs, 'sky': sky})
                        continue
                    arr = np.asarray(getattr(got, 'data', got) if cname.startswith('nddata') else getattr(got, 'value', got), float)
                    if not np.allclose(arr, img2 - mod2, rtol=0, atol=1e-9):
                        rep.violation(f'residual-ne-data-minus-model:{cname}:include_localbkg={inc}',
                                      f'make_residual_image({cname}, include_localbkg={inc}) differs from data - make_model_image by '
                                      f'{float(np.abs(arr - (img2 - mod2)).max()):.3g}', {'sources': srcs, 'sky': sky})


def bbox_window_probe(rep, r, n):
    """(S) without any model_shape the window of a row is the bounding box of the model WITH THAT ROW'S PARAMETERS - also when a size
    parameter reaches the model through `params_map` from a column of another name: the image of the table equals the sum of the images of
    its rows and does not depend on the row order (seed C18-r10 reused the first row's window)"""
    from astropy.modeling.models import Gaussian2D
    from astropy.table import Table
    from photutils.datasets import make_model_image
    from photutils.psf import CircularGaussianPRF, GaussianPSF
    for k in range(n):
        kind = ['prf', 'gauss2d', 'gausspsf'][k % 3]
        ny, nx = r.randint(30, 40), r.randint(30, 40)
        nrows = r.randint(2, 4)
        xs = [r.uniform(8, nx - 9) for _ in range(nrows)]
        ys = [r.uniform(8, ny - 9) for _ in range(nrows)]
        sizes = [r.choice([2.0, 9.0, 4.5, 6.0]) for _ in range(nrows)]
        if len(set(sizes)) == 1:
            sizes[-1] = sizes[0] + 3.5
        fl = [r.choice([100.0, 50.0]) for _ in range(nrows)]
        if kind == 'prf':
            model, xn, yn, fn_, sn = CircularGaussianPRF(), 'x_0', 'y_0', 'flux', 'fwhm'
        elif kind == 'gausspsf':
            model, xn, yn, fn_, sn = GaussianPSF(), 'x_0', 'y_0', 'flux', 'x_fwhm'
        else:
            model, xn, yn, fn_, sn = Gaussian2D(), 'x_mean', 'y_mean', 'amplitude', 'x_stddev'
            sizes = [v / 2.355 for v in sizes]
        via_map = k % 2 == 0
        scol = 'width_col' if via_map else sn
        fcol = 'brightness' if via_map else fn_
        tbl = Table({xn: xs, yn: ys, fcol: fl, scol: sizes})
        kw = dict(x_name=xn, y_name=yn)
        if via_map:
            kw['params_map'] = {fn_: fcol, sn: scol}
        rp = {'model': kind, 'shape': [ny, nx], 'table': {c: [float(v) for v in tbl[c]] for c in tbl.colnames}, 'kwargs': {kk: vv for kk, vv in kw.items()}}
        try:
            with warnings.catch_warnings():
                warnings.simplefilter('ignore')
                full = make_model_image((ny, nx), model, tbl, **kw)
                rev = make_model_image((ny, nx), model, tbl[::-1], **kw)
                parts = sum(make_model_image((ny, nx), model, tbl[i:i + 1], **kw) for i in range(nrows))
        except Exception as e:                                  # noqa: BLE001
            rep.violation(f'make_model_image-raises:bbox-window:{type(e).__name__}', f'make_model_image without model_shape raised {e!r}', rp)
            continue
        rep.case(('bbox-window', kind, via_map, tuple(sizes)), True, kind=f'bbox-window:{kind}:' + ('params_map' if via_map else 'named-columns'))
        rep.probe_only += 1
        if not (np.allclose(full, parts, rtol=1e-12, atol=1e-12) and np.allclose(full, rev, rtol=1e-12, atol=1e-12)):
            rep.violation('bbox-window-not-per-row', f'make_model_image without model_shape ({kind}, sizes {sizes} ' + ('through params_map' if via_map else 'in a column named like the parameter')
                          + f'): total {float(full.sum()):.6g}, rows reversed {float(rev.sum()):.6g}, sum of the single-row images {float(parts.sum()):.6g}', rp)


def iterative_images(rep, r, n):
    """IterativePSFPhotometry with a local-background estimator: the model image with / without the local background, in either call
    order, equals what a fresh object gives; residual == data - model in both forms"""
    from astropy.table import Table
    from photutils.background import LocalBackground
    from photutils.detection import DAOStarFinder
    from photutils.psf import CircularGaussianPRF, IterativePSFPhotometry, SourceGrouper
    yy, xx = np.mgrid[0:33, 0:35]
    for k in range(n):
        srcs = [(r.uniform(6, 28), r.uniform(6, 26), r.uniform(200, 600)) for _ in range(3)]
        img = np.full((33, 35), 3.0)                               # non-zero sky: local_bkg != 0
        for x, y, f in srcs:
            img += CircularGaussianPRF(flux=f, x_0=x, y_0=y, fwhm=2.5)(xx, yy)

        def mk():
            ph = IterativePSFPhotometry(CircularGaussianPRF(fwhm=2.5), (5, 5), finder=DAOStarFinder(20.0, 2.5), aperture_radius=4,
                                        localbkg_estimator=LocalBackground(5, 8), mode=r_mode, grouper=SourceGrouper(6.0), maxiters=2, progress_bar=False)
            with warnings.catch_warnings():
                warnings.simplefilter('ignore')
                ph(img, init_params=Table({'x': [s_[0] for s_ in srcs], 'y': [s_[1] for s_ in srcs]}))
            return ph
        r_mode = r.choice(['new', 'all'])
        rep.case(('iterimg', img.tobytes(), r_mode), True, kind=f'iterative-model-image:{r_mode}')
        rep.probe_only += 1
        with warnings.catch_warnings():
            warnings.simplefilter('ignore')
            try:
                ref_no = mk().make_model_image(img.shape, psf_shape=(9, 9), include_localbkg=False)
                ref_bk = mk().make_model_image(img.shape, psf_shape=(9, 9), include_localbkg=True)
                ph = mk()
                seq = [('bkg', ph.make_model_image(img.shape, psf_shape=(9, 9), include_localbkg=True)),
                       ('no', ph.make_model_image(img.shape, psf_shape=(9, 9), include_localbkg=False)),
                       ('res', ph.make_residual_image(img, psf_shape=(9, 9), include_localbkg=False)),
                       ('bkg', ph.make_model_image(img.shape, psf_shape=(9, 9), include_localbkg=True))]
            except Exception as e:                              # noqa: BLE001
                rep.violation(f'iterative-model-image-raises:{type(e).__name__}', f'IterativePSFPhotometry model image raised {e!r}', {'sources': srcs, 'mode': r_mode})
                continue
        bad = False
        for i, (kind, im) in enumerate(seq):
            exp = {'bkg': ref_bk, 'no': ref_no, 'res': img - ref_no}[kind]
            if not np.allclose(im, exp, rtol=0, atol=1e-9):
                rep.violation('iterative-model-image-call-order', f'call #{i} ({kind}) of the sequence [with bkg, without, residual, with bkg] differs from a fresh object by '
                              f'{float(np.abs(im - exp).max()):.3g}', {'sources': srcs, 'mode': r_mode})
                bad = True
                break
        if bad:
            continue
        # the SAME object run again on another exposure of the same shape (one source brighter, one removed): the images requested with
        # the same arguments afterwards belong to the new run (seed C18-r8 kept the images of the previous run)
        srcs2 = [(srcs[0][0], srcs[0][1], srcs[0][2] * 2.0), srcs[1]]
        img2 = np.full((33, 35), 3.0)
        for x, y, f in srcs2:
            img2 += CircularGaussianPRF(flux=f, x_0=x, y_0=y, fwhm=2.5)(xx, yy)
        tbl2 = Table({'x': [s_[0] for s_ in srcs2], 'y': [s_[1] for s_ in srcs2]})
        with warnings.catch_warnings():
            warnings.simplefilter('ignore')
            try:
                ph(img2, init_params=tbl2)
                again = [('bkg', ph.make_model_image(img.shape, psf_shape=(9, 9), include_localbkg=True)),
                         ('no', ph.make_model_image(img.shape, psf_shape=(9, 9), include_localbkg=False)),
                         ('res', ph.make_residual_image(img2, psf_shape=(9, 9), include_localbkg=False))]
                fresh = IterativePSFPhotometry(CircularGaussianPRF(fwhm=2.5), (5, 5), finder=DAOStarFinder(20.0, 2.5), aperture_radius=4,
                                               localbkg_estimator=LocalBackground(5, 8), mode=r_mode, grouper=SourceGrouper(6.0), maxiters=2, progress_bar=False)
                fresh(img2, init_params=tbl2)
                f_no = fresh.make_model_image(img.shape, psf_shape=(9, 9), include_localbkg=False)
                f_bk = fresh.make_model_image(img.shape, psf_shape=(9, 9), include_localbkg=True)
            except Exception as e:                              # noqa: BLE001
                rep.violation(f'iterative-model-image-raises:second-run:{type(e).__name__}', f'IterativePSFPhotometry second run raised {e!r}', {'sources': srcs, 'mode': r_mode})
                continue
        # psf_shape left at None: every source is rendered on the bounding box of the model (the documented default), whatever sub_shape
        # the iterations used to subtract sources (seed C18-r12 substituted sub_shape)
        from photutils.datasets import make_model_image as mmi_
        with warnings.catch_warnings():
            warnings.simplefilter('ignore')
            try:
                it3 = IterativePSFPhotometry(CircularGaussianPRF(fwhm=2.5), (5, 5), finder=DAOStarFinder(20.0, 2.5), aperture_radius=4, mode=r_mode,
                                             grouper=SourceGrouper(6.0), sub_shape=(5, 5), maxiters=2, progress_bar=False)
                t3 = it3(img, init_params=Table({'x': [s_[0] for s_ in srcs], 'y': [s_[1] for s_ in srcs]}))
                dflt = it3.make_model_image(img.shape)
                resd = it3.make_residual_image(img)
                ref3 = mmi_(img.shape, CircularGaussianPRF(fwhm=2.5), Table({'x_0': np.asarray(t3['x_fit'], float), 'y_0': np.asarray(t3['y_fit'], float),
                                                                               'flux': np.asarray(t3['flux_fit'], float)}))
            except Exception as e:                              # noqa: BLE001
                rep.violation(f'iterative-model-image-raises:default-psf_shape:{type(e).__name__}', f'IterativePSFPhotometry(sub_shape=(5, 5)).make_model_image(shape) raised {e!r}',
                              {'sources': srcs, 'mode': r_mode})
                continue
        rep.count('iterative-default-psf_shape')
        if not (np.allclose(dflt, ref3, rtol=0, atol=1e-9) and np.allclose(resd, img - ref3, rtol=0, atol=1e-9)):
            rep.violation('iterative-model-image-default-window', f'IterativePSFPhotometry(sub_shape=(5, 5)): make_model_image(shape) without psf_shape differs from the superposition of '
                          f'the fitted sources on their bounding boxes by {float(np.abs(dflt - ref3).max()):.3g} ({int(np.count_nonzero(dflt))} non-zero pixels vs '
                          f'{int(np.count_nonzero(ref3))})', {'sources': srcs, 'mode': r_mode, 'sub_shape': [5, 5]})
            continue
        for kind, im in again:
            exp = {'bkg': f_bk, 'no': f_no, 'res': img2 - f_no}[kind]
            if not np.allclose(im, exp, rtol=0, atol=1e-9):
                rep.violation('iterative-model-image-stale-after-second-run', f'after a second run of the same object on another exposure, the {kind} image differs from '
                              f'that of a fresh object run on that exposure by {float(np.abs(im - exp).max()):.3g}',
                              {'sources': srcs, 'second_exposure_sources': srcs2, 'mode': r_mode})
                break


def replay(rep, data):
    run(rep, 'quick')
