"""C17 — centroid functions locate symmetric sources exactly and act per source (DESIGN §5 C17)."""
import math
import warnings
from fractions import Fraction as F

import numpy as np

import gens
from common import Driver, prove, q, rng

PROP_MODULES = ['PhotVerif.Props.C17']


def close(a, b, tol=1e-9):
    a, b = float(a), float(b)
    if math.isnan(a) or math.isnan(b):
        return math.isnan(a) and math.isnan(b)
    return abs(a - b) <= tol * max(1.0, abs(a), abs(b))


def run(rep, tier):
    thorough = tier == 'thorough'
    scale = 20 if thorough else 1
    rep.rule = ('centroid_com on dyadic cut-outs with masks/NaN vs the Lean model (exact); centroid_quadratic on exactly quadratic peaks '
                '(dyadic coefficients, any vertex, fit boxes 3/5/(3,5), peaks near the edge, masks, saddles/minima) vs the Lean vertex rule; '
                'py2intround on half-integers; centroid_sources vs per-cut-out calls for com/quadratic/1dg/2dg with footprints, masks, error maps, '
                'xpeak/ypeak; symmetry, flip, transpose and rescale relations for every centroid function. Non-trivial = result is finite.')
    rep.assumptions += ['np.linalg.lstsq is a parameter (contract: exact solution for data in the range of an injective design matrix)',
                        'Gaussian centroids (centroid_1dg/2dg) are probed only (symmetry, flips, rescale, per-source equality)']
    rep.lean = prove(PROP_MODULES)
    if not rep.lean.ok:
        scale *= 3
    r = rng('C17')
    drv = Driver()
    lines, exps, kinds = [], [], []
    com_stream(rep, r, 150 * scale, lines, exps, kinds)
    quad_stream(rep, r, 150 * scale, lines, exps, kinds)
    round_stream(rep, r, 60, lines, exps, kinds)
    out = drv.run(lines)
    if out is None:
        rep.tie_broken('model driver failed', drv.error)
    else:
        nb = 0
        for ln, o, e, kd in zip(lines, out, exps, kinds):
            rep.traces += 1
            ok = True
            if e[0] == 'nan':
                ok = o == 'nan'
            else:
                if not o.startswith('ok'):
                    ok = False
                else:
                    vals = [float(F(t)) for t in o.split()[1:]]
                    ok = all(close(a, b, 1e-9 if kd != 'com' else 1e-12) for a, b in zip(vals, e))
            if not ok:
                nb += 1
                if nb <= 3:
                    rep.tie_broken(f'centroid model ({kd}) and implementation disagree', {'op': ln[:300], 'model': o, 'impl': e})
    sources_stream(rep, r, 40 * scale)
    symmetry_stream(rep, r, 25 * scale)
    quadratic_edge_flips(rep, r, 20 * scale)
    quadratic_halfpixel_start(rep, r, 8 * scale)
    quadratic_search_box(rep, r, 12 * scale)
    xpeak_stream(rep, r, 16 * scale)


def com_stream(rep, r, n, lines, exps, kinds):
    from photutils.centroids import centroid_com
    for k in range(n):
        ny, nx = gens.size(r, 1, 9), gens.size(r, 1, 9)
        data = gens.image(r, ny, nx, special=0.3, palette=0.3)
        mask = gens.mask(r, ny, nx)
        with warnings.catch_warnings():
            warnings.simplefilter('ignore')
            x, y = centroid_com(data, mask=mask)
        # (S) intensity-weighted mean coordinate of the unmasked finite pixels
        d = np.where(np.isfinite(data), data, 0.0)
        if mask is not None:
            d = np.where(mask, 0.0, d)
        tot = d.sum()
        yy, xx = np.mgrid[0:ny, 0:nx]
        ex, ey = ((xx * d).sum() / tot, (yy * d).sum() / tot) if tot != 0 else (float('nan'), float('nan'))
        rep.case(('com', data.tobytes(), None if mask is None else mask.tobytes()), tot != 0, kind='centroid_com',
                 sample={'data': data.tolist(), 'result': [float(x), float(y)]})
        if not (close(x, ex, 1e-12) and close(y, ey, 1e-12)):
            rep.violation('com-not-weighted-mean', f'centroid_com = {(x, y)} but the weighted mean coordinate is {(ex, ey)}',
                          {'data': data.tolist(), 'mask': None if mask is None else mask.astype(int).tolist()})
            continue
        lines.append(f'com {ny} {nx} | ' + gens.arr_tokens(data) + ' | ' + gens.mask_tokens(mask))
        exps.append(('nan',) if math.isnan(x) else (float(x), float(y)))
        kinds.append('com')


def quad_image(ny, nx, c00, c10, c01, c11, c20, c02):
    yy, xx = np.mgrid[0:ny, 0:nx].astype(float)
    return c00 + c10 * xx + c01 * yy + c11 * xx * yy + c20 * xx * xx + c02 * yy * yy


def quad_stream(rep, r, n, lines, exps, kinds):
    from photutils.centroids import centroid_quadratic
    for k in range(n):
        ny, nx = r.randint(5, 12), r.randint(5, 12)
        xv, yv = r.randint(4, 4 * (nx - 2)) / 4, r.randint(4, 4 * (ny - 2)) / 4
        c20 = -r.choice([0.5, 1.0, 2.0, 0.25])
        c02 = -r.choice([0.5, 1.0, 2.0, 0.25])
        c11 = r.choice([0.0, 0.0, 0.25, -0.5])
        if k % 9 == 0:
            c20 = abs(c20)            # saddle / minimum
        c10 = -(2 * c20 * xv + c11 * yv)
        c01 = -(2 * c02 * yv + c11 * xv)
        img = quad_image(ny, nx, 50.0, c10, c01, c11, c20, c02)
        fb = r.choice([5, 3, (3, 5), 5])
        mask = None
        if r.random() < 0.25:
            mask = np.zeros((ny, nx), bool)
            mask[r.randrange(ny), r.randrange(nx)] = True
        with warnings.catch_warnings():
            warnings.simplefilter('ignore')
            try:
                x, y = centroid_quadratic(img, fit_boxsize=fb, mask=mask)
            except Exception as e:
                rep.violation(f'quadratic-raises:{type(e).__name__}', f'centroid_quadratic raised {e!r}', {'image': img.tolist()})
                continue
        det = 4 * c20 * c02 - c11 ** 2
        is_max = det > 0 and c20 < 0 and c02 < 0
        rep.case(('quad', ny, nx, xv, yv, c20, c02, c11, fb, None if mask is None else mask.tobytes()), is_max,
                 kind='centroid_quadratic:' + ('max' if is_max else 'no-max'),
                 sample={'shape': [ny, nx], 'vertex': [xv, yv], 'fit_boxsize': fb, 'result': [float(x), float(y)]})
        # where is the brightest pixel? (edge rule)
        d = img.copy()
        if mask is not None:
            d[mask] = np.nan
        yi, xi = np.unravel_index(np.nanargmax(d), d.shape)
        if xi in (0, nx - 1) or yi in (0, ny - 1):
            if not (x == xi and y == yi):
                rep.violation('quadratic-edge-rule', 'maximum on the edge: the pixel position must be returned', {'image': img.tolist()})
            continue
        if is_max:
            # (S) vertex of an exactly quadratic peak
            if not (close(x, xv, 1e-7) and close(y, yv, 1e-7)):
                rep.violation('quadratic-vertex', f'exactly quadratic peak with vertex {(xv, yv)}: centroid_quadratic = {(x, y)}',
                              {'image': img.tolist(), 'fit_boxsize': fb, 'mask': None if mask is None else mask.astype(int).tolist()})
                continue
        if is_max and k % 2 == 0:
            # (S) an explicit start pixel up to 3 px off the vertex (interior, not on an edge): the fit of an exactly quadratic image is exact
            # on ANY box, so the vertex comes back - also when it lies outside the fitting box, to its left / below it (seed C17-r8)
            for dx_, dy_ in [(r.choice([2, 3]), 0), (0, r.choice([2, 3])), (-r.choice([2, 3]), r.choice([-2, 2]))]:
                xp, yp = int(round(xv)) + dx_, int(round(yv)) + dy_
                if not (1 <= xp <= nx - 2 and 1 <= yp <= ny - 2):
                    continue
                with warnings.catch_warnings():
                    warnings.simplefilter('ignore')
                    try:
                        x2, y2 = centroid_quadratic(img, xpeak=xp, ypeak=yp, fit_boxsize=3)
                    except Exception as e:                      # noqa: BLE001
                        rep.violation(f'quadratic-raises:{type(e).__name__}:xpeak', f'centroid_quadratic(xpeak={xp}, ypeak={yp}) raised {e!r}', {'image': img.tolist()})
                        break
                rep.count('quadratic-explicit-peak')
                if not (close(x2, xv, 1e-6) and close(y2, yv, 1e-6)):
                    rep.violation('quadratic-vertex:explicit-peak', f'exactly quadratic peak with vertex {(xv, yv)}, fit box of 3 around (xpeak, ypeak) = {(xp, yp)}: '
                                  f'centroid_quadratic = {(float(x2), float(y2))}', {'image': img.tolist(), 'xpeak': xp, 'ypeak': yp, 'fit_boxsize': 3})
                    break
        if det == 0:
            rep.count('skipped:quadv:det-exactly-zero')      # a ridge: `det <= 0` on the fitted coefficients is decided by rounding
            continue
        lines.append('quadv ' + ' '.join(q(v) for v in (c10, c01, c11, c20, c02)) + f' {ny} {nx}')
        exps.append(('nan',) if math.isnan(x) else (float(x), float(y)))
        kinds.append('quad')


def round_stream(rep, r, n, lines, exps, kinds):
    from photutils.utils._round import py2intround
    for _ in range(n):
        a = r.randint(-40, 40) / 4
        lines.append('round ' + q(a))
        exps.append((float(py2intround(a)),))
        kinds.append('round')
        rep.case(('round', a), True, kind='py2intround')


def sources_stream(rep, r, n):
    from photutils.centroids import centroid_sources, centroid_com, centroid_quadratic, centroid_1dg, centroid_2dg
    from astropy.nddata import overlap_slices
    yy, xx = np.mgrid[0:40, 0:44]
    for k in range(n):
        img = np.zeros((40, 44))
        pos = []
        for _ in range(r.randint(2, 5)):
            x0, y0 = r.uniform(4, 39), r.uniform(4, 35)
            img += r.uniform(50, 100) * np.exp(-((xx - x0) ** 2 + (yy - y0) ** 2) / (2 * r.choice([1.3, 2.0]) ** 2))
            pos.append((x0 + r.uniform(-0.7, 0.7), y0 + r.uniform(-0.7, 0.7)))
        if r.random() < 0.5:                                      # a close neighbour: overlapping cut-outs
            x0, y0 = min(pos[0][0] + r.uniform(3, 5), 41.0), min(max(pos[0][1] + r.uniform(-2, 2), 2.0), 37.0)
            img += r.uniform(50, 100) * np.exp(-((xx - x0) ** 2 + (yy - y0) ** 2) / (2 * 1.3 ** 2))
            pos.insert(1, (x0, y0))
        rs = np.random.RandomState(r.randrange(2 ** 31))
        img += rs.normal(0, 0.2, img.shape)
        func = r.choice([centroid_com, centroid_quadratic, centroid_1dg, centroid_2dg])
        box = r.choice([7, 9, (7, 9), 11])
        fp = None
        if r.random() < 0.4:                                      # a footprint with excluded elements instead of a box
            fy, fx = np.mgrid[-4:5, -4:5]
            fp = (fx ** 2 + fy ** 2) <= r.choice([16.5, 13.0, 20.0])
            box = fp.shape
        mask = None
        if r.random() < 0.4:
            mask = rs.rand(*img.shape) < 0.03
        kwargs = {}
        if func in (centroid_1dg, centroid_2dg) and r.random() < 0.6:
            kwargs['error'] = np.full(img.shape, 0.2) + rs.rand(*img.shape) * 0.05
        if func is centroid_quadratic and r.random() < 0.5:
            kwargs['fit_boxsize'] = 3
        xs = np.array([p[0] for p in pos])
        ys = np.array([p[1] for p in pos])
        order = list(range(len(pos)))
        if r.random() < 0.5:
            r.shuffle(order)
        with warnings.catch_warnings():
            warnings.simplefilter('ignore')
            try:
                mask_before = None if mask is None else mask.copy()
                if fp is None:
                    gx, gy = centroid_sources(img, xs[order], ys[order], box_size=box, mask=mask, centroid_func=func, **kwargs)
                else:
                    gx, gy = centroid_sources(img, xs[order], ys[order], footprint=fp, mask=mask, centroid_func=func, **kwargs)
                if mask is not None and not np.array_equal(mask, mask_before):
                    rep.violation('centroid_sources-modifies-mask', 'centroid_sources modified the caller\'s mask array',
                                  {'func': func.__name__, 'footprint': None if fp is None else fp.astype(int).tolist()})
                    mask = mask_before
            except Exception as e:
                rep.violation(f'centroid_sources-raises:{type(e).__name__}', f'centroid_sources raised {e!r}', {'func': func.__name__})
                continue
            shape = (box, box) if np.isscalar(box) else box
            bad = None
            for j, i in enumerate(order):
                sl, ss = overlap_slices(img.shape, shape, (ys[i], xs[i]))
                cut = img[sl]
                mcut = np.zeros(cut.shape, bool) if mask is None else mask[sl].copy()
                if fp is not None:
                    mcut = mcut | ~fp[ss]
                kw = dict(kwargs)
                if 'error' in kw:
                    kw['error'] = kw['error'][sl]
                try:
                    ex, ey = func(cut, mask=mcut, **kw)
                except (ValueError, TypeError):
                    ex, ey = np.nan, np.nan
                ex, ey = ex + sl[1].start, ey + sl[0].start
                if not (close(gx[j], ex, 1e-12) and close(gy[j], ey, 1e-12)):
                    bad = (j, i, (gx[j], gy[j]), (ex, ey))
                    break
        rep.case(('sources', img.tobytes(), func.__name__, repr(box), tuple(order)), True,
                 kind=f'centroid_sources:{func.__name__}' + (':error' if 'error' in kwargs else '') + (':footprint' if fp is not None else ''),
                 sample={'func': func.__name__, 'box_size': box, 'npos': len(pos), 'order': order})
        rep.probe_only += 1
        if bad:
            rep.violation(f'centroid_sources-not-per-source:{func.__name__}' + (':error' if 'error' in kwargs else ''),
                          f'source #{bad[0]} (input index {bad[1]}): centroid_sources gives {bad[2]} but {func.__name__} on that '
                          f'position\'s cut-out gives {bad[3]}', {'func': func.__name__, 'box_size': box, 'order': order,
                                                                  'kwargs': sorted(kwargs)})
    # xpeak / ypeak are re-based per source, not cumulatively
    for _ in range(max(3, n // 8)):
        img = quad_image(21, 21, 100.0, 20.0, 20.0, 0.0, -1.0, -1.0)       # vertex (10, 10)
        with warnings.catch_warnings():
            warnings.simplefilter('ignore')
            gx, gy = centroid_sources(img, [10, 10, 10], [10, 10, 10], box_size=7, centroid_func=centroid_quadratic,
                                      xpeak=10, ypeak=10, fit_boxsize=3)
        rep.case(('xpeak',), True, kind='centroid_sources:xpeak')
        rep.probe_only += 1
        if not (np.allclose(gx, 10.0, atol=1e-9) and np.allclose(gy, 10.0, atol=1e-9)):
            rep.violation('centroid_sources-not-per-source:xpeak',
                          f'identical positions with xpeak/ypeak give different centroids {gx.tolist()} {gy.tolist()}', {})
            break


def xpeak_stream(rep, r, n):
    """(S) xpeak / ypeak given to centroid_sources are image coordinates: the result equals centroid_quadratic on the source's cut-out
    with the peak re-based to that cut-out (positions off the image diagonal, non-square boxes, cut-outs clipped at one edge)"""
    from photutils.centroids import centroid_sources, centroid_quadratic
    from astropy.nddata import overlap_slices
    yy, xx = np.mgrid[0:34, 0:46]
    for k in range(n):
        x0, y0 = r.uniform(3, 42), r.uniform(3, 30)
        if k % 4 == 0:
            x0 = r.uniform(0.5, 2.5)                                  # clipped at the left edge only
        nbx, nby = x0 + r.choice([-4.1, 3.9]), y0 + r.choice([-1.6, 1.4, 2.2])
        img = 60 * np.exp(-((xx - x0) ** 2 + (yy - y0) ** 2) / (2 * 1.5 ** 2)) + 90 * np.exp(-((xx - nbx) ** 2 + (yy - nby) ** 2) / (2 * 1.5 ** 2))
        box = r.choice([(9, 11), 11, (11, 9)])
        shape = (box, box) if np.isscalar(box) else box
        xp, yp = int(round(x0)), int(round(y0))
        with warnings.catch_warnings():
            warnings.simplefilter('ignore')
            try:
                gx, gy = centroid_sources(img, [x0], [y0], box_size=box, centroid_func=centroid_quadratic, xpeak=xp, ypeak=yp, fit_boxsize=3)
                sl, _ = overlap_slices(img.shape, shape, (y0, x0))
                ex, ey = centroid_quadratic(img[sl], xpeak=xp - sl[1].start, ypeak=yp - sl[0].start, fit_boxsize=3)
            except Exception as e:                                   # noqa: BLE001
                rep.violation(f'centroid_sources-raises:{type(e).__name__}:xpeak', f'centroid_sources(xpeak, ypeak) raised {e!r}', {'x': x0, 'y': y0})
                continue
        ex, ey = ex + sl[1].start, ey + sl[0].start
        rep.case(('xpeak2', x0, y0, repr(box)), True, kind='centroid_sources:xpeak:off-diagonal')
        rep.probe_only += 1
        if not (close(gx[0], ex, 1e-12) and close(gy[0], ey, 1e-12)):
            rep.violation('centroid_sources-not-per-source:xpeak-frame', f'source at ({x0:.3f}, {y0:.3f}) with xpeak={xp}, ypeak={yp}: centroid_sources gives '
                          f'({float(gx[0])}, {float(gy[0])}) but centroid_quadratic on the cut-out with the re-based peak gives ({float(ex)}, {float(ey)})',
                          {'x': x0, 'y': y0, 'neighbour': [nbx, nby], 'box_size': box})


def symmetry_stream(rep, r, n):
    from photutils.centroids import centroid_com, centroid_quadratic, centroid_1dg, centroid_2dg
    funcs = [centroid_com, centroid_quadratic, centroid_1dg, centroid_2dg]
    for k in range(n):
        f = funcs[k % 4]
        ny, nx = r.choice([9, 10, 11, 12]), r.choice([9, 10, 11, 12])
        if f is centroid_quadratic:
            # its odd fit box is centred on the brightest pixel, so it can only be symmetric about a
            # symmetry centre that is a pixel centre (odd array sizes here)
            ny, nx = r.choice([9, 11]), r.choice([9, 11])
        # point-symmetric source about (cx, cy): centre on a pixel centre or half-pixel so that the array is symmetric
        cx, cy = (nx - 1) / 2, (ny - 1) / 2
        yy, xx = np.mgrid[0:ny, 0:nx]
        sx, sy, th = r.uniform(1.2, 2.2), r.uniform(1.2, 2.2), r.uniform(0, math.pi)
        c, s = math.cos(th), math.sin(th)
        xr = (xx - cx) * c + (yy - cy) * s
        yr = -(xx - cx) * s + (yy - cy) * c
        img = 100 * np.exp(-0.5 * ((xr / sx) ** 2 + (yr / sy) ** 2)) + 1.0
        img = (img + img[::-1, ::-1]) / 2
        with warnings.catch_warnings():
            warnings.simplefilter('ignore')
            x, y = f(img)
            fx, fy = f(img[:, ::-1])
            tx, ty = f(img.T)
            kx, ky = f(img * 4.0)
            # calibrated flux units: tiny / huge positive scales (exact powers of two; the moment-based and quadratic centroids are
            # scale-free, the Gaussian fitters are left out because their convergence tolerances are absolute)
            ex = [(x, y), (x, y)] if f in (centroid_1dg, centroid_2dg) else [f(img * 2.0 ** -60), f(img * 2.0 ** 40)]
            m = np.zeros(img.shape, bool)
            m[0, 0] = m[-1, -1] = True
            p = img.copy()
            p[m] = 1e6
            mx, my = f(p, mask=m)
            mx0, my0 = f(img, mask=m)
            # the Gaussian fitters take an error map: what it holds at MASKED pixels is as irrelevant as the data there (seed C17-r11)
            ex_, ey_, ex2, ey2 = mx0, my0, mx0, my0
            if f in (centroid_1dg, centroid_2dg):
                m2 = m.copy()
                m2[2, 3] = m2[ny - 3, 1] = True
                e1 = np.full(img.shape, 1.0) + 0.01 * xx
                e2 = e1.copy()
                e2[m2] = 500.0
                p2 = img.copy()
                p2[m2] = 1e5
                ex_, ey_ = f(img, error=e1, mask=m2)
                ex2, ey2 = f(p2, error=e2, mask=m2)
        rep.case(('sym', f.__name__, img.tobytes()), True, kind=f'symmetry:{f.__name__}')
        rep.probe_only += 1
        tol = 1e-6 if f in (centroid_1dg, centroid_2dg) else 1e-9
        checks = [('symmetry-centre', close(x, cx, tol) and close(y, cy, tol)),
                  ('flip', close(fx, nx - 1 - x, tol) and close(fy, y, tol)),
                  ('transpose', close(tx, y, tol) and close(ty, x, tol)),
                  ('rescale', close(kx, x, tol) and close(ky, y, tol)),
                  ('rescale-extreme', all(close(e_[0], x, tol) and close(e_[1], y, tol) for e_ in ex)),
                  ('mask-blind', close(mx, mx0, tol) and close(my, my0, tol)),
                  ('mask-blind-error', close(ex_, ex2, tol) and close(ey_, ey2, tol))]
        for name, ok in checks:
            if not ok:
                rep.violation(f'centroid-{name}:{f.__name__}', f'{f.__name__} violates {name} on a point-symmetric source '
                              f'(centre {(cx, cy)}, result {(float(x), float(y))})', {'image': img.tolist(), 'func': f.__name__})
                break


def quadratic_edge_flips(rep, r, n):
    """(S) centroid_quadratic commutes with both flips and with transposition (fit_boxsize swapped) for sources a few pixels from any edge of a
    non-square frame with a rectangular fit box - the fitting box is then clipped and shifted back inside the image on that side"""
    from photutils.centroids import centroid_quadratic
    for k in range(n):
        ny, nx = r.choice([(21, 25), (25, 21), (19, 30)])
        fb = [(7, 3), (3, 7), (5, 3), (3, 5), (7, 5)][k % 5]
        edge = ['top', 'bottom', 'left', 'right'][k % 4]
        d = r.choice([1, 2, 2, 3]) + r.uniform(-0.3, 0.3)          # distance of the source centre from that edge (the peak pixel is not ON the edge)
        cx = {'left': d, 'right': nx - 1 - d}.get(edge, r.uniform(6, nx - 7))
        cy = {'bottom': d, 'top': ny - 1 - d}.get(edge, r.uniform(6, ny - 7))
        yy, xx = np.mgrid[0:ny, 0:nx]
        sx, sy = r.uniform(1.3, 2.2), r.uniform(1.3, 2.2)
        img = 100 * np.exp(-0.5 * (((xx - cx) / sx) ** 2 + ((yy - cy) / sy) ** 2)) + 0.01 * xx + 0.02 * yy
        with warnings.catch_warnings():
            warnings.simplefilter('ignore')
            try:
                x, y = centroid_quadratic(img, fit_boxsize=fb)
                fx, fy = centroid_quadratic(img[:, ::-1], fit_boxsize=fb)
                ux, uy = centroid_quadratic(img[::-1, :], fit_boxsize=fb)
                tx, ty = centroid_quadratic(img.T, fit_boxsize=fb[::-1])
            except Exception as e:                              # noqa: BLE001
                rep.violation(f'quadratic-raises:{type(e).__name__}:edge', f'centroid_quadratic raised {e!r}', {'image': img.tolist(), 'fit_boxsize': list(fb)})
                continue
        rep.case(('quad-edge', edge, fb, img.tobytes()[:48]), True, kind=f'quadratic-edge-flips:{edge}')
        rep.probe_only += 1
        if not np.isfinite([x, y]).all():
            continue
        bad = [nm for nm, ok in (('flip-x', close(fx, nx - 1 - x, 1e-8) and close(fy, y, 1e-8)), ('flip-y', close(ux, x, 1e-8) and close(uy, ny - 1 - y, 1e-8)),
                                 ('transpose', close(tx, y, 1e-8) and close(ty, x, 1e-8))) if not ok]
        if bad:
            rep.violation(f'centroid-{bad[0]}:centroid_quadratic:edge', f'centroid_quadratic(fit_boxsize={fb}) on a source {d:.2f} px from the {edge} edge of a {ny} x {nx} frame: '
                          f'result {(float(x), float(y))}, on the x-flipped image {(float(fx), float(fy))}, y-flipped {(float(ux), float(uy))}, transposed '
                          f'(box swapped) {(float(tx), float(ty))}', {'image': img.tolist(), 'fit_boxsize': list(fb)})


def quadratic_search_box(rep, r, n):
    """(S) `search_boxsize`: the start pixel is the brightest pixel of the search box around (xpeak, ypeak) - also when that box is clipped at
    the LEFT or BOTTOM edge of the array (its origin is then 0, not xpeak - half the box: seed C17-r12).  The result equals the call started
    on that pixel directly, and commutes with both flips"""
    from photutils.centroids import centroid_quadratic
    for k in range(n):
        ny, nx = r.randint(13, 17), r.randint(13, 17)
        edge = ['left', 'bottom', 'right', 'top'][k % 4]
        cx = {'left': r.uniform(2.6, 3.4), 'right': nx - 1 - r.uniform(2.6, 3.4)}.get(edge, r.uniform(5.5, nx - 6.5))
        cy = {'bottom': r.uniform(2.6, 3.4), 'top': ny - 1 - r.uniform(2.6, 3.4)}.get(edge, r.uniform(5.5, ny - 6.5))
        yy, xx = np.mgrid[0:ny, 0:nx]
        img = 100 * np.exp(-0.5 * (((xx - cx) / 1.6) ** 2 + ((yy - cy) / 1.9) ** 2))
        xp = {'left': round(cx) - 1, 'right': round(cx) + 1}.get(edge, round(cx) + r.choice([-1, 1]))
        yp = {'bottom': round(cy) - 1, 'top': round(cy) + 1}.get(edge, round(cy) + r.choice([-1, 1]))
        sb = r.choice([7, 5, (7, 5)])
        with warnings.catch_warnings():
            warnings.simplefilter('ignore')
            a = centroid_quadratic(img, xpeak=xp, ypeak=yp, search_boxsize=sb, fit_boxsize=5)
            ref = centroid_quadratic(img, xpeak=float(round(cx)), ypeak=float(round(cy)), fit_boxsize=5)
            fx = centroid_quadratic(img[:, ::-1], xpeak=nx - 1 - xp, ypeak=yp, search_boxsize=sb, fit_boxsize=5)
            fy = centroid_quadratic(img[::-1, :], xpeak=xp, ypeak=ny - 1 - yp, search_boxsize=sb, fit_boxsize=5)
        rep.case(('quad-search', edge, img.tobytes()[:48], xp, yp), True, kind=f'quadratic-search-box:{edge}')
        rep.probe_only += 1
        ok = close(a[0], ref[0], 1e-9) and close(a[1], ref[1], 1e-9) and close(fx[0], nx - 1 - a[0], 1e-8) and close(fx[1], a[1], 1e-8) \
            and close(fy[0], a[0], 1e-8) and close(fy[1], ny - 1 - a[1], 1e-8)
        if not ok:
            rep.violation('centroid-search-box:centroid_quadratic', f'Gaussian at {(cx, cy)} near the {edge} edge of a {ny} x {nx} array, start ({xp}, {yp}), search_boxsize={sb}: '
                          f'result {tuple(map(float, a))}; started on the brightest pixel directly {tuple(map(float, ref))}; x-flipped {tuple(map(float, fx))}, '
                          f'y-flipped {tuple(map(float, fy))}', {'image': img.tolist(), 'xpeak': xp, 'ypeak': yp, 'search_boxsize': list(sb) if isinstance(sb, tuple) else sb})


def quadratic_halfpixel_start(rep, r, n):
    """(S) a start position given on an exact half pixel belongs to the pixel `py2intround` names (ties away from zero) whatever the
    parity of its integer part: (a) an exactly quadratic peak with its vertex at x = 0.8 and xpeak = 0.5 is fitted (start pixel 1, not the edge
    pixel 0) and returns the vertex; (b) shifting the image by one pixel and the start by one shifts the result by exactly one (seed C17-r10
    used round-half-even: 4.5 -> 4 but 5.5 -> 6)"""
    from photutils.centroids import centroid_quadratic
    for k in range(n):
        ny, nx = r.randint(7, 11), r.randint(7, 11)
        xv, yv = r.choice([0.8, 0.7, 0.9]), r.randint(8, 4 * (ny - 3)) / 4
        c20, c02 = -r.choice([0.5, 1.0]), -r.choice([0.5, 1.0])
        img = quad_image(ny, nx, 50.0, -2 * c20 * xv, -2 * c02 * yv, 0.0, c20, c02)
        with warnings.catch_warnings():
            warnings.simplefilter('ignore')
            x, y = centroid_quadratic(img, xpeak=0.5, ypeak=float(round(yv)), fit_boxsize=3)
            xt, yt = centroid_quadratic(img.T.copy(), xpeak=float(round(yv)), ypeak=0.5, fit_boxsize=3)
        rep.case(('quad-half', 'edge', ny, nx, xv, yv), True, kind='quadratic-halfpixel-start:edge')
        rep.probe_only += 1
        if not (close(x, xv, 1e-7) and close(y, yv, 1e-7) and close(xt, yv, 1e-7) and close(yt, xv, 1e-7)):
            rep.violation('quadratic-vertex:halfpixel-start', f'exactly quadratic peak with vertex {(xv, yv)}, xpeak = 0.5 (pixel 1 by the documented rounding): '
                          f'centroid_quadratic = {(float(x), float(y))}; transposed with ypeak = 0.5: {(float(xt), float(yt))}', {'image': img.tolist(), 'xpeak': 0.5, 'ypeak': float(round(yv))})
            continue
        # (b) translation by one pixel with a half-pixel start
        yy, xx = np.mgrid[0:15, 0:17]
        cx, cy = r.uniform(5.6, 6.4), r.uniform(6.6, 7.4)
        g0 = 100 * np.exp(-0.5 * (((xx - cx) / 1.7) ** 2 + ((yy - cy) / 1.4) ** 2))
        g1 = 100 * np.exp(-0.5 * (((xx - cx - 1) / 1.7) ** 2 + ((yy - cy - 1) / 1.4) ** 2))
        for xp, yp in [(math.floor(cx) + 0.5, float(round(cy))), (float(round(cx)), math.floor(cy) + 0.5)]:
            with warnings.catch_warnings():
                warnings.simplefilter('ignore')
                a = centroid_quadratic(g0, xpeak=xp, ypeak=yp, fit_boxsize=3)
                b = centroid_quadratic(g1, xpeak=xp + 1, ypeak=yp + 1, fit_boxsize=3)
            rep.case(('quad-half', 'shift', cx, cy, xp, yp), True, kind='quadratic-halfpixel-start:translation')
            rep.probe_only += 1
            if not (close(b[0], a[0] + 1, 1e-8) and close(b[1], a[1] + 1, 1e-8)):
                rep.violation('centroid-translate:centroid_quadratic:halfpixel-start', f'Gaussian at {(cx, cy)}, start {(xp, yp)}: result {tuple(map(float, a))}; image and start '
                              f'shifted by (1, 1): {tuple(map(float, b))}', {'centre': [cx, cy], 'xpeak': xp, 'ypeak': yp})
                break


def replay(rep, data):
    run(rep, 'quick')
