"""C19 — radial profiles and curves of growth are consistent with aperture photometry (DESIGN §5 C19)."""
import math
import warnings
from fractions import Fraction as F

import numpy as np

import gens
from common import Driver, prove, q, rng
from props.c09 import profile_stream

PROP_MODULES = ['PhotVerif.Props.C19']


def close(a, b, rel=1e-10):
    a, b = float(a), float(b)
    if math.isnan(a) or math.isnan(b):
        return math.isnan(a) and math.isnan(b)
    if math.isinf(a) or math.isinf(b):
        return a == b
    return abs(a - b) <= rel * max(1.0, abs(a), abs(b))


def gen_case(r, k):
    ny, nx = gens.size(r, 5, 14), gens.size(r, 5, 14)
    data = gens.image(r, ny, nx, special=0.25, palette=0.3)
    if k % 5 == 0:
        data = np.full((ny, nx), gens.dy(r, 2, 5))          # constant image
    if k % 5 == 1:
        data = np.abs(data)                                 # non-negative
    mask = gens.mask(r, ny, nx)
    if mask is not None and mask.all():
        mask = None
    err = gens.error_map(r, ny, nx)
    if k % 6 == 4:
        # an error map held in a small integer dtype whose squares do not fit it (seed C19-r11: squared in that dtype)
        dt_ = [np.uint16, np.int16, np.uint8][(k // 6) % 3]
        lo_, hi_ = {np.uint16: (260, 400), np.int16: (190, 300), np.uint8: (20, 200)}[dt_]
        err = np.random.RandomState(r.randrange(2 ** 31)).randint(lo_, hi_, size=(ny, nx)).astype(dt_)
    elif err is not None and r.random() < 0.4:                     # non-finite errors are masked automatically, with or without a mask argument
        for _ in range(r.randint(1, 3)):
            err[r.randrange(ny), r.randrange(nx)] = r.choice([np.nan, np.inf])
    t = r.random()
    if t < 0.6:
        xy = (r.randint(2, 2 * (nx - 2)) / 2, r.randint(2, 2 * (ny - 2)) / 2)
    elif t < 0.85:
        xy = (r.choice([-0.5, 0.0, nx - 1.0, nx - 0.5]), r.randint(0, 2 * ny) / 2)
    else:
        xy = (nx + 6.0, -5.0)
    method = r.choice(['center', 'subpixel', 'exact'])
    sub = r.choice([1, 2, 4])
    n = r.randint(2, 6)
    steps = [r.choice([0.5, 1.0, 1.5, 0.25]) for _ in range(n)]
    start = r.choice([0.0, 0.0, 0.5, 1.0])
    if k % 7 == 3:
        # wide (e.g. geometric) bins on an image that extends beyond the outermost aperture: the centre of the last bin is well inside
        # its outer edge (seed C19-r13 sized a working cut-out by the bin centres)
        ny, nx = r.randint(30, 44), r.randint(30, 44)
        rs_ = np.random.RandomState(r.randrange(2 ** 31))
        data = np.round(rs_.normal(5, 2, (ny, nx)) * 8) / 8
        mask = None
        err = np.round(rs_.uniform(0.5, 2, (ny, nx)) * 8) / 8 if r.random() < 0.6 else None
        xy = (r.randint(2 * 12, 2 * (nx - 13)) / 2, r.randint(2 * 12, 2 * (ny - 13)) / 2)
        steps = r.choice([[1.0, 1.0, 2.0, 4.0, 4.0], [2.0, 3.0, 5.0], [0.5, 1.5, 3.0, 6.0], [1.0, 2.0, 4.0, 5.0]])
        start = r.choice([0.0, 1.0])
    radii = [start]
    for s in steps:
        radii.append(radii[-1] + s)
    return dict(data=data, mask=mask, err=err, xy=xy, method=method, sub=sub, radii=np.array(radii))


def replay_of(c):
    return {'data': np.asarray(c['data']).tolist(), 'mask': None if c['mask'] is None else c['mask'].astype(int).tolist(),
            'error': None if c['err'] is None else c['err'].tolist(), 'xycen': list(c['xy']), 'method': c['method'],
            'subpixels': c['sub'], 'radii': c['radii'].tolist()}


def aperture_sums(c, radii):
    """reference: circular-aperture photometry of the unmasked data for each radius"""
    from photutils.aperture import CircularAperture
    data = c['data']
    bad = ~np.isfinite(data)
    if c['err'] is not None:
        bad |= ~np.isfinite(c['err'])
    mask = bad if c['mask'] is None else (c['mask'] | bad)
    fl, er, ar = [], [], []
    for rad in radii:
        if rad <= 0:
            fl.append(0.0)
            er.append(0.0)
            ar.append(0.0)
            continue
        ap = CircularAperture(c['xy'], rad)
        with warnings.catch_warnings():
            warnings.simplefilter('ignore')
            # (the reference works on the VALUES of the error map: float64, whatever dtype the profile classes are given)
            f, e = ap.do_photometry(data, error=None if c['err'] is None else np.asarray(c['err'], np.float64), mask=mask, method=c['method'], subpixels=c['sub'])
            a = ap.area_overlap(data, mask=mask, method=c['method'], subpixels=c['sub'])
        fl.append(float(f[0]))
        er.append(float(e[0]) if c['err'] is not None else None)
        ar.append(float(a))
    return fl, er, ar


def run(rep, tier):
    from photutils.profiles import RadialProfile, CurveOfGrowth
    thorough = tier == 'thorough'
    scale = 15 if thorough else 1
    rep.rule = ('random dyadic images (constant / non-negative / NaN-sprinkled), masks, error maps, centres inside/near/off the edge, '
                'non-uniform radii starting at 0 or not, 3 methods; CurveOfGrowth vs per-radius aperture photometry, RadialProfile vs the Lean '
                'difference-quotient model fed those aperture sums; calc_radius_at_ee vs the Lean monotone-prefix model; normalisation histories '
                '(shared with C09). Non-trivial = aperture overlaps the image and at least one bin has non-zero area.')
    rep.assumptions += ['aperture sums themselves are C02 (model + theorems there); Pchip interpolation is not modelled (probed at the sample points)',
                        'normalize/unnormalize theorems live in Props/C09.lean (profile_history_inv, unnormalize_restores)']
    rep.lean = prove(PROP_MODULES)
    if not rep.lean.ok:
        scale *= 3
    r = rng('C19')
    drv = Driver()
    lines, checks = [], []
    for k in range(140 * scale):
        c = gen_case(r, k)
        rp_ok = True
        try:
            with warnings.catch_warnings():
                warnings.simplefilter('ignore')
                mask_in = None if c['mask'] is None else c['mask'].copy()
                rp = RadialProfile(c['data'], c['xy'], c['radii'], error=c['err'], mask=mask_in, method=c['method'],
                                   subpixels=c['sub'])
                prof, perr, area = np.array(rp.profile), np.array(rp.profile_error), np.array(rp.area)
                cog = None
                if c['radii'][0] > 0:
                    mask_in = None if c['mask'] is None else c['mask'].copy()
                    cg = CurveOfGrowth(c['data'], c['xy'], c['radii'], error=c['err'], mask=mask_in, method=c['method'],
                                       subpixels=c['sub'])
                    cog = (np.array(cg.profile), np.array(cg.profile_error), np.array(cg.area))
        except Exception as e:
            rep.violation(f'profile-raises:{type(e).__name__}', f'profile construction/read raised {e!r}', replay_of(c))
            continue
        fl, er, ar = aperture_sums(c, c['radii'])
        overlap = not all(math.isnan(v) for v in fl)
        rep.case(('c19', c['data'].tobytes(), c['xy'], tuple(c['radii']), c['method'], c['sub']),
                 overlap and any(a2 != a1 for a1, a2 in zip(ar, ar[1:]) if not math.isnan(a1) and not math.isnan(a2)),
                 kind=f'{c["method"]}:' + ('start0' if c['radii'][0] == 0 else 'start>0'),
                 sample={'xycen': list(c['xy']), 'radii': c['radii'].tolist(), 'method': c['method'], 'shape': list(c['data'].shape)})
        # (S) curve of growth = aperture sums
        if cog is not None:
            for i in range(len(fl)):
                if not close(cog[0][i], fl[i]) or not close(cog[2][i], ar[i]) or \
                        (c['err'] is not None and not close(cog[1][i], er[i])):
                    rep.violation('cog-ne-aperture-sum', f'CurveOfGrowth sample {i} (r={c["radii"][i]}) differs from '
                                  f'aperture photometry: {cog[0][i]} vs {fl[i]}', replay_of(c))
                    rp_ok = False
                    break
            if rp_ok and np.all(np.isfinite(c['data'])) and np.all(c['data'] >= 0) and np.all(np.isfinite(cog[0])):
                if np.any(np.diff(cog[0]) < -1e-9 * max(1.0, float(np.max(np.abs(cog[0]))))):
                    rep.violation('cog-not-monotone', 'non-negative data but the curve of growth decreases', replay_of(c))
        # (S) constant image -> constant profile
        fin = c['data'][np.isfinite(c['data'])]
        if fin.size == c['data'].size and np.all(c['data'] == c['data'].flat[0]):
            cst = float(c['data'].flat[0])
            for i, p in enumerate(prof):
                if not math.isnan(p) and abs(p - cst) > 1e-9 * max(1.0, abs(cst)):
                    rep.violation('constant-image-profile', f'constant image {cst} but profile bin {i} = {p}', replay_of(c))
                    break
        # (T) model of the difference quotient, exact rational arithmetic on the implementation's aperture sums
        if any(math.isnan(v) or math.isinf(v) for v in fl + ar) or (c['err'] is not None and any(math.isnan(v) or math.isinf(v) for v in er)):
            rep.count('skipped:nonfinite-sums')
            continue
        e2 = '-' if c['err'] is None else ' '.join(q(F(v) ** 2) for v in er)
        lines.append('prof.radial ' + ' '.join(q(v) for v in fl) + ' | ' + ' '.join(q(v) for v in ar) + ' | ' + e2)
        checks.append((c, prof, perr, area))
    out = drv.run(lines)
    if out is None:
        rep.tie_broken('model driver failed', drv.error)
        out = []
    nb = 0
    for ln, o, (c, prof, perr, area) in zip(lines, out, checks):
        rep.traces += 1
        parts = [p.split() for p in o.split('|')]
        mp = parts[1]
        me = parts[2] if len(parts) > 2 else []
        ok = len(mp) == len(prof)
        for i, t in enumerate(mp):
            if not ok:
                break
            if t == 'nan':
                ok = not np.isfinite(prof[i])
            else:
                ok = close(float(F(t)), prof[i], rel=1e-9)
        if ok and c['err'] is not None:
            for i, t in enumerate(me):
                if t == 'nan':
                    ok = ok and not np.isfinite(perr[i])
                else:
                    v = float(F(t))
                    ok = ok and (close(math.sqrt(v) if v >= 0 else float('nan'), perr[i], rel=1e-7))
        if not ok:
            # decide with the direct oracle whether the implementation contradicts the property
            fl, er, ar = aperture_sums(c, c['radii'])
            bad = None
            for i in range(len(prof)):
                da = ar[i + 1] - ar[i]
                if da != 0 and not close((fl[i + 1] - fl[i]) / da, prof[i], rel=1e-8):
                    bad = i
                    break
            if bad is not None:
                rep.violation('radial-ne-difference-quotient',
                              f'RadialProfile bin {bad}: {prof[bad]} != (F[i+1]-F[i])/(A[i+1]-A[i])', replay_of(c))
            else:
                nb += 1
                if nb <= 3:
                    rep.tie_broken('difference-quotient model and RadialProfile disagree', {'op': ln[:300], 'model': o[:300],
                                                                                           'impl': [prof.tolist(), perr.tolist()]})
    ee_stream(rep, drv, r, 60 * scale)
    profile_stream(rep, drv, r, 30 * scale)


def ee_stream(rep, drv, r, n):
    """encircled-energy interpolators invert each other at the sampled radii on the monotone part"""
    from photutils.profiles import CurveOfGrowth
    lines, checks = [], []
    yy, xx = np.mgrid[0:31, 0:31]
    for k in range(n):
        sig = r.choice([1.5, 2.5, 4.0])
        img = np.round(100 * np.exp(-((xx - 15) ** 2 + (yy - 15) ** 2) / (2 * sig ** 2)) * 64) / 64
        if k % 2:
            # make the curve turn over at a random sample
            ring = r.randint(3, 9)
            img[np.hypot(xx - 15, yy - 15) > ring] -= r.choice([1.0, 4.0])
        radii = np.arange(1, r.randint(6, 13))
        with warnings.catch_warnings():
            warnings.simplefilter('ignore')
            cg = CurveOfGrowth(img, (15, 15), radii, method=r.choice(['exact', 'center']))
            prof = np.array(cg.profile)
        lines.append('prof.monoprefix ' + ' '.join(q(v) for v in prof))
        checks.append((cg, prof, radii, img))
        rep.case(('ee', img.tobytes(), tuple(radii)), True, kind='calc_radius_at_ee')
    out = drv.run(lines)
    if out is None:
        rep.tie_broken('model driver failed (ee)', drv.error)
        return
    for ln, o, (cg, prof, radii, img) in zip(lines, out, checks):
        rep.traces += 1
        m = int(o.split()[1])
        replay = {'image': img.tolist(), 'radii': radii.tolist()}
        if m < 2:
            continue
        with warnings.catch_warnings():
            warnings.simplefilter('ignore')
            for i in range(m):
                try:
                    rr = float(cg.calc_radius_at_ee(prof[i]))
                    ee = float(cg.calc_ee_at_radius(radii[i]))
                except Exception as e:
                    rep.violation('ee-raises', f'calc_radius_at_ee/calc_ee_at_radius raised {e!r} on the monotone part', replay)
                    break
                if not close(ee, prof[i], rel=1e-9) or not close(rr, radii[i], rel=1e-9):
                    tag = 'last-monotone-sample' if i == m - 1 else 'interior'
                    rep.violation(f'ee-not-inverse:{tag}',
                                  f'sample {i} of {m} on the monotone part: calc_radius_at_ee(profile[i]) = {rr}, radius[i] = {radii[i]}; '
                                  f'calc_ee_at_radius(radius[i]) = {ee}, profile[i] = {prof[i]}', replay)
                    break
            else:
                # the same after the normalisation state changed on this object (the interpolators follow the current profile)
                for step in (('normalize', 'max'), ('normalize', 'sum'), ('unnormalize',)):
                    try:
                        getattr(cg, step[0])(*step[1:])
                        pn = np.array(cg.profile)
                        ee = np.array([float(cg.calc_ee_at_radius(radii[i])) for i in range(m)])
                        rr = np.array([float(cg.calc_radius_at_ee(pn[i])) for i in range(m)])
                    except Exception as e:                      # noqa: BLE001
                        rep.violation('ee-raises:after-normalisation', f'EE interpolation after {step} raised {e!r}', replay)
                        break
                    if not (np.allclose(ee, pn[:m], rtol=1e-9, atol=0) and np.allclose(rr, radii[:m], rtol=1e-9, atol=0)):
                        rep.violation('ee-not-inverse:after-normalisation', f'after {step}: calc_ee_at_radius(radius) = {ee.tolist()} but the profile is '
                                      f'{pn[:m].tolist()}; calc_radius_at_ee(profile) = {rr.tolist()}', dict(replay, step=list(step)))
                        break


def replay(rep, data):
    run(rep, 'quick')
