"""C08 — indexing a catalogue commutes with evaluating its properties (DESIGN §5 C08)."""
import warnings

import numpy as np

from common import Driver, prove, rng

PROP_MODULES = ['PhotVerif.Props.C08']
ALWAYS_ITERABLE = {'labels', 'ids'}     # documented exceptions to scalar-shaped results


def make_catalog(r, with_detcat=False):
    from astropy.convolution import convolve
    from photutils.segmentation import SourceCatalog, detect_sources, make_2dgaussian_kernel
    rs = np.random.RandomState(r.randrange(2 ** 31))
    yy, xx = np.mgrid[0:48, 0:56]
    img = np.zeros((48, 56))
    for _ in range(r.randint(4, 7)):
        x0, y0 = r.uniform(6, 50), r.uniform(6, 42)
        sx, sy = r.uniform(1.2, 2.4), r.uniform(1.2, 2.4)
        img += r.uniform(40, 120) * np.exp(-0.5 * (((xx - x0) / sx) ** 2 + ((yy - y0) / sy) ** 2))
    # faint, small sources near the detection limit (fall-back branches of the fitted centroids) and a masked-out core
    for _ in range(r.randint(2, 5)):
        x0, y0 = r.uniform(6, 50), r.uniform(6, 42)
        img += r.uniform(3.0, 6.0) * np.exp(-0.5 * (((xx - x0) / 0.9) ** 2 + ((yy - y0) / 0.9) ** 2))
    img += rs.normal(0, 0.4, img.shape)
    err = np.full(img.shape, 0.4)
    with warnings.catch_warnings():
        warnings.simplefilter('ignore')
        conv = convolve(img, make_2dgaussian_kernel(2.0, size=3))
        segm = detect_sources(conv, r.choice([2.0, 1.2]), npixels=r.choice([6, 3]))
        kw = {}
        if with_detcat:
            kw['detection_cat'] = SourceCatalog(img, segm, convolved_data=conv)
        # with a WCS, so that the sky_* properties (SkyCoord objects: scalar for a single-source child) take part in the comparison
        from astropy.wcs import WCS
        w_ = WCS(naxis=2)
        w_.wcs.crpix = [28.0, 24.0]
        w_.wcs.cdelt = [-0.0003, 0.0003]
        w_.wcs.crval = [150.0, 2.0]
        w_.wcs.ctype = ['RA---TAN', 'DEC--TAN']
        cat = SourceCatalog(img * 1.0, segm, convolved_data=conv, error=err, background=np.full(img.shape, 0.1),
                            localbkg_width=r.choice([0, 4]), wcs=w_, **kw)
    return cat, img


def make_apstats(r, sky=None):
    from photutils.aperture import ApertureStats, CircularAperture, CircularAnnulus
    rs = np.random.RandomState(r.randrange(2 ** 31))
    img = rs.normal(5, 1, (40, 44))
    pos = [(r.uniform(-2, 46), r.uniform(-2, 42)) for _ in range(r.randint(3, 6))]
    ap = r.choice([CircularAperture(pos, 3.5), CircularAnnulus(pos, 2.0, 5.0)])
    kw = {}
    if (r.random() < 0.5) if sky is None else sky:
        # sky apertures under a WCS whose pixel scale varies across the frame: the pixel aperture is derived ONCE for the whole catalogue
        # (scale and angle at its first position); a child keeps its rows of it (seed C08-r13 let the child derive its own)
        from astropy.wcs import WCS
        w_ = WCS(naxis=2)
        w_.wcs.crpix = [-30.0, -20.0]
        w_.wcs.cdelt = [-0.6, 0.6]
        w_.wcs.crval = [150.0, 20.0]
        w_.wcs.ctype = ['RA---TAN', 'DEC--TAN']
        inside = [(min(max(x, 2.0), 41.0), min(max(y, 2.0), 37.0)) for x, y in pos]
        ap = ap.__class__(inside, *([3.5] if isinstance(ap, CircularAperture) else [2.0, 5.0])).to_sky(w_)
        kw['wcs'] = w_
    with warnings.catch_warnings():
        warnings.simplefilter('ignore')
        st = ApertureStats(img, ap, error=np.full(img.shape, 0.3), local_bkg=rs.normal(0, 0.1, len(pos)), **kw)
    return st, img


def canon(v):
    """canonical nested representation of a property value"""
    import astropy.units as u
    from astropy.coordinates import SkyCoord
    if v is None:
        return None
    if isinstance(v, SkyCoord):
        return ('sky', bool(v.isscalar), tuple(v.shape), canon(np.round(np.asarray(v.ra.deg), 12)), canon(np.round(np.asarray(v.dec.deg), 12)))
    if isinstance(v, u.Quantity):
        return ('q', str(v.unit), canon(v.value))
    if isinstance(v, np.ma.MaskedArray):
        return ('ma', canon(np.ma.getdata(v)), canon(np.ma.getmaskarray(v)))
    if isinstance(v, np.ndarray):
        if v.dtype == object:
            return ('objarr', [canon(x) for x in v.tolist()])
        return ('arr', v.shape, v.dtype.kind, np.nan_to_num(v.astype(float), nan=-9.87e300).tobytes()
                if v.dtype.kind in 'fiub' else repr(v.tolist()))
    if isinstance(v, (list, tuple)):
        return ('seq', [canon(x) for x in v])
    if isinstance(v, (float, np.floating)):
        return ('f', None if np.isnan(v) else float(v))
    if isinstance(v, (int, np.integer, bool, np.bool_, str)):
        return ('s', v)
    if isinstance(v, slice):
        return ('slice', v.start, v.stop, v.step)
    if hasattr(v, 'bbox') and hasattr(v, 'data'):      # ApertureMask-like
        return ('mask', canon(np.asarray(v.data)), repr(v.bbox))
    if hasattr(v, 'positions'):                          # aperture
        return ('aper', repr(v))
    return ('repr', repr(v))


def index_forms(r, n):
    forms = []
    i = r.randrange(n)
    forms.append(('int', i, f'catsel {n} int {i}'))
    forms.append(('int', -1, f'catsel {n} int -1'))
    a, b = sorted(r.sample(range(n + 1), 2)) if n >= 1 else (0, 0)
    st = r.choice([1, 1, 2])
    forms.append(('slice', slice(a, b, st), f'catsel {n} slice {a} {b} {st}'))
    forms.append(('slice', slice(0, n, 1), f'catsel {n} slice 0 {n} 1'))
    ints = [r.randrange(-n, n) for _ in range(r.randint(1, 4))]
    forms.append(('ints', ints, f'catsel {n} ints ' + ','.join(map(str, ints))))
    perm = list(range(n))
    r.shuffle(perm)                                  # every source, in another order (a child as long as its parent)
    forms.append(('ints', perm, f'catsel {n} ints ' + ','.join(map(str, perm))))
    m = [r.random() < 0.5 for _ in range(n)]
    if not any(m):
        m[0] = True
    forms.append(('mask', np.array(m), f'catsel {n} mask ' + ''.join('1' if v else '0' for v in m)))
    return forms


def apply_index(val, kind, idx):
    """cat.p[idx] on the parent's per-source value"""
    if isinstance(val, list):
        if kind in ('int', 'slice'):
            return val[idx]
        if kind == 'ints':
            return [val[i] for i in idx]
        return [v for v, m in zip(val, idx) if m]
    return val[idx]


def run(rep, tier):
    thorough = tier == 'thorough'
    rep.rule = ('SourceCatalog (with/without detection catalogue, local background) and ApertureStats on random scenes: every public property '
                '(enumerated by introspection at run time) x 6 index forms (int, negative int, slice, full slice, int list with negatives/repeats, '
                'bool mask) x {property evaluated before, after indexing}; extra-property add/rename/remove and photometry methods on slice vs parent. '
                'Non-trivial = property is per-source (not always-scalar).')
    rep.assumptions += ['per-source property values are abstract in the model (C07 gives their definitions); the model covers the '
                        'index arithmetic and the sharing structure']
    rep.lean = prove(PROP_MODULES)
    r = rng('C08')
    drv = Driver()
    lines, exps = [], []
    ncat = 2 if not thorough else 12
    for k in range(ncat):
        for which in ('SourceCatalog', 'ApertureStats'):
            if which == 'SourceCatalog':
                cat, img = make_catalog(r, with_detcat=(k % 2 == 1))
                props = list(cat.properties)
            else:
                cat, img = make_apstats(r, sky=(k % 2 == 0))
                props = list(cat.properties)
            n = len(cat)
            if n < 2:
                continue
            rep.extra.setdefault('public_properties', {})[which] = len(props)
            for kind, idx, line in index_forms(r, n):
                # model: positions selected
                ids = list(cat.labels) if which == 'SourceCatalog' else list(cat.ids)
                try:
                    child = cat[idx]
                    cl = np.atleast_1d(child.labels if which == 'SourceCatalog' else child.ids).tolist()
                    pos = [ids.index(v) for v in cl] if len(set(ids)) == len(ids) else None
                    exps.append('ok ' + (','.join(map(str, pos)) if pos else '-'))
                except IndexError:
                    exps.append('err IndexError')
                    lines.append(line)
                    continue
                lines.append(line)
                for cached_before in (False, True):
                    if which == 'SourceCatalog':
                        base, _ = (cat, None)
                    parent = cat
                    # fresh parent for the "not evaluated before" state: copy without caches
                    import copy
                    par = copy.copy(parent)
                    par.__dict__ = {kk: vv for kk, vv in parent.__dict__.items()
                                    if kk not in set(parent._lazyproperties) or kk.startswith('_') is False and False}
                    par.__dict__ = dict(parent.__dict__)
                    if not cached_before:
                        for kk in list(par.__dict__):
                            if kk in set(parent._lazyproperties) and kk not in ('_null_objects', '_null_values'):
                                par.__dict__.pop(kk, None)
                    subset = props if thorough else r.sample(props, min(len(props), 22))
                    for p in subset:
                        with warnings.catch_warnings():
                            warnings.simplefilter('ignore')
                            try:
                                if cached_before:
                                    pv = getattr(par, p)
                                    ch = par[idx]
                                    cv = getattr(ch, p)
                                else:
                                    ch = par[idx]
                                    cv = getattr(ch, p)
                                    pv = getattr(cat, p)
                            except Exception as e:
                                rep.violation(f'getitem-property-raises:{which}:{p}',
                                              f'{which}[{kind}].{p} raised {e!r} (cached before: {cached_before})',
                                              {'class': which, 'property': p, 'index': str(idx), 'cached_before': cached_before})
                                continue
                        persrc = hasattr(pv, '__len__') and not isinstance(pv, str) and len(pv) == n \
                            and not (np.isscalar(pv))
                        rep.case((which, k, p, kind, str(idx), cached_before), persrc,
                                 kind=f'{which}:{kind}:{"cached" if cached_before else "fresh"}',
                                 sample={'class': which, 'property': p, 'index': str(idx), 'cached_before': cached_before})
                        if not persrc:
                            continue
                        try:
                            expect = apply_index(pv, kind, idx)
                        except Exception:
                            continue
                        if p in ALWAYS_ITERABLE and kind == 'int':
                            # documented: "always as an iterable ndarray", also for a scalar catalogue
                            expect = np.atleast_1d(expect)
                        if canon(cv) != canon(expect):
                            rep.violation(f'getitem-not-commuting:{which}:{p}',
                                          f'{which}: cat[{idx}].{p} != cat.{p}[{idx}] (property evaluated before indexing: {cached_before})',
                                          {'class': which, 'property': p, 'index': str(idx), 'cached_before': cached_before})
            # get_label(s) / get_id(s) on the catalogue and on slices of it: positions vs the model (absent labels are refused)
            ids_all = [int(v) for v in (cat.labels if which == 'SourceCatalog' else cat.ids)]
            getter = (lambda c_, ls: c_.get_labels(ls)) if which == 'SourceCatalog' else (lambda c_, ls: c_.get_ids(ls))
            for t_ in range(8):
                keep = sorted(r.sample(range(n), r.randint(2, n))) if r.random() < 0.7 else list(range(n))
                if t_ % 2 == 0:
                    r.shuffle(keep)                             # a list index may also reorder the sources (ids no longer ascending)
                sub = cat[keep] if keep != list(range(n)) else cat
                held = [ids_all[k_] for k_ in keep]
                req = [r.choice(ids_all) for _ in range(r.randint(1, 3))] if r.random() < 0.6 else r.sample(held, min(len(held), r.randint(1, 3)))
                lines.append('catlabels ' + ' '.join(map(str, held)) + ' | ' + ' '.join(map(str, req)))
                try:
                    with warnings.catch_warnings():
                        warnings.simplefilter('ignore')
                        got = getter(sub, req if len(req) > 1 or r.random() < 0.5 else req[0])
                    gl = [int(v) for v in np.atleast_1d(got.labels if which == 'SourceCatalog' else got.ids)]
                    exps.append('ok ' + ','.join(str(held.index(v)) for v in gl))
                    if gl != req:
                        rep.violation(f'get_label-wrong-source:{which}', f'{which}: requested {req} from a catalogue holding {held}, got sources {gl}',
                                      {'class': which, 'held': held, 'requested': req})
                except (ValueError, KeyError):
                    exps.append('err ValueError')
                except IndexError:
                    exps.append('err IndexError')
                rep.case(('getlabels', which, tuple(held), tuple(req)), any(v not in held for v in req) or held != sorted(held),
                         kind=f'get_labels:{which}:' + ('absent' if any(v not in held for v in req) else 'present'))
        independence(rep, r)
        independence_empty_registry(rep, r)
        photometry_independence(rep, r)
        photometry_independence(rep, r)
        methods_commute(rep, r, k)
    out = drv.run(lines)
    if out is None:
        rep.tie_broken('model driver failed', drv.error)
        return
    nb = 0
    for ln, o, e in zip(lines, out, exps):
        rep.traces += 1
        if o != e:
            nb += 1
            if nb <= 3:
                rep.tie_broken('index model and catalogue __getitem__ disagree on the selected sources',
                               {'op': ln, 'model': o, 'impl': e})


def independence(rep, r):
    """(S) a sliced catalogue is independent of its parent"""
    cat, img = make_catalog(r)
    n = len(cat)
    if n < 3:
        return
    with warnings.catch_warnings():
        warnings.simplefilter('ignore')
        cat.add_extra_property('orig', np.arange(n) * 1.0)
        child = cat[1:]
        before_p = (list(cat.extra_properties), canon(cat.orig))
        child.add_extra_property('child_only', np.arange(n - 1) * 2.0)
        child.rename_extra_property('orig', 'renamed')
        child.circular_photometry(3.0, name='circ')
        child.kron_photometry((2.5, 1.4), name='kr')
        after_p = (list(cat.extra_properties), canon(cat.orig))
        rep.case(('indep', 'child-ops'), True, kind='independence')
        rep.probe_only += 1
        if before_p != after_p or hasattr(cat, 'child_only') or hasattr(cat, 'renamed') or hasattr(cat, 'circ_flux'):
            rep.violation('slice-not-independent:child-to-parent',
                          f'extra-property operations on a slice changed the parent: {before_p[0]} -> {after_p[0]}', {})
        child2 = cat[:2]
        before_c = (list(child2.extra_properties), canon(child2.orig))
        cat.add_extra_property('parent_only', np.arange(n) * 3.0)
        cat.remove_extra_property('orig')
        cat.circular_photometry(2.0, name='pc')
        after_c = (list(child2.extra_properties), canon(child2.orig))
        rep.case(('indep', 'parent-ops'), True, kind='independence')
        rep.probe_only += 1
        if before_c != after_c or hasattr(child2, 'parent_only') or hasattr(child2, 'pc_flux'):
            rep.violation('slice-not-independent:parent-to-child',
                          f'extra-property operations on the parent changed an existing slice: {before_c[0]} -> {after_c[0]}', {})
        # table output of both still works
        try:
            cat.to_table(columns=['label', 'parent_only'])
            child.to_table(columns=['label', 'child_only', 'renamed'])
        except Exception as e:
            rep.violation('slice-not-independent:to_table', f'to_table failed after independent extra-property operations: {e!r}', {})


def independence_empty_registry(rep, r):
    """(S) the same independence when the catalogue holds NO extra property at the moment it is indexed (every index form): properties
    added, renamed or computed with name= afterwards on the parent, a child or a sibling appear only there"""
    cat, img = make_catalog(r)
    n = len(cat)
    if n < 3:
        return
    with warnings.catch_warnings():
        warnings.simplefilter('ignore')
        kids = {'slice': cat[1:], 'int': cat[0], 'list': cat[[0, 2]], 'mask': cat[np.arange(n) % 2 == 0]}
        who = r.choice(['parent', 'slice', 'list'])
        tgt = cat if who == 'parent' else kids[who]
        tgt.add_extra_property('late', np.arange(len(tgt)) * 1.0 if not tgt.isscalar else 1.0)
        tgt.circular_photometry(3.0, name='latecirc')
        tgt.rename_extra_property('late', 'late2')
        rep.case(('indep-empty', who), True, kind=f'independence:empty-registry:{who}')
        rep.probe_only += 1
        others = {'parent': cat, **kids}
        for nm, o in others.items():
            if o is tgt:
                continue
            if list(o.extra_properties) or hasattr(o, 'late2') or hasattr(o, 'latecirc_flux'):
                rep.violation(f'slice-not-independent:empty-registry:{who}-to-{nm}',
                              f'a catalogue without extra properties was indexed; extra properties then added on the {who} are listed by the {nm}: '
                              f'{list(o.extra_properties)}', {'added_on': who, 'seen_on': nm})
                return
            try:
                o.to_table(columns=['label'] + list(o.extra_properties))
                o.add_extra_property('late2', np.arange(len(o)) * 1.0 if not o.isscalar else 2.0)      # the name is free there
            except Exception as e:                              # noqa: BLE001
                rep.violation(f'slice-not-independent:empty-registry:{type(e).__name__}', f'after extra properties were added on the {who}, the {nm} raised {e!r}',
                              {'added_on': who, 'seen_on': nm})
                return


def methods_commute(rep, r, k=0):
    """(S) the per-source photometry METHODS (fluxfrac_radius, circular_photometry, kron_photometry) commute with indexing too, also for a
    single-source child and for sources whose Kron aperture fell back to the minimum circular radius (third kron parameter)"""
    from photutils.segmentation import SourceCatalog
    from photutils.segmentation import detect_sources
    yy, xx = np.mgrid[0:48, 0:56]
    img = np.zeros((48, 56))
    cells = [(x_, y_) for x_ in (9, 23, 37, 50) for y_ in (9, 24, 39)]
    r.shuffle(cells)
    for j, (cx, cy) in enumerate(cells[:r.randint(4, 6)]):
        sg = 0.75 if j < 2 else r.uniform(1.5, 2.5)              # two compact sources: their Kron aperture falls back to the minimum circular radius
        img += r.uniform(60, 120) * np.exp(-0.5 * (((xx - cx - r.uniform(-1, 1)) / sg) ** 2 + ((yy - cy - r.uniform(-1, 1)) / (sg * r.uniform(0.8, 1.0))) ** 2))
    img += np.random.RandomState(r.randrange(2 ** 31)).normal(0, 0.05, img.shape)
    with warnings.catch_warnings():
        warnings.simplefilter('ignore')
        segm = detect_sources(img, 1.0, npixels=3)
    n = 0 if segm is None else segm.nlabels
    if n < 3:
        return
    kp = (2.5, 1.4, [5.0, 3.0, 0.0][k % 3])

    def fresh():
        with warnings.catch_warnings():
            warnings.simplefilter('ignore')
            return SourceCatalog(img * 1.0, segm, error=np.full(img.shape, 0.4), kron_params=kp)
    calls = [('fluxfrac_radius', (0.5,)), ('circular_photometry', (3.0,)), ('kron_photometry', ((2.0, 1.0),)), ('kron_photometry', ((2.5, 1.4, 6.0),))]
    # kron_photometry with its own parameters gives what a catalogue CONSTRUCTED with those parameters reports as kron_flux (defect F73: the
    # minimum circular radius was taken from the catalogue's own parameters)
    with warnings.catch_warnings():
        warnings.simplefilter('ignore')
        try:
            alt = (2.5, 1.4, 6.0)
            got = np.asarray(fresh().kron_photometry(alt)[0], float)
            want = np.asarray(SourceCatalog(img * 1.0, segm, error=np.full(img.shape, 0.4), kron_params=alt).kron_flux, float)
            if not np.allclose(got, want, rtol=1e-10, equal_nan=True):
                rep.violation('kron_photometry-ne-constructor', f'kron_photometry{alt} on a catalogue built with kron_params={kp} gives {got.tolist()}; a catalogue built '
                              f'with kron_params={alt} reports kron_flux = {want.tolist()}', {'kron_params': list(kp), 'method_params': list(alt), 'image': img.tolist()})
        except Exception as e:                                  # noqa: BLE001
            rep.violation(f'method-raises:parent:kron_photometry:{type(e).__name__}', f'SourceCatalog(kron_params={kp}).kron_photometry((2.5, 1.4, 6.0)) raised {e!r}',
                          {'kron_params': list(kp), 'image': img.tolist()})
    with warnings.catch_warnings():
        warnings.simplefilter('ignore')
        par = fresh()
        nfall = int(np.sum(np.asarray(par.kron_radius.value) == 0))
        rep.case(('methods', n, kp, img.tobytes()[:64]), True, kind='methods-commute:' + ('min-circular-radius-fallback' if nfall else 'no-fallback'))
        rep.probe_only += 1
        for name, args in calls:
            try:
                pv = getattr(par, name)(*args)
            except Exception as e:                              # noqa: BLE001
                rep.violation(f'method-raises:parent:{name}:{type(e).__name__}', f'SourceCatalog.{name}{args} raised {e!r}', {'kron_params': list(kp), 'image': img.tolist()})
                continue
            forms = [('int', i) for i in range(n)] + [('slice', slice(1, None)), ('ints', [n - 1, 0])]
            for kind, idx in forms:
                try:
                    cv = getattr(fresh()[idx], name)(*args)
                except Exception as e:                          # noqa: BLE001
                    rep.violation(f'method-raises:child:{name}:{type(e).__name__}', f'SourceCatalog[{idx}].{name}{args} raised {e!r} although the parent '
                                  f'evaluates it (kron_params {kp}, Kron radius of that source {par.kron_radius[idx]})',
                                  {'kron_params': list(kp), 'index': repr(idx), 'method': name, 'image': img.tolist()})
                    break
                exp = tuple(apply_index(x, kind, idx) for x in pv) if isinstance(pv, tuple) else apply_index(pv, kind, idx)
                if canon(cv) != canon(exp):
                    rep.violation(f'method-not-commuting:{name}', f'SourceCatalog[{idx}].{name}{args} differs from the parent rows',
                                  {'kron_params': list(kp), 'index': repr(idx), 'method': name, 'image': img.tolist()})
                    break


def photometry_independence(rep, r):
    """(S) photometry methods with their own parameters (alternate kron_params) on a catalogue or on one of its slices never change
    what the catalogue, its slices or its parent report; extra properties added with overwrite=True are carried by slices;
    get_label on a slice refuses labels the slice does not hold"""
    import copy
    cat, img = make_catalog(r)
    n = len(cat)
    if n < 4:
        return
    cols = ['label', 'xcentroid', 'ycentroid', 'segment_flux', 'kron_radius', 'kron_flux', 'kron_fluxerr', 'semimajor_sigma']

    def tab(c_):
        with warnings.catch_warnings():
            warnings.simplefilter('ignore')
            t = c_.to_table(columns=cols)
        return {k_: np.atleast_1d(np.asarray(getattr(t[k_], 'value', t[k_]), float)) for k_ in cols}

    def same(a, b, sl=None):
        return all(np.array_equal(a[k_] if sl is None else a[k_][sl], b[k_], equal_nan=True) for k_ in cols)
    twin = copy.deepcopy(cat)
    with warnings.catch_warnings():
        warnings.simplefilter('ignore')
        t0 = tab(twin)
        who = r.choice(['slice', 'list', 'parent'])
        first = r.choice(['read-first', 'photometry-first'])
        child, childl = cat[1:], cat[[0, 2]]
        if first == 'read-first':
            _ = (tab(cat), tab(child))
        big = (r.choice([4.0, 6.0]), r.choice([4.0, 6.5]), r.choice([0.0, 3.0]))     # minimum radii above the measured ones
        tgt = {'slice': child, 'list': childl, 'parent': cat}[who]
        try:
            tgt.kron_photometry(big, name='alt')
            tgt.make_kron_apertures(kron_params=big)
        except Exception as e:                                  # noqa: BLE001
            rep.violation(f'kron_photometry-raises:{type(e).__name__}', f'kron_photometry{big} raised {e!r}', {'kron_params': big})
            return
        rep.case(('photindep', who, first, big), True, kind=f'photometry-independence:{who}:{first}')
        rep.probe_only += 1
        rp = {'kron_params': list(big), 'called_on': who, 'order': first, 'image': img.tolist()}
        if not same(t0, tab(cat)):
            rep.violation(f'photometry-changes-reports:parent:{who}', f'after kron_photometry{big} on the {who}, the parent catalogue reports different '
                          'values than a fresh catalogue', rp)
            return
        if not same(t0, tab(child), slice(1, None)) or not same(t0, tab(childl), [0, 2]) or not same(t0, tab(cat[[1, 3]]), [1, 3]):
            rep.violation(f'photometry-changes-reports:slice:{who}', f'after kron_photometry{big} on the {who}, a slice reports different values than '
                          'the same rows of a fresh catalogue', rp)
            return
        # overwrite=True with a new name registers the property
        vals = np.arange(n) * 1.5
        cat.add_extra_property('ow_new', vals, overwrite=True)
        try:
            ok = 'ow_new' in cat.extra_properties and float(cat[2].ow_new) == vals[2] and np.array_equal(cat[[1, 3]].ow_new, vals[[1, 3]])
        except AttributeError:
            ok = False
        if not ok:
            rep.violation('extra-property-not-sliced:overwrite-new-name', "add_extra_property(name, value, overwrite=True) with a new name: the property is "
                          'missing from extra_properties / from sliced catalogues', {})
        # get_label on a slice: a label of the parent that is not in the slice
        sub = cat[[0, 2, n - 1]]
        absent = int(cat.labels[1])
        try:
            got = sub.get_label(absent)
            rep.violation('get_label-absent-label', f'get_label({absent}) on a slice holding labels {[int(v) for v in sub.labels]} returned the source '
                          f'with label {int(np.atleast_1d(got.labels)[0])} instead of raising', {})
        except (ValueError, KeyError, IndexError):
            rep.count('get_label-absent-rejected')
        present = int(cat.labels[n - 1])
        if int(np.atleast_1d(sub.get_label(present).labels)[0]) != present:
            rep.violation('get_label-wrong-source', f'get_label({present}) on a slice returned another source', {})


def replay(rep, data):
    run(rep, 'quick')
