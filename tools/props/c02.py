"""C02 — aperture sums are mask-weighted sums over unmasked in-image pixels (DESIGN §5 C02)."""
import math
import warnings
from fractions import Fraction as F

import numpy as np

import gens
from common import Driver, prove, q, rng
from props.c01 import gen_aperture, make_aperture

PROP_MODULES = ['PhotVerif.Props.C02']


def same(a, b, scale=1.0, rel=1e-11):
    a, b = float(a), float(b)
    if math.isnan(a) or math.isnan(b):
        return math.isnan(a) and math.isnan(b)
    if math.isinf(a) or math.isinf(b):
        return a == b
    return abs(a - b) <= rel * max(scale, abs(a), abs(b)) + 1e-300


def vfloat(tok):
    if tok == 'nan':
        return float('nan')
    if tok == 'inf':
        return float('inf')
    if tok == '-inf':
        return float('-inf')
    return float(F(tok))


def gen_case(r, k):
    ny, nx = gens.size(r, 1, 10), gens.size(r, 1, 10)
    kind, p = gen_aperture(r, boundary=(k % 3 == 0))
    # positions: inside / straddling / outside
    t = r.random()
    if t < 0.5:
        p['cx'] = r.randint(0, 2 * (nx - 1)) / 2
        p['cy'] = r.randint(0, 2 * (ny - 1)) / 2
    elif t < 0.8:
        p['cx'] = r.choice([-0.5, 0.0, nx - 1.0, nx - 0.5, r.randint(-2, nx + 1)])
        p['cy'] = r.choice([-0.5, 0.0, ny - 1.0, ny - 0.5, r.randint(-2, ny + 1)])
    else:
        p['cx'] = r.choice([-20.0, nx + 15.5, 3.0])
        p['cy'] = r.choice([-17.5, ny + 30.0])
    p['size'] = r.choice([0.5, 1.0, 1.5, 2.0, 2.5])
    data = gens.image(r, ny, nx, special=0.35)
    mask = gens.mask(r, ny, nx)
    err = gens.error_map(r, ny, nx)
    method = r.choice(['center', 'subpixel', 'exact'])
    sub = r.choice([1, 2, 4, 3, 5])
    return dict(kind=kind, p=p, ny=ny, nx=nx, data=data, mask=mask, err=err, method=method, sub=sub)


def impl_single(c):
    ap = make_aperture(c['kind'], c['p'])
    with warnings.catch_warnings():
        warnings.simplefilter('ignore')
        s, e = ap.do_photometry(c['data'], error=c['err'], mask=c['mask'], method=c['method'],
                                subpixels=c['sub'])
        area = ap.area_overlap(c['data'], mask=c['mask'], method=c['method'], subpixels=c['sub'])
        m = ap.to_mask(method=c['method'], subpixels=c['sub'])
    return ap, float(s[0]), (float(e[0]) if c['err'] is not None else None), float(area), m


def run(rep, tier):
    scale = 1 if tier == 'quick' else 25
    rep.rule = ('random dyadic images (NaN/inf sprinkled), masks, error maps, 6 aperture classes x 3 methods, '
                'positions inside / straddling / outside; model fed the implementation\'s own to_mask weights; '
                'non-trivial = aperture overlaps the image and at least one pixel is excluded by mask, weight or edge')
    rep.assumptions += ['sqrt of the variance sum is outside the model (compared after squaring)',
                        'WCS transforms are a parameter (sky apertures are probed, not modelled)',
                        'float summation order is not modelled (tolerance 1e-11 * sum|terms|)']
    rep.lean = prove(PROP_MODULES)
    if not rep.lean.ok:
        scale *= 3
    r = rng('C02')
    drv = Driver()
    n = 220 * scale
    cases, lines, impl = [], [], []
    for k in range(n):
        c = gen_case(r, k)
        try:
            ap, s, e, area, m = impl_single(c)
        except Exception as ex:
            rep.violation(f'do_photometry-raises:{type(ex).__name__}',
                          f'do_photometry/area_overlap raised {ex!r} on valid input', sig_case(c))
            continue
        bb = m.bbox
        w = np.asarray(m.data)
        if not np.isfinite(w).all():
            # non-finite aperture weights are a C01 matter (known finding F20: exact ellipse in degenerate contact with a pixel)
            rep.count('skipped:non-finite-aperture-weight (C01)')
            continue
        hd = f'{bb.ixmin} {bb.ixmax} {bb.iymin} {bb.iymax} {c["ny"]} {c["nx"]}'
        lines.append(f'apsum {hd} | ' + ' '.join(q(v) for v in w.ravel()) + ' | '
                     + gens.arr_tokens(c['data']) + ' | ' + gens.mask_tokens(c['mask']) + ' | '
                     + ('-' if c['err'] is None else gens.arr_tokens(c['err'])))
        cases.append(c)
        impl.append((s, e, area, w, bb))
    out = drv.run(lines)
    if out is None:
        rep.tie_broken('model driver failed', drv.error)
        out = [None] * len(lines)
    for c, ln, o, (s, e, area, w, bb) in zip(cases, lines, out, impl):
        # independent brute-force oracle (S)
        exp_s, exp_v, exp_a, scale_s, overlap, excluded = brute(c, w, bb)
        rep.case(ln[:2000], overlap and excluded, kind=f'{c["kind"]}:{c["method"]}:'
                 + ('overlap' if overlap else 'no-overlap'),
                 sample={'kind': c['kind'], 'params': c['p'], 'shape': [c['ny'], c['nx']],
                         'method': c['method'], 'impl_sum': s})
        sig = f'{c["method"]}'
        if not overlap:
            if not (math.isnan(s) and math.isnan(area) and (e is None or math.isnan(e))):
                rep.violation('no-overlap-not-nan', f'aperture box misses the image but sum={s} area={area}',
                              sig_case(c))
            if o is not None:
                rep.traces += 1
                if o != 'none':
                    rep.tie_broken('model says overlap, implementation box misses the image', {'op': ln[:300]})
            continue
        if not same(s, exp_s, scale_s):
            rep.violation(f'sum-mismatch:{sig}', f'do_photometry sum {s} != sum(w*data) over good pixels {exp_s}',
                          sig_case(c))
            continue
        if e is not None and not same(e * e if not math.isnan(e) else e, exp_v, max(1.0, abs(exp_v)) if not (math.isnan(exp_v) or math.isinf(exp_v)) else 1.0, rel=1e-10):
            rep.violation(f'err-mismatch:{sig}', f'do_photometry err^2 {e*e} != sum(w*err^2) {exp_v}', sig_case(c))
            continue
        if not same(area, exp_a, 1.0):
            rep.violation(f'area-mismatch:{sig}', f'area_overlap {area} != sum(w) over unmasked in-image pixels {exp_a}',
                          sig_case(c))
            continue
        if o is None:
            continue
        rep.traces += 1
        if not o.startswith('ok '):
            rep.tie_broken('model rejects / no-overlap where implementation overlaps', {'op': ln[:300], 'model': o})
            continue
        ms, mv, ma = o.split()[1:4]
        if not same(vfloat(ms), s, scale_s) or not same(vfloat(ma), area, 1.0) or \
                (e is not None and not same(vfloat(mv), e * e if not math.isnan(e) else e,
                                            1.0 if math.isnan(exp_v) or math.isinf(exp_v) else max(1.0, abs(exp_v)), rel=1e-10)):
            rep.tie_broken('Lean model and implementation disagree on aperture sum/err/area',
                           {'op': ln[:400], 'model': o, 'impl': [s, e, area]})
    probes(rep, r, 60 * scale)


def sig_case(c):
    return {'kind': c['kind'], 'params': c['p'], 'shape': [c['ny'], c['nx']], 'method': c['method'],
            'subpixels': c['sub'], 'data': np.asarray(c['data']).tolist(),
            'mask': None if c['mask'] is None else np.asarray(c['mask']).astype(int).tolist(),
            'error': None if c['err'] is None else np.asarray(c['err']).tolist()}


def brute(c, w, bb):
    ny, nx = c['ny'], c['nx']
    tot = 0.0
    var = 0.0
    area = 0.0
    sc = 0.0
    overlap = False
    excluded = False
    with np.errstate(all='ignore'):
        for j in range(w.shape[0]):
            for i in range(w.shape[1]):
                y, x = bb.iymin + j, bb.ixmin + i
                if not (0 <= y < ny and 0 <= x < nx):
                    excluded = True
                    continue
                overlap = True
                msk = c['mask'] is not None and bool(c['mask'][y, x])
                if msk:
                    excluded = True
                    continue
                area += w[j, i]
                if w[j, i] > 0:
                    tot += w[j, i] * c['data'][y, x]
                    if np.isfinite(c['data'][y, x]):
                        sc += abs(w[j, i] * c['data'][y, x])
                    if c['err'] is not None:
                        var += w[j, i] * c['err'][y, x] ** 2
                else:
                    excluded = True
    return tot, var, area, max(sc, 1.0), overlap, excluded


def probes(rep, r, n):
    """(S) metamorphic relations on the implementation"""
    from astropy.nddata import NDData, StdDevUncertainty
    from astropy.wcs import WCS
    import astropy.units as u
    from photutils.aperture import aperture_photometry, CircularAperture, SkyCircularAperture, CircularAnnulus
    for k in range(n):
        c = gen_case(r, k)
        rep.probe_only += 1
        ap = make_aperture(c['kind'], c['p'])
        data = np.where(np.isfinite(c['data']), c['data'], 1.0)
        kw = dict(mask=c['mask'], method=c['method'], subpixels=c['sub'])
        with warnings.catch_warnings():
            warnings.simplefilter('ignore')
            s0 = ap.do_photometry(data, **kw)[0][0]
            # linearity
            g = gens.image(r, c['ny'], c['nx'], special=0)
            a = r.choice([2.0, -0.5, 3.0])
            s1 = ap.do_photometry(a * data + g, **kw)[0][0]
            sg = ap.do_photometry(g, **kw)[0][0]
            if not same(s1, a * s0 + sg, max(1.0, abs(a * s0) + abs(sg)), rel=1e-9):
                rep.violation('not-linear', f'do_photometry(a*f+g)={s1} != a*S(f)+S(g)={a*s0+sg}', sig_case(c))
            # blindness: poison masked / zero-weight / outside-box pixels
            m = ap.to_mask(method=c['method'], subpixels=c['sub'])
            img = m.to_image((c['ny'], c['nx']))
            poison = data.copy()
            if img is not None:
                dead = (img <= 0)
                if c['mask'] is not None:
                    dead |= c['mask']
                poison[dead] = r.choice([np.nan, np.inf, 1e300])
                s2 = ap.do_photometry(poison, **kw)[0][0]
                if not (s2 == s0 or (math.isnan(s2) and math.isnan(s0))):
                    rep.violation('not-blind', f'value stored in masked/zero-weight pixels changed the sum: {s0} -> {s2}',
                                  sig_case(c))
            # error maps held in small integer dtypes (counts): the quadrature sum is taken over the VALUES, squares that do not fit the
            # dtype included (uint8 > 15, int16 > 181, uint16 > 255)
            if k % 3 == 0:
                dt = [np.uint8, np.int16, np.uint16][(k // 3) % 3]
                top = {np.uint8: 200, np.int16: 30000, np.uint16: 60000}[dt]
                rs_ = np.random.RandomState(r.randrange(2 ** 31))
                erri = rs_.randint(top // 2, top, size=data.shape).astype(dt)
                ei = ap.do_photometry(data, error=erri, **kw)[1][0]
                ef = ap.do_photometry(data, error=erri.astype(np.float64), **kw)[1][0]
                rep.count(f'integer-error-probe:{np.dtype(dt).name}')
                if not same(ei, ef, max(1.0, abs(float(ef)) if np.isfinite(ef) else 1.0), rel=1e-12):
                    rep.violation(f'integer-error-map:{np.dtype(dt).name}', f'aperture_sum_err = {ei} for a {np.dtype(dt).name} error map but {ef} for the same '
                                  'values as float64', dict(sig_case(c), error=erri.tolist(), error_dtype=np.dtype(dt).name))
            # images held in integer / float32 dtypes: the weights stay fractional (float64) whatever the dtype of the image (seed C02-r12
            # cast the weights to the image dtype)
            if k % 3 == 1:
                dti = [np.uint16, np.int32, np.float32][(k // 3) % 3]
                di = np.round(np.abs(data) * 8).astype(dti)
                si = ap.do_photometry(di, **kw)[0][0]
                sf = ap.do_photometry(di.astype(np.float64), **kw)[0][0]
                rep.count(f'integer-image-probe:{np.dtype(dti).name}')
                if not same(si, sf, max(1.0, abs(float(sf)) if np.isfinite(sf) else 1.0), rel=1e-12 if dti is not np.float32 else 1e-5):
                    rep.violation(f'image-dtype:{np.dtype(dti).name}', f'aperture_sum = {si} for a {np.dtype(dti).name} image but {sf} for the same values as float64',
                                  dict(sig_case(c), image=di.tolist(), image_dtype=np.dtype(dti).name))
            # batch == singles; list of apertures == individually; NDData == arrays
            pos = [(c['p']['cx'], c['p']['cy']), (c['p']['cx'] + 1.5, c['p']['cy'] - 2.0), (-30.0, 4.0)]
            ap3 = CircularAperture(pos, 1.5)
            err = c['err']
            t3 = aperture_photometry(c['data'], ap3, error=err, mask=c['mask'], method=c['method'], subpixels=c['sub'])
            for i, ps in enumerate(pos):
                t1 = aperture_photometry(c['data'], CircularAperture(ps, 1.5), error=err, mask=c['mask'],
                                         method=c['method'], subpixels=c['sub'])
                for col in ['aperture_sum'] + (['aperture_sum_err'] if err is not None else []):
                    if not same(t3[col][i], t1[col][0], rel=0):
                        rep.violation('batch-ne-single', f'{col}: batch row {i} {t3[col][i]} != single {t1[col][0]}',
                                      sig_case(c))
            # area_overlap / do_photometry of a multi-position aperture of the case's own class == one position at a time, with
            # positions that share their sub-pixel phase (integer offsets) and a masked pixel under the first one
            shape_kw = {nm: getattr(ap, nm) for nm in ap._params if nm != 'positions'}
            posn = [(c['p']['cx'], c['p']['cy']), (c['p']['cx'] + 2.0, c['p']['cy'] - 1.0), (c['p']['cx'] - 1.0, c['p']['cy'] + 2.0),
                    (c['p']['cx'] + 0.5, c['p']['cy'])]
            mk = np.zeros((c['ny'], c['nx']), bool) if c['mask'] is None else c['mask'].copy()
            yy0, xx0 = int(round(c['p']['cy'])), int(round(c['p']['cx']))
            if 0 <= yy0 < c['ny'] and 0 <= xx0 < c['nx']:
                mk[yy0, xx0] = True
            apn = type(ap)(posn, **shape_kw)
            an = np.asarray(apn.area_overlap(data, mask=mk, method=c['method'], subpixels=c['sub']), float)
            sn = np.asarray(apn.do_photometry(data, mask=mk, method=c['method'], subpixels=c['sub'])[0], float)
            for i, ps in enumerate(posn):
                ap1 = type(ap)(ps, **shape_kw)
                a1 = float(np.asarray(ap1.area_overlap(data, mask=mk, method=c['method'], subpixels=c['sub'])))
                s1_ = float(np.asarray(ap1.do_photometry(data, mask=mk, method=c['method'], subpixels=c['sub'])[0][0]))
                if not same(an[i], a1, rel=0) or not same(sn[i], s1_, rel=0):
                    rep.violation('batch-ne-single:area/sum', f'{c["kind"]}: position {i} of a multi-position aperture gives area {an[i]}, sum {sn[i]}; '
                                  f'alone it gives area {a1}, sum {s1_}', dict(sig_case(c), positions=posn))
                    break
            # an aperture of the case's class lying entirely inside a larger frame, no mask: the overlap area is still the sum of the
            # weights actually used (for rectangles the 'exact' weights are a sub-sampling, so it is NOT the analytic area)
            big = np.ones((40, 44))
            apin = type(ap)((20.3 + (c['p']['cx'] % 1), 17.6 + (c['p']['cy'] % 1)), **shape_kw)
            if apin.bbox.ixmin >= 0 and apin.bbox.iymin >= 0 and apin.bbox.ixmax <= 44 and apin.bbox.iymax <= 40:
                a_in = float(np.asarray(apin.area_overlap(big, method=c['method'], subpixels=c['sub'])))
                wts_in = apin.to_mask(method=c['method'], subpixels=c['sub']).data
                if wts_in.min() < 0 or wts_in.max() > 1:
                    rep.count('skipped:fully-inside:weights-outside-[0,1] (F20)')     # the sums drop pixels of non-positive weight
                    wts_in = None
                w_in = float(wts_in.sum()) if wts_in is not None else None
                s_in = float(np.asarray(apin.do_photometry(big, method=c['method'], subpixels=c['sub'])[0][0]))
                rep.count('fully-inside-area-probe')
                if w_in is not None and not (same(a_in, w_in, rel=1e-12) and same(s_in, w_in, rel=1e-12)):
                    rep.violation(f'area-mismatch:fully-inside:{c["kind"]}', f'{c["kind"]} entirely inside the image, method {c["method"]}: area_overlap = {a_in}, '
                                  f'photometry of an image of ones = {s_in}, sum of the mask weights = {w_in}', dict(sig_case(c), inside=True))
            ann = CircularAnnulus(pos, 1.0, 2.5)
            tl = aperture_photometry(c['data'], [ap3, ann], error=err, mask=c['mask'], method=c['method'],
                                     subpixels=c['sub'])
            ta = aperture_photometry(c['data'], ann, error=err, mask=c['mask'], method=c['method'], subpixels=c['sub'])
            for i in range(3):
                if not same(tl['aperture_sum_0'][i], t3['aperture_sum'][i], rel=0) or \
                        not same(tl['aperture_sum_1'][i], ta['aperture_sum'][i], rel=0):
                    rep.violation('list-ne-individual', 'list of apertures differs from individual calls', sig_case(c))
            nd = NDData(c['data'], mask=c['mask'], uncertainty=None if err is None else StdDevUncertainty(err),
                        unit=u.Jy)
            tn = aperture_photometry(nd, ap3, method=c['method'], subpixels=c['sub'])
            for i in range(3):
                v = tn['aperture_sum'][i]
                if getattr(v, 'unit', None) != u.Jy or not same(v.value, t3['aperture_sum'][i], rel=0):
                    rep.violation('nddata-ne-array', f'NDData form gives {v}, array form {t3["aperture_sum"][i]}',
                                  sig_case(c))
                if err is not None and not same(tn['aperture_sum_err'][i].value, t3['aperture_sum_err'][i], rel=0):
                    rep.violation('nddata-ne-array', 'NDData error form differs from array form', sig_case(c))
            # sky aperture == its to_pixel image
            if k % 4 == 0:
                w = WCS(naxis=2)
                w.wcs.crpix = [c['nx'] / 2, c['ny'] / 2]
                w.wcs.cdelt = [-0.0002, 0.0002]
                w.wcs.crval = [30.0, -20.0]
                w.wcs.ctype = ['RA---TAN', 'DEC--TAN']
                sky = w.pixel_to_world(c['p']['cx'], c['p']['cy'])
                sa = SkyCircularAperture(sky, 1.3 * 0.72 * u.arcsec)
                ts = aperture_photometry(c['data'], sa, wcs=w, mask=c['mask'], method=c['method'], subpixels=c['sub'])
                tp = aperture_photometry(c['data'], sa.to_pixel(w), mask=c['mask'], method=c['method'],
                                         subpixels=c['sub'])
                if not same(ts['aperture_sum'][0], tp['aperture_sum'][0], rel=0):
                    rep.violation('sky-ne-pixel', 'sky aperture photometry differs from its to_pixel(wcs) image',
                                  sig_case(c))
        rep.case(('probe', k, c['kind'], tuple(sorted(c['p'].items()))), True, kind='probe')


def replay(rep, data):
    run(rep, 'quick')
