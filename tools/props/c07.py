"""C07 — SourceCatalog measurements equal their definitions on the segment pixels (DESIGN §5 C07)."""
import math
import warnings
from fractions import Fraction as F

import numpy as np

import gens
from common import Driver, prove, rng

PROP_MODULES = ['PhotVerif.Props.C07']
DELTA = 1.0 / 12


def close(a, b, rel=1e-10, scale=1.0):
    a, b = float(a), float(b)
    if math.isnan(a) or math.isnan(b):
        return math.isnan(a) and math.isnan(b)
    if math.isinf(a) or math.isinf(b):
        return a == b
    return abs(a - b) <= rel * max(scale, abs(a), abs(b))


def vfloat(t):
    if t in ('nan', '-'):
        return float('nan')
    if t == 'inf':
        return float('inf')
    if t == '-inf':
        return float('-inf')
    return float(F(t))


def gen_case(r, k):
    ny, nx = gens.size(r, 3, 10), gens.size(r, 3, 10)
    seg = gens.label_map(r, ny, nx, maxlabels=4, background=(r.random() < 0.9))
    if not seg.any():
        seg[r.randrange(ny), r.randrange(nx)] = 1
    data = gens.image(r, ny, nx, special=0.3, palette=0.3)
    conv = None
    if r.random() < 0.5:
        conv = gens.image(r, ny, nx, special=0.2, palette=0.2)
    mask = gens.mask(r, ny, nx)
    err = gens.error_map(r, ny, nx)
    bkg = gens.image(r, ny, nx, special=0) if r.random() < 0.4 else None
    return dict(ny=ny, nx=nx, seg=seg, data=data, conv=conv, mask=mask, err=err, bkg=bkg)


def replay_of(c):
    return {k: (None if v is None else (np.asarray(v).astype(float).tolist() if k != 'seg' else np.asarray(v).tolist()))
            for k, v in c.items() if k not in ('ny', 'nx')}


def make_cat(c, **kw):
    from photutils.segmentation import SourceCatalog, SegmentationImage
    with warnings.catch_warnings():
        warnings.simplefilter('ignore')
        return SourceCatalog(c['data'], SegmentationImage(c['seg'].copy()), convolved_data=c['conv'], error=c['err'],
                             mask=c['mask'], background=c['bkg'], **kw)


def impl_rows(cat):
    rows = []
    with warnings.catch_warnings():
        warnings.simplefilter('ignore')
        n = len(cat.labels)
        g = lambda name: np.atleast_1d(getattr(cat, name))
        mom = np.atleast_3d(cat.moments) if n > 1 else cat.moments[np.newaxis] if np.ndim(cat.moments) == 2 else cat.moments
        mom = np.asarray(cat.moments).reshape(n, 4, 4)
        mini = np.asarray(cat.minval_index).reshape(n, 2)
        maxi = np.asarray(cat.maxval_index).reshape(n, 2)
        for i in range(n):
            rows.append(dict(
                label=int(g('labels')[i]), flux=float(np.asarray(g('segment_flux'))[i]),
                area=float(g('area')[i].value), segarea=float(g('segment_area')[i].value),
                bbox=(int(g('bbox_ymin')[i]), int(g('bbox_ymax')[i]) + 1, int(g('bbox_xmin')[i]), int(g('bbox_xmax')[i]) + 1),
                minv=float(np.asarray(g('min_value'))[i]), maxv=float(np.asarray(g('max_value'))[i]),
                mini=tuple(mini[i]), maxi=tuple(maxi[i]), m00=float(mom[i, 0, 0]),
                cx=float(g('xcentroid')[i]), cy=float(g('ycentroid')[i]),
                sx2=float(np.asarray(g('covar_sigx2'))[i]), sxy=float(np.asarray(g('covar_sigxy'))[i]),
                sy2=float(np.asarray(g('covar_sigy2'))[i]),
                err=float(np.asarray(g('segment_fluxerr'))[i]), bsum=float(np.asarray(g('background_sum'))[i])))
    return rows


def run(rep, tier):
    thorough = tier == 'thorough'
    scale = 15 if thorough else 1
    rep.rule = ('random small scenes: label maps with touching / nested / non-connected / edge-hugging labels and label gaps, dyadic data with '
                'NaN/inf inside segments, masks cutting through segments, separate convolved data, error and background maps; every modelled '
                'column compared with the Lean model; locality / relabel / reorder / all-masked relations evaluated on the implementation for '
                'all default columns. Non-trivial = the label shares its bounding box with another label, or has masked / non-finite pixels.')
    rep.assumptions += ['kron, flux-fraction radii, windowed centroid, local background, perimeter, gini and the eigen-derived shape columns '
                        'are not modelled (locality probe only)', 'sqrt of the error sum is outside the model']
    rep.lean = prove(PROP_MODULES)
    if not rep.lean.ok:
        scale *= 3
    r = rng('C07')
    drv = Driver()
    lines, checks = [], []
    for k in range(90 * scale):
        c = gen_case(r, k)
        try:
            cat = make_cat(c)
            rows = impl_rows(cat)
        except Exception as e:
            rep.violation(f'catalog-raises:{type(e).__name__}', f'SourceCatalog raised {e!r}', replay_of(c))
            continue
        labels = [row['label'] for row in rows]
        seg = c['seg']
        for row in rows:
            lab = row['label']
            ys, xs = np.nonzero(seg == lab)
            box = seg[ys.min():ys.max() + 1, xs.min():xs.max() + 1]
            shares = bool(((box != lab) & (box != 0)).any())
            special = bool((~np.isfinite(c['data'][seg == lab])).any() or (c['mask'] is not None and c['mask'][seg == lab].any()))
            rep.case((seg.tobytes(), c['data'].tobytes(), lab), shares or special,
                     kind='label:' + ('shared-bbox' if shares else 'alone') + (':masked/nonfinite' if special else ''),
                     sample={'shape': [c['ny'], c['nx']], 'label': lab, 'seg': seg.tolist()})
        n = c['ny'] * c['nx']
        tok = lambda a: '-' if a is None else gens.arr_tokens(a)
        lines.append(f'cat {c["ny"]} {c["nx"]} | ' + ' '.join(str(int(v)) for v in seg.ravel()) + ' | ' + tok(c['data'])
                     + ' | ' + tok(c['conv']) + ' | ' + gens.mask_tokens(c['mask']) + ' | ' + tok(c['err']) + ' | '
                     + tok(c['bkg']) + ' | ' + ' '.join(map(str, labels)))
        checks.append((c, rows))
        probes(rep, r, c, cat, rows)
        if k % 6 == 0:
            wcs_probe(rep, r, c)
        if k % 6 == 3:
            integer_error_probe(rep, r, c)
    thin_segments_probe(rep, r, 40 * scale)
    isotropic_sources_probe(rep, r, 60 * scale)
    out = drv.run(lines)
    if out is None:
        rep.tie_broken('model driver failed', drv.error)
        return
    nb = 0
    for ln, o, (c, rows) in zip(lines, out, checks):
        rep.traces += 1
        if not o.startswith('ok '):
            nb += 1
            if nb <= 3:
                rep.tie_broken('catalog model rejected the input', {'model': o, 'op': ln[:200]})
            continue
        mrows = [t.split() for t in o[3:].split(' ; ')]
        for row, m in zip(rows, mrows):
            bad = compare_row(c, row, m)
            if not bad:
                ib = index_contradiction(c, row)
                if ib:
                    rep.violation(f'column-ne-definition:{ib[0]}', f'label {row["label"]}: {ib[1]}', dict(replay_of(c), label=row['label']))
                    break
            if bad:
                # decide with the direct numpy oracle whether the implementation contradicts the definition
                orc = oracle_row(c, row['label'])
                cbad = [k_ for k_ in bad if k_ in orc and not close(orc[k_], row_val(row, k_), rel=1e-9)]
                ibad = index_contradiction(c, row) if ('minval_index' in bad or 'maxval_index' in bad) else None
                if ibad and not cbad:
                    rep.violation(f'column-ne-definition:{ibad[0]}', f'label {row["label"]}: {ibad[1]}', dict(replay_of(c), label=row['label']))
                elif cbad:
                    rep.violation(f'column-ne-definition:{cbad[0]}',
                                  f'label {row["label"]}: {cbad[0]} = {row_val(row, cbad[0])} but the defining formula on the '
                                  f'unmasked finite segment pixels gives {orc[cbad[0]]}', dict(replay_of(c), label=row['label']))
                else:
                    nb += 1
                    if nb <= 3:
                        rep.tie_broken('catalog model and SourceCatalog disagree',
                                       {'label': row['label'], 'columns': bad, 'model': ' '.join(m), 'impl': str(row), 'case': replay_of(c)})
                break


def row_val(row, k):
    return {'flux': row['flux'], 'area': row['area'], 'segarea': row['segarea'], 'minv': row['minv'], 'maxv': row['maxv'],
            'm00': row['m00'], 'cx': row['cx'], 'cy': row['cy'], 'bsum': row['bsum'], 'err': row['err']}.get(k, float('nan'))


def compare_row(c, row, m):
    """m: model tokens: label flux area segarea y0 y1 x0 x1 miny minx minv maxy maxx maxv m00 cx cy mu20 mu11 mu02 err2 bkgsum"""
    bad = []
    if int(m[0]) != row['label']:
        return ['label']
    if not close(vfloat(m[1]), row['flux'], scale=10):
        bad.append('flux')
    if not close(vfloat(m[2]), row['area']):
        bad.append('area')
    if not close(vfloat(m[3]), row['segarea']):
        bad.append('segarea')
    if tuple(int(v) for v in m[4:8]) != row['bbox']:
        bad.append('bbox')
    if not close(vfloat(m[10]), row['minv']) or not close(vfloat(m[13]), row['maxv']):
        bad.append('minv' if not close(vfloat(m[10]), row['minv']) else 'maxv')
    if not (close(vfloat(m[8]), row['mini'][0]) and close(vfloat(m[9]), row['mini'][1])):
        bad.append('minval_index')
    if not (close(vfloat(m[11]), row['maxi'][0]) and close(vfloat(m[12]), row['maxi'][1])):
        bad.append('maxval_index')
    if not close(vfloat(m[14]), row['m00'], scale=10):
        bad.append('m00')
    if not close(vfloat(m[15]), row['cx'], rel=1e-9) or not close(vfloat(m[16]), row['cy'], rel=1e-9):
        bad.append('cx')
    # covariance: compare only where no regularisation is applied
    mu = [vfloat(m[17]), vfloat(m[18]), vfloat(m[19])]
    if not any(math.isnan(v) for v in mu):
        det = mu[0] * mu[2] - mu[1] ** 2
        if det >= DELTA ** 2 * 1.000001:
            if not (close(mu[0], row['sx2'], rel=1e-7, scale=1) and close(mu[1], row['sxy'], rel=1e-7, scale=1)
                    and close(mu[2], row['sy2'], rel=1e-7, scale=1)):
                bad.append('covariance')
    if m[20] != '-':
        v = vfloat(m[20])
        e = row['err']
        if not close(v, e * e if not math.isnan(e) else e, rel=1e-9, scale=1):
            bad.append('err')
    if m[21] != '-':
        if not close(vfloat(m[21]), row['bsum'], scale=10):
            bad.append('bsum')
    return bad


def index_contradiction(c, row):
    """(S) minval_index / maxval_index (image coordinates) must point at an unmasked finite pixel of the segment that carries the
    minimum / maximum of those pixels"""
    sel = c['seg'] == row['label']
    good = sel & np.isfinite(c['data'])
    if c['mask'] is not None:
        good &= ~c['mask']
    if not good.any():
        return None
    v = c['data'][good]
    for nm, idx, ext in (('minval_index', row['mini'], float(v.min())), ('maxval_index', row['maxi'], float(v.max()))):
        if any(math.isnan(float(t)) for t in idx):
            return (nm, f'{nm} is NaN but the segment has unmasked finite pixels')
        y, x = int(idx[0]), int(idx[1])
        if not (0 <= y < c['ny'] and 0 <= x < c['nx']) or not good[y, x]:
            return (nm, f'{nm} = ({y}, {x}) is not an unmasked finite pixel of the segment')
        if float(c['data'][y, x]) != ext:
            return (nm, f'{nm} = {tuple(int(t) for t in idx)} points at value {float(c["data"][y, x])} but the extreme value of the segment pixels is {ext}')
    return None


def oracle_row(c, lab):
    """(S) direct numpy evaluation of the defining formulas"""
    sel = c['seg'] == lab
    good = sel & np.isfinite(c['data'])
    if c['mask'] is not None:
        good &= ~c['mask']
    out = {'segarea': float(sel.sum())}
    if not good.any():
        out.update(flux=float('nan'), area=float('nan'), minv=float('nan'), maxv=float('nan'))
    else:
        v = c['data'][good]
        out.update(flux=float(v.sum()), area=float(good.sum()), minv=float(v.min()), maxv=float(v.max()))
    if c['bkg'] is not None:
        out['bsum'] = float(c['bkg'][good].sum()) if good.any() else float('nan')
    conv = c['conv'] if c['conv'] is not None else c['data']
    mv = np.where(sel & np.isfinite(conv) & (np.nan_to_num(conv, nan=-1) >= 0) & (~c['mask'] if c['mask'] is not None else True), conv, 0.0)
    mv = np.nan_to_num(mv, nan=0.0, posinf=0.0, neginf=0.0)
    yy, xx = np.mgrid[0:c['ny'], 0:c['nx']]
    m00 = float(mv.sum())
    out['m00'] = m00
    with np.errstate(all='ignore'):
        out['cx'] = float((mv * xx).sum() / m00) if m00 != 0 else float('nan')
        out['cy'] = float((mv * yy).sum() / m00) if m00 != 0 else float('nan')
    return out


DEFAULT_COLS = ['xcentroid', 'ycentroid', 'bbox_xmin', 'bbox_xmax', 'bbox_ymin', 'bbox_ymax', 'area', 'semimajor_sigma',
                'semiminor_sigma', 'orientation', 'eccentricity', 'min_value', 'max_value', 'segment_flux', 'segment_fluxerr',
                'kron_flux', 'kron_fluxerr', 'perimeter', 'equivalent_radius', 'cxx', 'cyy', 'cxy', 'gini']


def table_of(cat, cols):
    out = {}
    with warnings.catch_warnings():
        warnings.simplefilter('ignore')
        labs = [int(v) for v in np.atleast_1d(cat.labels)]
        for col in cols:
            try:
                v = np.atleast_1d(np.asarray(getattr(getattr(cat, col), 'value', getattr(cat, col)), dtype=float))
            except Exception as e:      # a column that raises is reported by the caller
                v = None
            out[col] = v
    return labs, out


def bilinear_at(img, x, y):
    """bilinear interpolation at (x, y), coordinates clamped to the image (scipy map_coordinates order=1, mode='nearest')"""
    ny, nx = img.shape
    x, y = min(max(x, 0.0), nx - 1.0), min(max(y, 0.0), ny - 1.0)
    x0, y0 = int(np.floor(x)), int(np.floor(y))
    x1, y1 = min(x0 + 1, nx - 1), min(y0 + 1, ny - 1)
    fx, fy = x - x0, y - y0
    return ((1 - fy) * ((1 - fx) * img[y0, x0] + fx * img[y0, x1]) + fy * ((1 - fx) * img[y1, x0] + fx * img[y1, x1]))


def background_at_centroid(rep, c, cat):
    """(S) background_centroid = the background map interpolated at (xcentroid, ycentroid) - x is the column"""
    if c['bkg'] is None:
        return
    with warnings.catch_warnings():
        warnings.simplefilter('ignore')
        bc = np.atleast_1d(np.asarray(getattr(cat.background_centroid, 'value', cat.background_centroid), float))
        xs = np.atleast_1d(np.asarray(cat.xcentroid, float))
        ys = np.atleast_1d(np.asarray(cat.ycentroid, float))
    bkg = np.asarray(c['bkg'], float)
    rep.count('background_centroid-oracle', len(bc))
    for i, (b, x, y) in enumerate(zip(bc, xs, ys)):
        if not (np.isfinite(x) and np.isfinite(y)):
            if not np.isnan(b):
                rep.violation('background_centroid:nan-centroid', 'background_centroid is a number for a source without a centroid', replay_of(c))
            continue
        e = bilinear_at(bkg, x, y)
        if np.isfinite(e) and not close(b, e, 1e-9, scale=max(1.0, float(np.nanmax(np.abs(bkg))))):
            rep.violation('background_centroid', f'row {i}: background_centroid = {b} but the background interpolated at the centroid '
                          f'(x={x:.3f}, y={y:.3f}) is {e}', replay_of(c))
            return


def thin_segments_probe(rep, r, n):
    """(S) "infinitely thin" sources (one-pixel-wide lines, incl. diagonals whose covariance determinant is exactly zero): the shape
    parameters are finite and equal the documented regularisation (1/12 added to the diagonal until det >= 1/144), evaluated exactly"""
    from photutils.segmentation import SourceCatalog, SegmentationImage
    for k in range(n):
        L = r.randint(2, 8)
        kind = r.choice(['diag', 'antidiag', 'row', 'col', 'single'])
        if kind == 'single':
            L = 1
        img = np.zeros((12, 13))
        seg = np.zeros((12, 13), int)
        pts = []
        for i in range(L):
            y, x = {'diag': (2 + i, 1 + i), 'antidiag': (2 + i, 11 - i), 'row': (5, 2 + i), 'col': (2 + i, 6), 'single': (4, 7)}[kind]
            seg[y, x] = 1
            img[y, x] = r.randint(1, 64) / 8
            pts.append((y, x))
        with warnings.catch_warnings():
            warnings.simplefilter('ignore')
            cat = SourceCatalog(img, SegmentationImage(seg))
            got = [float(np.atleast_1d(getattr(cat, nm).value)[0]) for nm in ('semimajor_sigma', 'semiminor_sigma', 'orientation')]
        rep.case(('thin', kind, img.tobytes()), True, kind=f'thin-source:{kind}')
        rep.probe_only += 1
        w = [F(img[y, x]) for y, x in pts]
        m00 = sum(w)
        cx = sum(wi * x for wi, (y, x) in zip(w, pts)) / m00
        cy = sum(wi * y for wi, (y, x) in zip(w, pts)) / m00
        a = sum(wi * (x - cx) ** 2 for wi, (y, x) in zip(w, pts)) / m00       # mu20 / m00 (x variance)
        cc = sum(wi * (y - cy) ** 2 for wi, (y, x) in zip(w, pts)) / m00      # mu02 / m00
        b = sum(wi * (x - cx) * (y - cy) for wi, (y, x) in zip(w, pts)) / m00
        while a * cc - b * b < F(1, 144):
            a += F(1, 12)
            cc += F(1, 12)
        tr, df = float(a + cc) / 2, float(a - cc) / 2
        rad = math.sqrt(df * df + float(b) ** 2)
        exp = [math.sqrt(tr + rad), math.sqrt(max(tr - rad, 0.0))]
        rp = {'kind': kind, 'data': img.tolist(), 'seg': seg.tolist()}
        if not all(math.isfinite(g) for g in got[:2]):
            rep.violation(f'thin-source-nan-shape:{kind}', f'a one-pixel-wide {kind} source of {L} pixels has semimajor/semiminor sigma {got[:2]} '
                          f'(the documented regularisation gives {exp})', rp)
            continue
        if not (close(got[0], exp[0], rel=1e-8) and close(got[1], exp[1], rel=1e-8)):
            rep.violation(f'thin-source-shape:{kind}', f'{kind} source: semimajor/semiminor sigma {got[:2]}, the regularised second moments give {exp}', rp)
            continue
        if rad > 1e-9:
            eo = 0.5 * math.degrees(math.atan2(2 * float(b), float(a - cc)))
            if abs(((got[2] - eo) + 90.0) % 180.0 - 90.0) > 1e-6:
                rep.violation(f'thin-source-orientation:{kind}', f'{kind} source: orientation {got[2]} deg, second moments give {eo}', rp)


def isotropic_sources_probe(rep, r, n):
    """(S) sources whose covariance is isotropic up to round-off (noise-free circular Gaussians, constant discs and squares centred on a
    pixel): the eigenvalues are those of the symmetric covariance matrix the catalogue itself reports, and every shape column is finite
    (seed C07-r13: a closed form trace/2 +- sqrt(trace^2/4 - det) whose radicand cancels to about -1e-15 -> NaN in about 1 source in 5)"""
    from photutils.segmentation import SourceCatalog, SegmentationImage
    for k in range(n):
        ny, nx = 21, 23
        yy, xx = np.mgrid[0:ny, 0:nx]
        cx, cy = r.randint(8, 14), r.randint(8, 12)
        rad = r.choice([2, 3, 3, 4, 5])
        kind = ['gauss', 'disc', 'square'][k % 3]
        sel = ((xx - cx) ** 2 + (yy - cy) ** 2 <= rad ** 2) if kind != 'square' else ((abs(xx - cx) <= rad) & (abs(yy - cy) <= rad))
        if kind == 'gauss':
            img = r.uniform(1, 200) * np.exp(-((xx - cx) ** 2 + (yy - cy) ** 2) / (2 * r.uniform(1.0, 3.0) ** 2))
        else:
            img = np.full((ny, nx), r.uniform(0.1, 50))
        seg = sel.astype(int)
        with warnings.catch_warnings():
            warnings.simplefilter('ignore')
            try:
                cat = SourceCatalog(img, SegmentationImage(seg))
                cov = np.asarray(cat.covariance[0], float)
                ev = np.asarray(cat.covariance_eigvals[0], float)
                cols = {c_: float(np.asarray(getattr(cat, c_))[0]) for c_ in ('semimajor_sigma', 'semiminor_sigma', 'fwhm', 'eccentricity', 'elongation',
                                                                             'ellipticity', 'cxx', 'cyy', 'cxy', 'orientation')}
            except Exception as e:                                  # noqa: BLE001
                rep.violation(f'isotropic-source-raises:{type(e).__name__}', f'SourceCatalog shape columns raised {e!r} for an isotropic source', {'data': img.tolist(), 'segm': seg.tolist()})
                continue
        rep.case(('iso', img.tobytes(), seg.tobytes()), True, kind='isotropic-source:' + kind)
        rep.probe_only += 1
        rp = {'kind': kind, 'centre': [cx, cy], 'radius': rad, 'data': img.tolist(), 'segm': seg.tolist()}
        want = np.sort(np.linalg.eigvalsh(cov))[::-1]
        bad = [c_ for c_, v in cols.items() if not np.isfinite(v)]
        if bad or not np.all(np.isfinite(ev)):
            rep.violation('isotropic-source-nonfinite', f'{kind} source of radius {rad} centred on a pixel: covariance {cov.tolist()} is finite but covariance_eigvals = {ev.tolist()}, '
                          f'non-finite columns {bad}', rp)
        elif not np.allclose(ev, want, rtol=1e-9, atol=1e-12):
            rep.violation('isotropic-source-eigvals', f'covariance_eigvals {ev.tolist()} but the eigenvalues of the reported covariance {cov.tolist()} are {want.tolist()}', rp)
        elif not (abs(cols['semimajor_sigma'] - math.sqrt(want[0])) <= 1e-9 * math.sqrt(want[0]) and abs(cols['semiminor_sigma'] - math.sqrt(want[1])) <= 1e-9 * math.sqrt(want[1])):
            rep.violation('isotropic-source-sigma', f'semimajor/semiminor sigma {cols["semimajor_sigma"]}, {cols["semiminor_sigma"]} are not the square roots of the eigenvalues {want.tolist()}', rp)


def detection_catalog_probe(rep, r, c):
    """(S) with a detection catalogue (same segmentation image, its own image / mask) the photometric columns are still the defining
    formulas on THIS catalogue's unmasked finite segment pixels (centroids, shapes and `area` come from the detection catalogue by
    design); with a local background, segment_flux = sum(data - local_background) over those pixels"""
    from photutils.segmentation import SourceCatalog, SegmentationImage
    det_mask = gens.mask(r, c['ny'], c['nx'])
    det_data = gens.image(r, c['ny'], c['nx'], special=0.2, palette=0.3)
    lw = r.choice([0, 0, 3])
    rp = dict(replay_of(c), detection_data=det_data.tolist(), detection_mask=None if det_mask is None else det_mask.astype(int).tolist(), localbkg_width=lw)
    with warnings.catch_warnings():
        warnings.simplefilter('ignore')
        try:
            det = SourceCatalog(det_data, SegmentationImage(c['seg'].copy()), mask=det_mask, localbkg_width=lw)
            cat = SourceCatalog(c['data'], SegmentationImage(c['seg'].copy()), error=c['err'], mask=c['mask'], background=c['bkg'],
                                detection_cat=det, localbkg_width=lw)
            vals = {nm: np.atleast_1d(np.asarray(getattr(getattr(cat, nm), 'value', getattr(cat, nm)), float))
                    for nm in ('segment_flux', 'segment_fluxerr', 'min_value', 'max_value', 'background_sum', 'background_mean', 'local_background')}
            labels = [int(v) for v in np.atleast_1d(cat.labels)]
        except Exception as e:                                  # noqa: BLE001
            rep.violation(f'catalog-raises:detection_cat:{type(e).__name__}', f'SourceCatalog(detection_cat=...) raised {e!r}', rp)
            return
    rep.case(('detcat', c['seg'].tobytes(), c['data'].tobytes(), lw), True, kind=f'detection_cat:localbkg{lw}')
    rep.probe_only += 1
    # a sliced / reordered detection catalogue shares the segmentation image but not the row order: it is either rejected or its rows are
    # matched by label - never silently used row by row (defect F72)
    if len(labels) >= 2:
        with warnings.catch_warnings():
            warnings.simplefilter('ignore')
            full_x = np.atleast_1d(np.asarray(cat.xcentroid, float))
            for what, sub in (('reversed', det[::-1]), ('subset', det[[0]])):
                try:
                    c2 = SourceCatalog(c['data'], SegmentationImage(c['seg'].copy()), error=c['err'], mask=c['mask'], background=c['bkg'], detection_cat=sub,
                                       localbkg_width=lw)
                    x2 = np.atleast_1d(np.asarray(c2.xcentroid, float))
                    l2 = [int(v) for v in np.atleast_1d(c2.labels)]
                except (ValueError, TypeError):
                    continue                                    # rejected: fine
                except Exception as e:                          # noqa: BLE001
                    rep.violation(f'catalog-raises:detection_cat-{what}:{type(e).__name__}', f'SourceCatalog(detection_cat=<{what} catalogue>) raised {e!r}', rp)
                    return
                exp2 = [full_x[labels.index(l_)] for l_ in l2] if all(l_ in labels for l_ in l2) else None
                if exp2 is None or len(x2) != len(l2) or not np.allclose(x2, exp2, equal_nan=True):
                    rep.violation(f'detection_cat-rows-misassigned:{what}', f'a {what} detection catalogue was accepted: labels {l2}, xcentroid {x2.tolist()}; the detection '
                                  f'catalogue gives {dict(zip(labels, full_x.tolist()))} for these labels', rp)
                    return
    for i, lab in enumerate(labels):
        good = (c['seg'] == lab) & np.isfinite(c['data'])
        if c['mask'] is not None:
            good &= ~c['mask']
        if not good.any():
            exp = dict(segment_flux=np.nan, min_value=np.nan, max_value=np.nan)
        else:
            v = c['data'][good]
            lb = vals['local_background'][i] if lw else 0.0
            exp = dict(segment_flux=float((v - lb).sum()), min_value=float(v.min() - lb), max_value=float(v.max() - lb))
            if c['err'] is not None:
                exp['segment_fluxerr'] = float(np.sqrt((c['err'][good] ** 2).sum()))
            if c['bkg'] is not None:
                exp['background_sum'] = float(c['bkg'][good].sum())
                exp['background_mean'] = float(c['bkg'][good].mean())
        for nm, e in exp.items():
            g = float(vals[nm][i])
            if not close(e, g, rel=1e-9, scale=10):
                rep.violation(f'column-ne-definition:detection_cat:{nm}', f'label {lab} with a detection catalogue: {nm} = {g} but the defining formula on this '
                              f"catalogue's unmasked finite segment pixels gives {e}", dict(rp, label=lab))
                return


def integer_error_probe(rep, r, c):
    """(S) an error map held in a small integer dtype (counts) whose squares do not fit the dtype: the error columns are the quadrature
    sums of the VALUES, i.e. what the same map gives as float64 (seed C07-r11 squared in the integer dtype)"""
    dt = r.choice([np.uint16, np.int16, np.uint8])
    lo, hi = {np.uint16: (260, 400), np.int16: (190, 300), np.uint8: (20, 200)}[dt]
    rs = np.random.RandomState(r.randrange(2 ** 31))
    erri = rs.randint(lo, hi, size=c['data'].shape).astype(dt)
    cols = ('segment_fluxerr', 'kron_fluxerr')
    try:
        a = make_cat(dict(c, err=erri))
        b = make_cat(dict(c, err=erri.astype(np.float64)))
        with warnings.catch_warnings():
            warnings.simplefilter('ignore')
            va = {nm: np.atleast_1d(np.asarray(getattr(getattr(a, nm), 'value', getattr(a, nm)), float)) for nm in cols}
            vb = {nm: np.atleast_1d(np.asarray(getattr(getattr(b, nm), 'value', getattr(b, nm)), float)) for nm in cols}
            va['circ'] = np.atleast_1d(np.asarray(a.circular_photometry(2.0)[1], float))
            vb['circ'] = np.atleast_1d(np.asarray(b.circular_photometry(2.0)[1], float))
    except Exception as e:                                      # noqa: BLE001
        rep.violation(f'catalog-raises:integer-error:{type(e).__name__}', f'SourceCatalog with a {np.dtype(dt).name} error map raised {e!r}', replay_of(c))
        return
    rep.probe_only += 1
    rep.count(f'integer-error-probe:{np.dtype(dt).name}')
    for nm in va:
        if not np.allclose(va[nm], vb[nm], rtol=1e-12, equal_nan=True):
            j = int(np.flatnonzero(~np.isclose(va[nm], vb[nm], rtol=1e-12, equal_nan=True))[0])
            rep.violation(f'integer-error-map:{nm}', f'{nm} of source #{j} = {va[nm][j]} for a {np.dtype(dt).name} error map, {vb[nm][j]} for the same values as float64',
                          dict(replay_of(c), error=erri.tolist(), error_dtype=np.dtype(dt).name))
            return


def wcs_probe(rep, r, c):
    """(S) with a WCS: the sky positions are the images of the pixel positions they are defined by - sky_centroid of (xcentroid, ycentroid),
    the four sky_bbox_* vertices of the OUTSIDE corners of the minimal bounding box (bbox_xmin - 0.5 ... bbox_xmax + 0.5; defect F67)"""
    from astropy.wcs import WCS
    w = WCS(naxis=2)
    w.wcs.crpix = [r.uniform(1, 8), r.uniform(1, 8)]
    w.wcs.cdelt = [-0.0005, 0.0005]
    w.wcs.crval = [r.uniform(20, 200), r.uniform(-40, 40)]
    w.wcs.ctype = ['RA---TAN', 'DEC--TAN']
    try:
        cat = make_cat(c, wcs=w)
        with warnings.catch_warnings():
            warnings.simplefilter('ignore')
            xmin, xmax, ymin, ymax = (np.atleast_1d(np.asarray(getattr(cat, n_), float)) for n_ in ('bbox_xmin', 'bbox_xmax', 'bbox_ymin', 'bbox_ymax'))
            want = {'sky_bbox_ll': (xmin - 0.5, ymin - 0.5), 'sky_bbox_ul': (xmin - 0.5, ymax + 0.5), 'sky_bbox_lr': (xmax + 0.5, ymin - 0.5),
                    'sky_bbox_ur': (xmax + 0.5, ymax + 0.5),
                    'sky_centroid': (np.atleast_1d(np.asarray(cat.xcentroid, float)), np.atleast_1d(np.asarray(cat.ycentroid, float)))}
            got = {}
            for nm in want:
                sk = getattr(cat, nm)
                px = w.world_to_pixel(sk)
                got[nm] = (np.atleast_1d(np.asarray(px[0], float)), np.atleast_1d(np.asarray(px[1], float)))
    except Exception as e:                                      # noqa: BLE001
        rep.violation(f'catalog-raises:wcs:{type(e).__name__}', f'SourceCatalog with a WCS raised {e!r}', replay_of(c))
        return
    rep.probe_only += 1
    rep.count('wcs-probe')
    for nm, (wx, wy) in want.items():
        gx, gy = got[nm]
        fin = np.isfinite(wx) & np.isfinite(wy)
        if not (np.allclose(gx[fin], wx[fin], atol=1e-6) and np.allclose(gy[fin], wy[fin], atol=1e-6)):
            j = int(np.flatnonzero(fin & ~(np.isclose(gx, wx, atol=1e-6) & np.isclose(gy, wy, atol=1e-6)))[0])
            rep.violation(f'sky-position:{nm}', f'{nm} of source #{j} maps back to pixel ({gx[j]:.4f}, {gy[j]:.4f}); its definition gives ({wx[j]:.4f}, {wy[j]:.4f}) '
                          f'(bbox x {xmin[j]:.0f}..{xmax[j]:.0f}, y {ymin[j]:.0f}..{ymax[j]:.0f})', replay_of(c))
            return


def probes(rep, r, c, cat, rows):
    """(S) metamorphic relations on the implementation, all default columns (kron etc. included)"""
    background_at_centroid(rep, c, cat)
    if r.random() < 0.5:
        detection_catalog_probe(rep, r, c)
    if r.random() > 0.35:
        return
    labs, base = table_of(cat, DEFAULT_COLS)
    rep.probe_only += 1
    seg = c['seg']
    # 1. change data outside every segment footprint (background pixels and masked pixels): rows unchanged
    #    (kron apertures reach outside the segment, so they are excluded from this relation)
    c2 = dict(c)
    d2 = c['data'].copy()
    outside = seg == 0
    d2[outside] = d2[outside] * 3.0 + 7.0
    c2['data'] = d2
    if c['conv'] is None:
        c2['conv'] = c['data'].copy()
    c1 = dict(c)
    if c['conv'] is None:
        c1['conv'] = c['data'].copy()
    _, a = table_of(make_cat(c1), DEFAULT_COLS)
    _, b = table_of(make_cat(c2), DEFAULT_COLS)
    local_cols = [k for k in DEFAULT_COLS if not k.startswith('kron')]
    for col in local_cols:
        if a[col] is None or b[col] is None or not np.array_equal(a[col], b[col], equal_nan=True):
            rep.violation(f'not-local:{col}', f'{col} changed when only background pixels outside all segments were changed',
                          replay_of(c))
            break
    # 2. injective relabelling permutes nothing but the label column
    perm = {l: 10 + 3 * i for i, l in enumerate(labs)}
    c3 = dict(c)
    s3 = np.zeros_like(seg)
    for l, nl in perm.items():
        s3[seg == l] = nl
    c3['seg'] = s3
    labs3, t3 = table_of(make_cat(c3), DEFAULT_COLS)
    if labs3 != [perm[l] for l in labs]:
        rep.violation('relabel-order', 'order-preserving relabelling changed the row order', replay_of(c))
    else:
        for col in DEFAULT_COLS:
            if base[col] is None or t3[col] is None or not np.array_equal(base[col], t3[col], equal_nan=True):
                rep.violation(f'relabel-changes:{col}', f'{col} changed under an injective relabelling', replay_of(c))
                break
    # 3. reordering rows
    if len(labs) >= 2:
        order = labs[::-1]
        with warnings.catch_warnings():
            warnings.simplefilter('ignore')
            sub = cat.get_labels(order)
        labs4, t4 = table_of(sub, ['segment_flux', 'area', 'xcentroid', 'min_value'])
        for col in t4:
            if not np.array_equal(t4[col], base[col][::-1] if col in base else t4[col], equal_nan=True):
                rep.violation(f'row-order:{col}', 'reordering rows with get_labels changed a value', replay_of(c))
                break
    # 4. a completely masked source yields NaN
    lab = labs[0]
    c5 = dict(c)
    m5 = np.zeros(seg.shape, bool) if c['mask'] is None else c['mask'].copy()
    m5[seg == lab] = True
    c5['mask'] = m5
    try:
        _, t5 = table_of(make_cat(c5), ['segment_flux', 'area', 'min_value', 'max_value', 'segment_fluxerr'])
        for col, v in t5.items():
            if col == 'segment_fluxerr' and c['err'] is None:
                continue
            if v is None or not np.isnan(v[0]):
                rep.violation(f'all-masked-not-nan:{col}', f'completely masked source: {col} = {None if v is None else v[0]}', replay_of(c5))
                break
    except Exception as e:
        rep.violation(f'all-masked-raises:{type(e).__name__}', f'completely masked source raised {e!r}', replay_of(c5))


def replay(rep, data):
    run(rep, 'quick')
