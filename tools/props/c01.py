"""C01 — aperture masks are the true pixel-overlap fractions (see DESIGN.md §5 C01)."""
import math
from fractions import Fraction as F

import numpy as np

from common import Driver, prove, q, fbits, rng, leanchecker

PROP_MODULES = ['PhotVerif.Props.C01', 'PhotVerif.Props.C01Subpix']


def pow2(s):
    return s & (s - 1) == 0


# ----------------------------------------------------------------- aperture generation
def gen_aperture(r, boundary=False):
    """returns (kind, params dict) with dyadic parameters"""
    kind = r.choice(['circ', 'circann', 'ell', 'ellann', 'rect', 'rectann'])
    m = r.choice([1, 2, 3])
    cx = r.randint(-4 * 2 ** m, 12 * 2 ** m) / 2 ** m
    cy = r.randint(-4 * 2 ** m, 12 * 2 ** m) / 2 ** m
    if boundary:
        cx = r.choice([round(cx), round(cx) + 0.5])
        cy = r.choice([round(cy), round(cy) + 0.5])
    size = r.choice([0.25, 0.5, 1.0, 1.5, 2.0, 2.5, 3.0, r.randint(1, 40) / 8])
    ratio = r.choice([1.0, 0.5, 0.25, 0.75])
    theta = r.choice([0.0, 0.0, math.pi / 2, math.pi / 4, r.uniform(-3.2, 3.2), math.pi, -math.pi / 2])
    inner = r.choice([0.5, 0.25, 0.75, 0.875])
    p = {'cx': cx, 'cy': cy, 'size': size, 'ratio': ratio, 'theta': theta, 'inner': inner}
    if not kind.startswith('circ') and r.random() < 0.3:
        # the rotation angle arrives as an angular Quantity / Angle in a unit other than radians; the model receives the radian value
        import astropy.units as u
        unit = r.choice(['deg', 'deg', 'arcmin', 'angle-deg'])
        val = r.choice([30.0, 45.0, 90.0, -60.0, r.uniform(-180.0, 180.0)]) * (60.0 if unit == 'arcmin' else 1.0)
        p['theta_q'] = [val, unit]
        p['theta'] = float((val * (u.arcmin if unit == 'arcmin' else u.deg)).to(u.radian).value)
    if kind in ('ellann', 'rectann') and r.random() < 0.35:
        # an explicit inner minor axis / inner height (b_in, h_in) that is not the default b_out * a_in / a_out
        p['inner_b'] = r.choice([v for v in (0.5, 0.25, 0.75, 0.875) if v != inner])
    if not kind.startswith('circ') and r.random() < 0.15:
        # the aperture is first built with another orientation, its cached geometry is read, and theta is then re-assigned
        p['via_setter'] = True
    return kind, p


def make_aperture(kind, p):
    from photutils.aperture import (CircularAperture, CircularAnnulus, EllipticalAperture,
                                    EllipticalAnnulus, RectangularAperture, RectangularAnnulus)
    pos = (p['cx'], p['cy'])
    s, ra, th, inn = p['size'], p['ratio'], p['theta'], p['inner']
    if p.get('theta_q'):
        import astropy.units as u
        from astropy.coordinates import Angle
        val, unit = p['theta_q']
        th = Angle(val, 'deg') if unit == 'angle-deg' else val * (u.arcmin if unit == 'arcmin' else u.deg)
    if p.get('via_setter'):
        q0 = {k_: v_ for k_, v_ in p.items() if k_ not in ('via_setter', 'theta_q')}
        q0['theta'] = p['theta'] + 0.7
        ap = make_aperture(kind, q0)
        _ = (ap.bbox, ap._centered_edges, ap.to_mask(method='center'))
        ap.theta = th
        return ap
    if kind == 'circ':
        return CircularAperture(pos, s)
    if kind == 'circann':
        return CircularAnnulus(pos, s * inn, s)
    if kind == 'ell':
        return EllipticalAperture(pos, s, s * ra, theta=th)
    if kind == 'ellann':
        if 'inner_b' in p:
            return EllipticalAnnulus(pos, s * inn, s, s * ra, b_in=s * ra * p['inner_b'], theta=th)
        return EllipticalAnnulus(pos, s * inn, s, s * ra, theta=th)   # b_in = b_out*a_in/a_out
    if kind == 'rect':
        return RectangularAperture(pos, 2 * s, 2 * s * ra, theta=th)
    if kind == 'rectann':
        if 'inner_b' in p:
            return RectangularAnnulus(pos, 2 * s * inn, 2 * s, 2 * s * ra, h_in=2 * s * ra * p['inner_b'], theta=th)
        return RectangularAnnulus(pos, 2 * s * inn, 2 * s, 2 * s * ra, theta=th)
    raise ValueError(kind)


def shape_params(kind, p):
    """outer/inner shape as exact rationals + independent extents"""
    s, ra, th, inn = p['size'], p['ratio'], p['theta'], p['inner']
    c, sn = math.cos(th), math.sin(th)
    if kind.startswith('circ'):
        return dict(outer=(s,), inner=(s * inn,) if kind == 'circann' else None, c=1.0, s=0.0,
                    xext=s, yext=s)
    if kind.startswith('ell'):
        a, b = s, s * ra
        xext = math.sqrt((a * c) ** 2 + (b * sn) ** 2)
        yext = math.sqrt((a * sn) ** 2 + (b * c) ** 2)
        return dict(outer=(a, b), inner=(a * inn, b * p.get('inner_b', inn)) if kind == 'ellann' else None, c=c, s=sn,
                    xext=xext, yext=yext)
    w, h = 2 * s, 2 * s * ra
    xext = max(abs(w / 2 * c - h / 2 * sn), abs(w / 2 * c + h / 2 * sn))
    yext = max(abs(w / 2 * sn + h / 2 * c), abs(w / 2 * sn - h / 2 * c))
    return dict(outer=(w, h), inner=(w * inn, h * p.get('inner_b', inn)) if kind == 'rectann' else None, c=c, s=sn,
                xext=xext, yext=yext)


def inside_exact(kind, dims, c, s, x, y):
    """exact (Fraction) membership of a point relative to the aperture centre; returns
    (inside, margin) where margin is a relative distance from the decision boundary"""
    if kind.startswith('circ'):
        r2 = F(dims[0]) ** 2
        d = x * x + y * y
        return d < r2, abs(d - r2) / (r2 if r2 else 1)
    xt = y * F(s) + x * F(c)
    yt = y * F(c) - x * F(s)
    if kind.startswith('ell'):
        a, b = F(dims[0]), F(dims[1])
        v = xt * xt / (a * a) + yt * yt / (b * b)
        return v < 1, abs(v - 1)
    hw, hh = F(dims[0]) / 2, F(dims[1]) / 2
    ins = abs(xt) < hw and abs(yt) < hh
    return ins, min(abs(abs(xt) - hw), abs(abs(yt) - hh)) / max(hw, hh)


def exact_float_safe(kind, sp, sub):
    """is the binary64 evaluation of the sub-pixel test exact for these dyadic inputs?"""
    if not pow2(sub):
        return False
    if kind.startswith('circ'):
        return True
    if sp['c'] not in (1.0, -1.0, 0.0) or sp['s'] not in (0.0, 1.0, -1.0):
        return False
    if kind.startswith('rect'):
        return True
    dims = list(sp['outer']) + (list(sp['inner']) if sp['inner'] else [])
    return all(F(d).numerator == 1 or F(d).numerator & (F(d).numerator - 1) == 0 for d in dims)


def oracle_weights(kind, sp, bbox, p, sub):
    """(S): fraction of sub-pixel centres inside the shape, by exact rational evaluation;
    returns (weights[j][i] as Fraction, slack[j][i] = #knife-edge sub-pixels / sub^2)"""
    ny, nx = bbox.shape
    cx, cy = F(p['cx']), F(p['cy'])
    W = [[F(0)] * nx for _ in range(ny)]
    K = [[F(0)] * nx for _ in range(ny)]
    for j in range(ny):
        for i in range(nx):
            cnt = 0
            knife = 0
            for a in range(sub):
                for b in range(sub):
                    x = F(bbox.ixmin + i) - F(1, 2) + (F(a) + F(1, 2)) / sub - cx
                    y = F(bbox.iymin + j) - F(1, 2) + (F(b) + F(1, 2)) / sub - cy
                    ins, mar = inside_exact(kind, sp['outer'], sp['c'], sp['s'], x, y)
                    if mar < F(1, 10 ** 9):
                        knife += 1
                    if sp['inner']:
                        ins2, mar2 = inside_exact(kind, sp['inner'], sp['c'], sp['s'], x, y)
                        if mar2 < F(1, 10 ** 9):
                            knife += 1
                        cnt += int(ins) - int(ins2)
                    else:
                        cnt += int(ins)
            W[j][i] = F(cnt, sub * sub)
            K[j][i] = F(knife, sub * sub)
    return W, K


def mask_op(kind, p, sp, method, sub):
    o = sp['outer']
    inn = sp['inner']
    if kind.startswith('circ'):
        return ' '.join(['mask.circ', q(p['cx']), q(p['cy']), q(o[0]), q(inn[0]) if inn else '-',
                         method, str(sub)])
    name = 'mask.ell' if kind.startswith('ell') else 'mask.rect'
    return ' '.join([name, q(p['cx']), q(p['cy']), q(o[0]), q(o[1]), q(sp['c']), q(sp['s']),
                     q(p['cx'] - sp['xext']), q(p['cx'] + sp['xext']),
                     q(p['cy'] - sp['yext']), q(p['cy'] + sp['yext']), q(inn[0]) if inn else '-',
                     q(inn[1]) if inn else '-', method, str(sub)])


# ----------------------------------------------------------------- the check
def run(rep, tier):
    scale = 1 if tier == 'quick' else 20
    rep.rule = ('cases: (a) generated geometry kernels at Lean Float vs the compiled .so, bit-for-bit; '
                '(b) to_mask(center/subpixel) of 6 aperture classes on dyadic parameters vs the Lean Rat '
                'model and vs an independent exact-rational oracle; (c) BoundingBox ops vs generated '
                'definitions; (d) exact-mode oracles. Non-trivial = mask has at least one fractional or '
                'zero weight / box straddles or misses the image; distinct by hash of canonical input.')
    rep.assumptions += [
        'the compiled geometry .so cannot be rebuilt here (no Cython); the .pyx source is tied by '
        'translation + bit-for-bit Float comparison with the .so',
        'exact-mode area identities (arc/triangle branches) are not proved; checked numerically only',
    ]
    rep.lean = prove(PROP_MODULES)
    # what an aperture reports does not depend on which other aperture classes were touched before in the process (seeds C09-r8, C01-r12)
    from props import c09 as _c09
    _c09.cross_object_history(rep, rng('C01-cross'), tier == 'thorough')
    broken = not rep.lean.ok
    if broken:
        scale *= 3
    drv = Driver()
    r = rng('C01')

    stream_float(rep, drv, r, 250 * scale)
    stream_masks(rep, drv, r, 160 * scale)
    stream_bbox(rep, drv, r, 1500 * scale)
    probe_exact(rep, r, 80 * scale)
    probe_image_cutout(rep, r, 200 * scale)
    if tier == 'thorough':
        ok, out = leanchecker(PROP_MODULES)
        rep.extra['leanchecker_ok'] = ok
        if not ok:
            rep.tie_broken('leanchecker rejected the compiled property modules', out[-600:])


def stream_float(rep, drv, r, n):
    from photutils.geometry import (circular_overlap_grid, elliptical_overlap_grid,
                                    rectangular_overlap_grid)
    lines, exp, descr = [], [], []
    for _ in range(n):
        nx, ny = r.randint(1, 7), r.randint(1, 7)
        cx, cy = r.uniform(-3, 3), r.uniform(-3, 3)
        if r.random() < 0.3:
            cx, cy = r.choice([0.0, 0.5, 1.0]), r.choice([0.0, 0.5, -1.0])
        xmin, ymin = -cx - nx / 2, -cy - ny / 2
        xmax, ymax = xmin + nx, ymin + ny
        rad = r.choice([0.03, 0.5, 1.0, 2.5, r.uniform(0.03, 4)])
        kind = r.choice(['circ', 'ell', 'rect'])
        ue = r.choice([0, 1]) if kind != 'rect' else 0
        sp = r.choice([1, 2, 3, 5, 8, 32])
        if kind == 'circ':
            res = circular_overlap_grid(xmin, xmax, ymin, ymax, nx, ny, rad, ue, sp)
            args = [fbits(xmin), fbits(xmax), fbits(ymin), fbits(ymax), str(nx), str(ny), fbits(rad),
                    str(ue), str(sp)]
            lines.append('geomf.circ ' + ' '.join(args))
        elif kind == 'ell':
            ry = rad * r.choice([1, 0.5, 0.02, r.uniform(0.02, 1)])
            th = r.choice([0, math.pi / 4, math.pi / 2, r.uniform(-4, 4)])
            res = elliptical_overlap_grid(xmin, xmax, ymin, ymax, nx, ny, rad, ry, th, ue, sp)
            args = [fbits(xmin), fbits(xmax), fbits(ymin), fbits(ymax), str(nx), str(ny), fbits(rad),
                    fbits(ry), fbits(th), str(ue), str(sp)]
            lines.append('geomf.ell ' + ' '.join(args))
        else:
            h = rad * r.uniform(0.1, 2)
            th = r.choice([0, math.pi / 4, r.uniform(-4, 4)])
            res = rectangular_overlap_grid(xmin, xmax, ymin, ymax, nx, ny, rad, h, th, ue, sp)
            args = [fbits(xmin), fbits(xmax), fbits(ymin), fbits(ymax), str(nx), str(ny), fbits(rad),
                    fbits(h), fbits(th), str(ue), str(sp)]
            lines.append('geomf.rect ' + ' '.join(args))
        exp.append('ok ' + ' '.join(fbits(v) for v in res.ravel()))
        descr.append((kind, ue, sp, nx, ny, cx, cy, rad))
        nontriv = bool(((res > 0) & (res < 1)).any())
        rep.case(lines[-1], nontriv, kind=f'float-kernel:{kind}:{"exact" if ue else "sub"}',
                 sample={'stream': 'float-vs-so', 'op': lines[-1][:120]} if len(exp) == 1 else None)
    out = drv.run(lines)
    if out is None:
        rep.tie_broken('model driver failed (float kernel stream)', drv.error)
        return
    nbad = 0
    for ln, o, e, d in zip(lines, out, exp, descr):
        rep.traces += 1
        if o != e:
            nbad += 1
            if nbad <= 3:
                rep.tie_broken('generated geometry kernel (from .pyx source) differs from compiled .so',
                               {'op': ln, 'model': o[:300], 'so': e[:300], 'case': d})
    rep.count('float-kernel-mismatch', nbad)


def stream_masks(rep, drv, r, n):
    cases = []
    lines = []
    for k in range(n):
        kind, p = gen_aperture(r, boundary=(k % 3 == 0))
        method = r.choice(['center', 'subpixel', 'subpixel'])
        sub = 1 if method == 'center' else r.choice([1, 2, 4, 2, 4, 8, 3, 5])
        # 'center' ignores `subpixels` (documented): whatever is passed - or the default, 5 - the mask is the pixel-centre rule, i.e.
        # the model's sub-sampling with one sample (seed C01-r13 used the raw keyword for the inner circle of an annulus)
        sub_kw = {'subpixels': sub} if method != 'center' else r.choice([{'subpixels': 1}, {}, {'subpixels': 3}, {'subpixels': 8}])
        try:
            ap = make_aperture(kind, p)
            if k % 4 == 1:
                # the same aperture object was asked for other masks before (another sub-sampling factor, other methods):
                # the mask is a function of (shape, method, subpixels) only
                _ = ap.to_mask(method='subpixel', subpixels=r.choice([1, 2, 3, 7, 16]))
                _ = ap.to_mask(method=r.choice(['center', 'exact']))
            m = ap.to_mask(method=method, **sub_kw)
        except Exception as e:  # pragma: no cover - reported as violation below
            rep.violation(f'to_mask-raises:{kind}:{type(e).__name__}',
                          f'to_mask raised {type(e).__name__} for valid {kind} aperture',
                          {'kind': kind, 'params': p, 'method': method, 'subpixels': sub})
            continue
        sp = shape_params(kind, p)
        # implementation's extents must match the independent computation
        xe, ye = ap._xy_extents
        xe, ye = float(xe), float(ye)
        if abs(xe - sp['xext']) > 1e-12 * max(1, sp['xext']) or abs(ye - sp['yext']) > 1e-12 * max(1, sp['yext']):
            rep.violation(f'extent:{kind}', f'{kind}: _xy_extents {xe, ye} differ from analytic '
                          f'{sp["xext"], sp["yext"]}', {'kind': kind, 'params': p})
            continue
        spm = dict(sp)
        spm['xext'], spm['yext'] = xe, ye
        edges = (p['cx'] - xe, p['cx'] + xe, p['cy'] - ye, p['cy'] + ye)
        if any(F(v) + F(1, 2) != F(v + 0.5) for v in edges):
            # binary64 rounds `edge + 0.5` (e.g. 0.49999999999999994 + 0.5 == 1.0): the exact model is
            # not expected to agree on this knife-edge; counted, not compared
            rep.count('skipped:float-inexact-edge')
            continue
        cases.append((kind, p, sp, method, sub, m))
        lines.append(mask_op(kind, p, spm, method, sub))
    out = drv.run(lines)
    if out is None:
        rep.tie_broken('model driver failed (mask stream)', drv.error)
        out = [None] * len(lines)
    for (kind, p, sp, method, sub, m), ln, o in zip(cases, lines, out):
        bb = m.bbox
        data = np.asarray(m.data)
        nontriv = bool(((data > 0) & (data < 1)).any() or (data == 0).any())
        rep.case(ln, nontriv, kind=f'mask:{kind}:{method}',
                 sample={'stream': 'to_mask-vs-model', 'kind': kind, 'params': p, 'method': method,
                         'subpixels': sub, 'bbox': [bb.ixmin, bb.ixmax, bb.iymin, bb.iymax]})
        replay = {'stream': 'mask', 'kind': kind, 'params': p, 'method': method, 'subpixels': sub}
        # (S) bbox is the least integer box containing the shape extents
        xe, ye = F(sp['xext']), F(sp['yext'])
        cx, cy = F(p['cx']), F(p['cy'])
        okb = (F(bb.ixmin) - F(1, 2) <= cx - xe < F(bb.ixmin) + F(1, 2)
               and F(bb.ixmax) - F(3, 2) < cx + xe <= F(bb.ixmax) - F(1, 2)
               and F(bb.iymin) - F(1, 2) <= cy - ye < F(bb.iymin) + F(1, 2)
               and F(bb.iymax) - F(3, 2) < cy + ye <= F(bb.iymax) - F(1, 2))
        # extents from sqrt/trig carry rounding; only flag when clearly off
        if not okb:
            slack = F(1, 10 ** 9)
            okb = (F(bb.ixmin) - F(1, 2) <= cx - xe + slack and cx - xe - slack < F(bb.ixmin) + F(1, 2)
                   and F(bb.ixmax) - F(3, 2) < cx + xe + slack and cx + xe - slack <= F(bb.ixmax) - F(1, 2)
                   and F(bb.iymin) - F(1, 2) <= cy - ye + slack and cy - ye - slack < F(bb.iymin) + F(1, 2)
                   and F(bb.iymax) - F(3, 2) < cy + ye + slack and cy + ye - slack <= F(bb.iymax) - F(1, 2))
        if not okb:
            rep.violation(f'bbox-not-minimal:{kind}',
                          f'{kind} bbox {bb} is not the smallest integer box containing the shape',
                          replay)
            continue
        if data.shape != tuple(bb.shape):
            rep.violation(f'mask-shape:{kind}', f'mask data shape {data.shape} != bbox shape {bb.shape}',
                          replay)
            continue
        # (S) independent exact oracle
        W, K = oracle_weights(kind, sp, bb, p, sub)
        safe = exact_float_safe(kind, sp, sub)
        bad = None
        for j in range(data.shape[0]):
            for i in range(data.shape[1]):
                diff = abs(F(float(data[j, i])) - W[j][i])
                tol = F(0) if safe else K[j][i] + F(1, 10 ** 12)
                if diff > tol:
                    bad = (j, i, float(data[j, i]), float(W[j][i]))
                    break
            if bad:
                break
        if bad:
            rep.violation(f'weight-not-centre-fraction:{kind}:{method}',
                          f'{kind} {method}/{sub}: weight at local pixel (j,i)={bad[:2]} is {bad[2]} '
                          f'but the fraction of sub-pixel centres inside the shape is {bad[3]}',
                          dict(replay, pixel=bad))
            continue
        # (T) Lean model
        if o is None:
            continue
        rep.traces += 1
        exp_bb = f'ok {bb.ixmin} {bb.ixmax} {bb.iymin} {bb.iymax} |'
        if not o.startswith(exp_bb):
            rep.tie_broken(f'model/implementation bbox disagree for {kind}',
                           {'op': ln, 'model': o[:80], 'impl': exp_bb})
            continue
        mw = [F(t) for t in o.split('|')[1].split()]
        iw = [F(float(v)) for v in data.ravel()]
        if len(mw) != len(iw):
            rep.tie_broken('model/implementation weight count disagree', {'op': ln})
            continue
        Kf = [k for row in K for k in row]
        for a, b, k in zip(mw, iw, Kf):
            tol = F(0) if safe else k + F(1, 10 ** 12)
            if abs(a - b) > tol:
                rep.tie_broken(f'model/implementation weights disagree for {kind} {method}',
                               {'op': ln, 'model': float(a), 'impl': float(b)})
                break


def stream_bbox(rep, drv, r, n):
    from photutils.aperture import BoundingBox
    lines, exp, meta = [], [], []

    def impl(fn):
        try:
            return fn()
        except ValueError:
            return 'err ValueError'
        except TypeError:
            return 'err TypeError'

    def show_bb(b):
        return f'ok {b.ixmin} {b.ixmax} {b.iymin} {b.iymax}'

    for k in range(n):
        t = k % 5
        if t == 0:
            m = r.choice([1, 2, 3])
            v = [r.randint(-20 * 2 ** m, 20 * 2 ** m) / 2 ** m for _ in range(4)]
            if r.random() < 0.8:
                v = [min(v[0], v[1]), max(v[0], v[1]), min(v[2], v[3]), max(v[2], v[3])]
            if r.random() < 0.3:
                v = [round(x * 2) / 2 for x in v]
            lines.append('bbox.from_float ' + ' '.join(q(x) for x in v))
            exp.append(impl(lambda: show_bb(BoundingBox.from_float(*v))))
            # (S) least cover, checked directly
            if v[0] <= v[1] and v[2] <= v[3]:
                b = BoundingBox.from_float(*v)
                ok = (b.ixmin - 0.5 <= v[0] < b.ixmin + 0.5 and b.ixmax - 1.5 < v[1] <= b.ixmax - 0.5 and
                      b.iymin - 0.5 <= v[2] < b.iymin + 0.5 and b.iymax - 1.5 < v[3] <= b.iymax - 0.5)
                if not ok:
                    rep.violation('from_float-not-least-cover',
                                  f'BoundingBox.from_float{tuple(v)} = {b} is not the least cover',
                                  {'stream': 'bbox', 'op': 'from_float', 'args': v})
            meta.append(('from_float', v))
        elif t == 1:
            a = sorted(r.randint(-6, 14) for _ in range(2))
            c = sorted(r.randint(-6, 14) for _ in range(2))
            ny, nx = r.randint(1, 10), r.randint(1, 10)
            lines.append(f'bbox.overlap {a[0]} {a[1]} {c[0]} {c[1]} {ny} {nx}')

            def f():
                sl, ss = BoundingBox(a[0], a[1], c[0], c[1]).get_overlap_slices((ny, nx))
                if sl is None:
                    return 'none'
                return 'ok ' + ' '.join(f'{s.start} {s.stop}' for s in (sl[0], sl[1], ss[0], ss[1]))
            e = impl(f)
            exp.append(e)
            # (S) slices select exactly the common pixels
            common = {(y, x) for y in range(max(c[0], 0), min(c[1], ny))
                      for x in range(max(a[0], 0), min(a[1], nx))}
            if e == 'none':
                if common:
                    rep.violation('overlap-none-but-common', f'get_overlap_slices None but pixels common',
                                  {'stream': 'bbox', 'op': 'overlap', 'args': [a, c, ny, nx]})
            elif e.startswith('ok'):
                t_ = list(map(int, e.split()[1:]))
                sel = {(y, x) for y in range(t_[0], t_[1]) for x in range(t_[2], t_[3])}
                sel_s = {(y + c[0], x + a[0]) for y in range(t_[4], t_[5]) for x in range(t_[6], t_[7])}
                if a[0] < a[1] and c[0] < c[1] and (sel != common or sel_s != common):
                    rep.violation('overlap-slices-wrong',
                                  'get_overlap_slices does not select exactly the common pixels',
                                  {'stream': 'bbox', 'op': 'overlap', 'args': [a, c, ny, nx]})
            meta.append(('overlap', (a, c, ny, nx)))
        elif t in (2, 3):
            bs = []
            for _ in range(2):
                a = sorted(r.randint(-6, 14) for _ in range(2))
                c = sorted(r.randint(-6, 14) for _ in range(2))
                bs.append((a[0], a[1], c[0], c[1]))
            name = 'union' if t == 2 else 'intersection'
            lines.append(f'bbox.{name} ' + ' '.join(map(str, bs[0] + bs[1])))

            def f():
                b1, b2 = BoundingBox(*bs[0]), BoundingBox(*bs[1])
                res = b1.union(b2) if t == 2 else b1.intersection(b2)
                return 'none' if res is None else show_bb(res)
            exp.append(impl(f))
            meta.append((name, bs))
            # (S) union = the smallest box containing both; intersection = exactly the common pixels (None when there are none)
            (ax0, ax1, ay0, ay1), (bx0, bx1, by0, by1) = bs
            if ax0 < ax1 and ay0 < ay1 and bx0 < bx1 and by0 < by1 and exp[-1].startswith('ok'):
                got = tuple(int(v) for v in exp[-1].split()[1:5])
                if t == 2:
                    want = (min(ax0, bx0), max(ax1, bx1), min(ay0, by0), max(ay1, by1))
                    if got != want:
                        rep.violation('bbox-union-not-least-box', f'BoundingBox{bs[0]} | BoundingBox{bs[1]} = {got}, the smallest box containing both is {want} '
                                      '(ixmin, ixmax, iymin, iymax)', {'stream': 'bbox', 'op': 'union', 'args': [list(bs[0]), list(bs[1])]})
                else:
                    want = (max(ax0, bx0), min(ax1, bx1), max(ay0, by0), min(ay1, by1))
                    if want[0] < want[1] and want[2] < want[3] and got != want:
                        rep.violation('bbox-intersection-wrong', f'BoundingBox{bs[0]} & BoundingBox{bs[1]} = {got}, the common pixels are {want}',
                                      {'stream': 'bbox', 'op': 'intersection', 'args': [list(bs[0]), list(bs[1])]})
        else:
            v = [r.randint(-5, 5) for _ in range(4)]
            lines.append('bbox.init ' + ' '.join(map(str, v)))
            exp.append(impl(lambda: show_bb(BoundingBox(*v))))
            meta.append(('init', v))
        rep.case(lines[-1], True, kind='bbox:' + meta[-1][0])
    out = drv.run(lines)
    if out is None:
        rep.tie_broken('model driver failed (bbox stream)', drv.error)
        return
    nb = 0
    for ln, o, e in zip(lines, out, exp):
        rep.traces += 1
        if o != e:
            nb += 1
            if nb <= 3:
                rep.tie_broken('generated BoundingBox definition disagrees with implementation',
                               {'op': ln, 'model': o, 'impl': e})


def contact_tag(kind, p):
    """classify measure-zero contacts of an ellipse with the pixel grid (known finding F20)"""
    sp_ = shape_params(kind, p)
    tang = any(abs((v + 0.5) - round(v + 0.5)) < 1e-9 for v in
               (p['cx'] - sp_['xext'], p['cx'] + sp_['xext'], p['cy'] - sp_['yext'], p['cy'] + sp_['yext']))
    if tang:
        return ':tangent-to-pixel-edge'
    if kind.startswith('ell') and sp_['inner']:
        # the inner ellipse of an annulus can be tangent to a pixel edge as well
        ai, bi = sp_['inner']
        c, s_ = sp_['c'], sp_['s']
        xi, yi = math.sqrt((ai * c) ** 2 + (bi * s_) ** 2), math.sqrt((ai * s_) ** 2 + (bi * c) ** 2)
        if any(abs((v + 0.5) - round(v + 0.5)) < 1e-9 for v in (p['cx'] - xi, p['cx'] + xi, p['cy'] - yi, p['cy'] + yi)):
            return ':tangent-to-pixel-edge'
    if kind.startswith('ell'):
        c, s_ = sp_['c'], sp_['s']
        shapes = [sp_['outer']] + ([sp_['inner']] if sp_['inner'] else [])
        x0, x1 = math.floor(p['cx'] - sp_['xext']) - 1, math.ceil(p['cx'] + sp_['xext']) + 2
        y0, y1 = math.floor(p['cy'] - sp_['yext']) - 1, math.ceil(p['cy'] + sp_['yext']) + 2
        for (a, b) in shapes:
            for ix in range(x0, x1):
                for iy in range(y0, y1):
                    x, y = ix + 0.5 - p['cx'], iy + 0.5 - p['cy']
                    xt, yt = y * s_ + x * c, y * c - x * s_
                    if abs((xt / a) ** 2 + (yt / b) ** 2 - 1.0) < 1e-9:
                        return ':pixel-corner-on-ellipse'
    return ''


def probe_exact(rep, r, n):
    """(S) exact mode: weights in [0,1], sum = analytic area, annulus = outer - inner"""
    corpus = [('ell', {'cx': 8.5, 'cy': 0, 'size': 0.5, 'ratio': 1.0, 'theta': math.pi / 4, 'inner': 0.5}),
              ('ell', {'cx': 8.0, 'cy': 0, 'size': 0.5, 'ratio': 1.0, 'theta': math.pi / 4, 'inner': 0.5}),
              ('ellann', {'cx': 3.5, 'cy': 4.0, 'size': 0.5, 'ratio': 0.25, 'theta': math.pi / 2, 'inner': 0.875}),
              ('ellann', {'cx': 10.625, 'cy': 9.875, 'size': 1.0, 'ratio': 0.5, 'theta': math.pi / 4, 'inner': 0.5}),
              ('circ', {'cx': 8.5, 'cy': 0, 'size': 0.5, 'ratio': 1.0, 'theta': 0.0, 'inner': 0.5}),
              ('rect', {'cx': 8.5, 'cy': 0, 'size': 0.5, 'ratio': 1.0, 'theta': 0.0, 'inner': 0.5})]
    for k in range(n + len(corpus)):
        if k < len(corpus):
            kind, p = corpus[k]
            p = dict(p)
        else:
            kind, p = gen_aperture(r, boundary=(k % 4 == 0))
        if k >= len(corpus) and r.random() < 0.5:
            p['cx'] += r.uniform(-0.5, 0.5)
            p['cy'] += r.uniform(-0.5, 0.5)
            p['size'] = r.choice([0.03, 0.3, r.uniform(0.03, 6)])
            p['ratio'] = r.choice([1.0, 0.02, r.uniform(0.02, 1)])
            p['inner'] = r.choice([0.5, 0.999, r.uniform(0.05, 0.999)])
        ap = make_aperture(kind, p)
        m = ap.to_mask(method='exact')
        d = np.asarray(m.data)
        replay = {'stream': 'exact', 'kind': kind, 'params': p}
        rep.case(('exact', kind, tuple(sorted(p.items()))), True, kind=f'exact:{kind}')
        rep.probe_only += 1
        if d.min() < -1e-9 or d.max() > 1 + 1e-9 or not np.isfinite(d).all():
            rep.violation(f'exact-weight-range:{kind}' + contact_tag(kind, p),
                          f'{kind} exact weights outside [0,1]: min {d.min()} max {d.max()}', replay)
            continue
        area = float(ap.area)
        s, ra, inn = p['size'], p['ratio'], p['inner']
        ana = {'circ': math.pi * s * s, 'circann': math.pi * s * s * (1 - inn * inn),
               'ell': math.pi * s * s * ra, 'ellann': math.pi * s * s * ra * (1 - inn * p.get('inner_b', inn)),
               'rect': 4 * s * s * ra, 'rectann': 4 * s * s * ra * (1 - inn * p.get('inner_b', inn))}[kind]
        if abs(area - ana) > 1e-9 * max(ana, 1e-3):
            rep.violation(f'area-attr:{kind}', f'{kind}.area {area} != analytic {ana}', replay)
            continue
        tot = float(d.sum())
        if kind.startswith('rect'):
            w, h = 2 * s, 2 * s * ra
            per = 2 * (w + h) * (1 + (inn if kind == 'rectann' else 0))
            tol = per * math.sqrt(2) / 32 + 1e-9
        else:
            tol = 1e-7 * max(ana, 1e-3) + 1e-10
        if abs(tot - ana) > tol:
            tag = contact_tag(kind, p)
            rep.violation(f'exact-sum-area:{kind}{tag}',
                          f'{kind} exact mask sums to {tot}, analytic area {ana} (tol {tol:.3g})', replay)


def probe_image_cutout(rep, r, n):
    """(S) to_image / cutout registration against the theorem's spec, brute force"""
    from photutils.aperture import BoundingBox, ApertureMask
    for _ in range(n):
        a = sorted(r.sample(range(-5, 12), 2))
        c = sorted(r.sample(range(-5, 12), 2))
        bb = BoundingBox(a[0], a[1], c[0], c[1])
        w = np.arange(1, bb.shape[0] * bb.shape[1] + 1, dtype=float).reshape(bb.shape)
        m = ApertureMask(w, bb)
        ny, nx = r.randint(1, 9), r.randint(1, 9)
        data = np.arange(100, 100 + ny * nx, dtype=float).reshape(ny, nx)
        img = m.to_image((ny, nx))
        cut = m.cutout(data, fill_value=-7.0)
        rep.case(('imgcut', a, c, ny, nx), True, kind='to_image/cutout')
        replay = {'stream': 'imgcut', 'bbox': [a, c], 'shape': [ny, nx]}
        exp = np.zeros((ny, nx))
        any_common = False
        for y in range(ny):
            for x in range(nx):
                if c[0] <= y < c[1] and a[0] <= x < a[1]:
                    exp[y, x] = w[y - c[0], x - a[0]]
                    any_common = True
        if (img is None) != (not any_common) or (img is not None and not np.array_equal(img, exp)):
            rep.violation('to_image-registration', 'ApertureMask.to_image misplaces the weights', replay)
            continue
        expc = np.full(bb.shape, -7.0)
        for j in range(bb.shape[0]):
            for i in range(bb.shape[1]):
                y, x = j + c[0], i + a[0]
                if 0 <= y < ny and 0 <= x < nx:
                    expc[j, i] = data[y, x]
        if (cut is None) != (not any_common) or (cut is not None and not np.array_equal(cut, expc)):
            rep.violation('cutout-registration', 'ApertureMask.cutout misplaces the data', replay)


def replay(rep, data):
    """re-run one stored case"""
    run(rep, 'quick')
