"""C13 — PSF/PRF models are flux-normalised and interpolate their data faithfully (DESIGN §5 C13)."""
import copy
import math
import warnings
from fractions import Fraction as F

import numpy as np

from common import Driver, prove, q, rng

PROP_MODULES = ['PhotVerif.Props.C13']


def close(a, b, tol):
    return abs(float(a) - float(b)) <= tol * max(1.0, abs(float(a)), abs(float(b)))


def run(rep, tier):
    thorough = tier == 'thorough'
    scale = 10 if thorough else 1
    rep.rule = ('(a) pixel sums of the PRF models over wide windows for random sub-pixel centres and widths >= 0.2 px; closed-form / numerical '
                'integrals of the analytic PSFs; non-negativity, centring, linearity, circular==elliptical, sigma==fwhm forms; '
                '(b) ImagePSF at interior sample points for oversampling 1-4 and arbitrary origins, fill_value outside; '
                '(c) GriddedPSFModel bounding points / bilinear weights vs the Lean model on dyadic grid layouts (incl. single row/column, points on nodes, '
                'on cell edges, outside the hull), values at nodes / inside cells / outside, copies after evaluation sequences. '
                'Non-trivial = sub-pixel centre not on a pixel centre, or a position strictly inside a cell / outside the grid.')
    rep.assumptions += ['erf, Moffat/Airy integrals and spline interpolation are not modelled (numeric probes)',
                        'the telescoping theorem is over an abstract cumulative function; that the code\'s erf differences are such differences is by inspection + probe']
    rep.lean = prove(PROP_MODULES)
    if not rep.lean.ok:
        scale *= 3
    r = rng('C13')
    drv = Driver()
    lines, exps, metas = [], [], []
    prf_sums(rep, r, 40 * scale)
    analytic_psfs(rep, r, 3 * scale)
    imagepsf_samples(rep, r, 25 * scale, lines, exps, metas)
    gridded(rep, r, 40 * scale, lines, exps, metas)
    prfadapter_probe(rep, r, 2 * scale)
    origin_correspondence(rep, r, lines, exps, metas)
    out = drv.run(lines)
    if out is None:
        rep.tie_broken('model driver failed', drv.error)
        return
    nb = 0
    for ln, o, e, m in zip(lines, out, exps, metas):
        rep.traces += 1
        if not e(o):
            nb += 1
            if nb <= 3:
                rep.tie_broken(f'PSF index model ({m}) and implementation disagree', {'op': ln, 'model': o})


def prf_sums(rep, r, n):
    from photutils.psf import GaussianPRF, CircularGaussianPRF, CircularGaussianSigmaPRF, IntegratedGaussianPRF
    for k in range(n):
        fw = r.choice([0.2, 0.3, 0.5, 1.0, r.uniform(0.2, 5.0)])
        fw2 = r.choice([fw, 0.2, r.uniform(0.2, 5.0)])
        x0, y0 = r.uniform(-0.5, 0.5) + r.choice([0, 7]), r.uniform(-0.5, 0.5) + r.choice([0, -3])
        if k % 5 == 0:
            x0, y0 = r.choice([0.0, 0.5]), r.choice([0.0, 0.5, -0.5])
        flux = r.choice([1.0, 7.0, 0.25])
        half = int(8 * max(fw, fw2) / 2.3548 * 1.6) + 6
        yy, xx = np.mgrid[int(round(y0)) - half:int(round(y0)) + half + 1, int(round(x0)) - half:int(round(x0)) + half + 1]
        models = [('CircularGaussianPRF', CircularGaussianPRF(flux=flux, x_0=x0, y_0=y0, fwhm=fw)),
                  ('GaussianPRF:theta0', GaussianPRF(flux=flux, x_0=x0, y_0=y0, x_fwhm=fw, y_fwhm=fw2, theta=0.0)),
                  ('GaussianPRF:theta90', GaussianPRF(flux=flux, x_0=x0, y_0=y0, x_fwhm=fw, y_fwhm=fw2, theta=90.0)),
                  ('CircularGaussianSigmaPRF', CircularGaussianSigmaPRF(flux=flux, x_0=x0, y_0=y0, sigma=fw / 2.3548200450309493)),
                  ('GaussianPRF:rotated', GaussianPRF(flux=flux, x_0=x0, y_0=y0, x_fwhm=fw, y_fwhm=fw2, theta=r.choice([33.0, 45.0, 10.0])))]
        for name, m in models:
            v = m(xx, yy)
            tot = float(v.sum())
            rep.case(('prf', name, fw, fw2, x0, y0), (x0 % 1 != 0) or (y0 % 1 != 0), kind=f'prf-sum:{name}',
                     sample={'model': name, 'fwhm': fw, 'fwhm2': fw2, 'x_0': x0, 'y_0': y0, 'sum/flux': tot / flux})
            rep.probe_only += 1
            if (v < -1e-15 * flux).any():
                rep.violation(f'prf-negative:{name}', f'{name} has negative pixel values', {'fwhm': fw, 'x_0': x0, 'y_0': y0})
                break
            # the value at a point does not depend on how the points are laid out in the coordinate arrays: transposed (ij-indexed) grids,
            # flattened coordinates and a scattered permutation give the same values point by point (seed C13-r10 assumed an xy mesh)
            perm = np.random.RandomState(k).permutation(xx.size)
            layouts = [('ij-indexed', m(xx.T, yy.T).T), ('flattened', m(xx.ravel(), yy.ravel()).reshape(xx.shape)),
                       ('scattered-2D', m(xx.ravel()[perm].reshape(xx.shape), yy.ravel()[perm].reshape(xx.shape)).ravel()[np.argsort(perm)].reshape(xx.shape))]
            lbad = [ln_ for ln_, vv in layouts if not np.allclose(vv, v, rtol=1e-13, atol=1e-300)]
            if lbad:
                rep.violation(f'prf-depends-on-coordinate-layout:{name.split(":")[0]}', f'{name}: evaluating the same points as {lbad[0]} coordinate arrays gives other values '
                              'than on the xy mesh', {'model': name, 'fwhm': [fw, fw2], 'x_0': x0, 'y_0': y0, 'layout': lbad[0]})
                break
            rot = name == 'GaussianPRF:rotated'
            if abs(tot - flux) > 1e-9 * flux:
                tag = ':rotated' if rot else ''
                rep.violation(f'prf-sum-ne-flux:{name.split(":")[0]}{tag}',
                              f'{name} (fwhm {fw}, {fw2}; centre {(x0, y0)}) sums to {tot} over the pixel grid, flux is {flux}',
                              {'model': name, 'fwhm': [fw, fw2], 'x_0': x0, 'y_0': y0, 'flux': flux})
                continue
        # a wide, elongated, rotated PRF agrees with the rotated PSF of the same parameters sampled on the pixel grid: same major-axis
        # direction (counter-clockwise from +x, as documented, to 0.5 deg) and pixel values within 6 % of the peak
        from photutils.psf import GaussianPSF
        th_r = r.choice([30.0, 40.0, 120.0, -25.0, r.uniform(0, 180)])
        wx, wy = r.uniform(7.0, 12.0), r.uniform(3.0, 4.5)
        gy_, gx_ = np.mgrid[-25:26, -25:26]
        prf = GaussianPRF(flux=flux, x_0=0.3, y_0=-0.2, x_fwhm=wx, y_fwhm=wy, theta=th_r)(gx_, gy_)
        psf = GaussianPSF(flux=flux, x_0=0.3, y_0=-0.2, x_fwhm=wx, y_fwhm=wy, theta=th_r)(gx_, gy_)
        rep.case(('prf-vs-psf', wx, wy, th_r), True, kind='prf-vs-psf:rotated')
        rep.probe_only += 1
        m_ = prf / prf.sum()
        cx_, cy_ = (m_ * gx_).sum(), (m_ * gy_).sum()
        ang = 0.5 * math.degrees(math.atan2(2 * (m_ * (gx_ - cx_) * (gy_ - cy_)).sum(), (m_ * (gx_ - cx_) ** 2).sum() - (m_ * (gy_ - cy_) ** 2).sum()))
        # (sampling the PSF at pixel centres instead of integrating it costs up to ~3 % of the peak for these widths)
        if float(np.abs(prf - psf).max()) > 0.06 * float(psf.max()) or abs(((ang - th_r) + 90.0) % 180.0 - 90.0) > 0.5:
            rep.violation('prf-ne-psf:rotated', f'GaussianPRF(x_fwhm={wx:.2f}, y_fwhm={wy:.2f}, theta={th_r:.2f}) differs from GaussianPSF with the same parameters by '
                          f'{float(np.abs(prf - psf).max()) / float(psf.max()):.3f} of the peak; its major axis lies at {ang:.2f} deg',
                          {'x_fwhm': wx, 'y_fwhm': wy, 'theta': th_r})
        # circular == elliptical with equal widths at any rotation; sigma == fwhm forms; linear in flux
        a = CircularGaussianPRF(flux=flux, x_0=x0, y_0=y0, fwhm=fw)(xx, yy)
        b = GaussianPRF(flux=flux, x_0=x0, y_0=y0, x_fwhm=fw, y_fwhm=fw, theta=0.0)(xx, yy)
        c = CircularGaussianSigmaPRF(flux=flux, x_0=x0, y_0=y0, sigma=fw / 2.3548200450309493)(xx, yy)
        d = CircularGaussianPRF(flux=3 * flux, x_0=x0, y_0=y0, fwhm=fw)(xx, yy)
        if not np.allclose(a, b, rtol=1e-12, atol=1e-15 * flux):
            rep.violation('circular-ne-elliptical', 'CircularGaussianPRF differs from GaussianPRF with equal widths', {'fwhm': fw})
        if not np.allclose(a, c, rtol=1e-9, atol=1e-14 * flux):
            rep.violation('sigma-ne-fwhm-form', 'sigma- and FWHM-parametrised circular PRFs differ', {'fwhm': fw})
        if not np.allclose(d, 3 * a, rtol=1e-12):
            rep.violation('prf-not-linear-in-flux', 'PRF is not linear in flux', {'fwhm': fw})


def analytic_psfs(rep, r, n):
    from scipy.integrate import dblquad
    from photutils.psf import GaussianPSF, CircularGaussianPSF, MoffatPSF, AiryDiskPSF
    for k in range(n):
        fw = r.uniform(1.0, 4.0)
        x0, y0 = r.uniform(-1, 1), r.uniform(-1, 1)
        flux = r.choice([1.0, 5.0])
        th = r.uniform(0, 180)
        models = [('CircularGaussianPSF', CircularGaussianPSF(flux=flux, x_0=x0, y_0=y0, fwhm=fw), 6 * fw, 1e-7),
                  ('GaussianPSF', GaussianPSF(flux=flux, x_0=x0, y_0=y0, x_fwhm=fw, y_fwhm=fw * r.uniform(0.5, 1), theta=th), 6 * fw, 1e-7)]
        alpha, beta = r.uniform(1.5, 4), r.uniform(2.5, 5)
        models.append(('MoffatPSF', MoffatPSF(flux=flux, x_0=x0, y_0=y0, alpha=alpha, beta=beta), None, None))
        for name, m, lim, tol in models:
            rep.case(('apsf', name, fw, x0, y0, th), True, kind=f'psf-integral:{name}')
            rep.probe_only += 1
            if name == 'MoffatPSF':
                # integral inside radius R is flux * (1 - (1 + R^2/alpha^2)^(1-beta)): check the radial profile against it numerically
                R = 3 * alpha
                from scipy.integrate import quad
                val, _ = quad(lambda rr: 2 * math.pi * rr * float(m(x0 + rr, y0)), 0, R, epsabs=1e-12, epsrel=1e-12)
                expct = flux * (1 - (1 + R * R / alpha ** 2) ** (1 - beta))
                if abs(val - expct) > 1e-8 * flux:
                    rep.violation('psf-integral:MoffatPSF', f'MoffatPSF integrates to {val} inside R={R}, expected {expct}', {'alpha': alpha, 'beta': beta})
            else:
                val, _ = dblquad(lambda yv, xv: float(m(xv, yv)), x0 - lim, x0 + lim, lambda _: y0 - lim, lambda _: y0 + lim,
                                 epsabs=1e-8, epsrel=1e-8)
                if abs(val - flux) > 1e-6 * flux:
                    rep.violation(f'psf-integral:{name}', f'{name} integrates to {val}, flux is {flux}', {'fwhm': fw, 'theta': th})
            # non-negative, centred (maximum at x_0, y_0), linear in flux
            g = np.linspace(-3, 3, 13)
            vals = m(x0 + g[None, :], y0 + g[:, None])
            if (vals < 0).any() or float(m(x0, y0)) < vals.max() - 1e-12 * abs(vals.max()):
                rep.violation(f'psf-shape:{name}', f'{name} is negative somewhere or not peaked at (x_0, y_0)', {'fwhm': fw})
    # rotated elongated Gaussians rendered on their own bounding box (make_model_image without model_shape) keep their flux:
    # the box must contain the 5.5-sigma ellipse for every rotation angle, given in degrees or as a Quantity
    import astropy.units as u
    from astropy.table import Table
    from photutils.datasets import make_model_image
    from photutils.psf import GaussianPRF
    for k in range(max(4, n // 2)):
        xf, yf = r.uniform(6.0, 10.0), r.uniform(1.5, 2.5)
        th = r.choice([0.0, 90.0, 270.0, 45.0, r.uniform(0, 360)])
        thq = r.choice([th, th * u.deg, math.radians(th) * u.rad])
        flux = r.choice([1.0, 250.0])
        for cls in (GaussianPRF, GaussianPSF):
            m = cls(x_fwhm=xf, y_fwhm=yf, theta=thq)
            with warnings.catch_warnings():
                warnings.simplefilter('ignore')
                img = make_model_image((91, 91), m, Table({'x_0': [45.0], 'y_0': [45.3], 'flux': [flux]}))
            rep.case(('bboxrender', cls.__name__, xf, yf, str(thq)), True, kind=f'bbox-render:{cls.__name__}')
            rep.probe_only += 1
            tol = 1e-5 if cls is GaussianPRF else 2e-3          # the PSF (not pixel-integrated) form is sampled at pixel centres
            if abs(float(img.sum()) - flux) > tol * flux:
                rep.violation(f'bbox-render-loses-flux:{cls.__name__}', f'{cls.__name__}(x_fwhm={xf:.3f}, y_fwhm={yf:.3f}, theta={thq}) rendered on its bounding box '
                              f'sums to {float(img.sum())}, flux is {flux}', {'x_fwhm': xf, 'y_fwhm': yf, 'theta': str(thq)})
    # Airy disk: first zero at the documented radius and total normalisation of the radial profile to the first zeros
    from scipy.special import jn_zeros
    m = AiryDiskPSF(flux=1.0, x_0=0.0, y_0=0.0, radius=5.0)
    z = float(m(5.0, 0.0))
    rep.case(('airy',), True, kind='psf-integral:AiryDiskPSF')
    rep.probe_only += 1
    if abs(z) > 1e-12:
        rep.violation('psf-shape:AiryDiskPSF', f'AiryDiskPSF is {z} at its first-zero radius', {})


def imagepsf_samples(rep, r, n, lines, exps, metas):
    from photutils.psf import ImagePSF
    for k in range(n):
        ny, nx = r.choice([5, 7, 9, 11, 12]), r.choice([5, 7, 9, 11, 12])
        rs = np.random.RandomState(r.randrange(2 ** 31))
        data = np.round(rs.rand(ny, nx) * 64) / 64 + 0.25
        os_ = r.choice([1, 2, 3, 4, (2, 4)])
        osy, osx = (os_, os_) if np.isscalar(os_) else os_
        origin = r.choice([None, None, (r.randint(0, 2 * (nx - 1)) / 2, r.randint(0, 2 * (ny - 1)) / 2)])
        x0, y0 = r.randint(-8, 24) / 4, r.randint(-8, 24) / 4
        flux = r.choice([1.0, 2.0, 0.5])
        fillv = r.choice([0.0, -7.0])
        m = ImagePSF(data, flux=flux, x_0=x0, y_0=y0, origin=origin, oversampling=os_, fill_value=fillv)
        ox, oy = m.origin
        replay = {'data_shape': [ny, nx], 'oversampling': [osy, osx], 'origin': [float(ox), float(oy)], 'x_0': x0, 'y_0': y0}
        rep.case(('ipsf', data.tobytes(), osy, osx, ox, oy, x0, y0), True, kind='ImagePSF:sample-points',
                 sample=replay)
        bad = None
        for j in range(1, ny - 1):
            for i in range(1, nx - 1):
                x = x0 + (i - ox) / osx
                y = y0 + (j - oy) / osy
                v = float(m(x, y))
                if abs(v - flux * data[j, i]) > 1e-9 * max(1.0, abs(flux * data[j, i])):
                    bad = (j, i, v, flux * data[j, i])
                    break
            if bad:
                break
        if bad:
            rep.violation('imagepsf-sample-point', f'ImagePSF at interior sample point {bad[:2]} gives {bad[2]}, expected flux*data = {bad[3]}', replay)
            continue
        # the whole sample grid as float64 coordinate arrays, evaluated twice on the SAME arrays: same values (= flux * data in the
        # interior), and the caller's coordinate arrays are left alone
        gj, gi = np.mgrid[1:ny - 1, 1:nx - 1]
        gx = np.ascontiguousarray(x0 + (gi - ox) / osx, dtype=np.float64)
        gy = np.ascontiguousarray(y0 + (gj - oy) / osy, dtype=np.float64)
        gx0, gy0 = gx.copy(), gy.copy()
        with warnings.catch_warnings():
            warnings.simplefilter('ignore')
            va = np.asarray(m(gx, gy), float)
            vb = np.asarray(m(gx, gy), float)
        if not (np.array_equal(gx, gx0) and np.array_equal(gy, gy0)):
            rep.violation('imagepsf-modifies-coordinates', 'ImagePSF evaluation modified the coordinate arrays it was given', replay)
            continue
        if not (np.allclose(va, flux * data[1:ny - 1, 1:nx - 1], rtol=1e-9, atol=1e-9) and np.array_equal(va, vb)):
            rep.violation('imagepsf-array-evaluation', 'ImagePSF on float64 coordinate arrays: the second evaluation on the same arrays differs from the first / from '
                          'flux * data', replay)
            continue
        # outside the array -> fill_value
        for (xo, yo) in [(x0 + (nx - 1 - ox) / osx + 1.0, y0), (x0 + (0 - ox) / osx - 0.75, y0), (x0, y0 + (ny - 1 - oy) / osy + 2.0)]:
            v = float(m(xo, yo))
            if v != fillv:
                rep.violation('imagepsf-fill-value', f'ImagePSF outside its array returns {v}, fill_value is {fillv}', replay)
                break
        # (T) index transform
        i = r.randrange(1, nx - 1)      # interior (border samples can fall outside through rounding of (i-ox)/os)
        xs = x0 + (i - ox) / osx
        lines.append(f'psf.coord {q(osx)} {q(ox)} {q(xs)} {q(x0)} {nx}')
        exps.append((lambda ii: (lambda o: o.startswith('ok') and abs(float(F(o.split()[1])) - ii) < 1e-9 and o.split()[2] == 'false'))(i))
        metas.append('imagepsf-coord')


def origin_correspondence(rep, r, lines, exps, metas):
    """(T) default origins of GriddedPSFModel and ImagePSF(origin=None) for odd and even ePSF sizes vs the Lean `griddedOrigin` / `imageOrigin`
    (whose constants are regenerated from the source)"""
    from astropy.nddata import NDData
    from photutils.psf import GriddedPSFModel, ImagePSF
    shapes = [(9, 9), (8, 8), (8, 9), (9, 10), (5, 12), (r.randint(4, 14), r.randint(4, 14))]
    for ny, nx in shapes:
        d = np.ones((ny, nx))
        with warnings.catch_warnings():
            warnings.simplefilter('ignore')
            g = GriddedPSFModel(NDData(np.array([d, d, d, d]), meta={'grid_xypos': [(0, 0), (10, 0), (0, 10), (10, 10)], 'oversampling': 1}))
            im = ImagePSF(d)
            go, io = [float(v) for v in np.ravel(g.origin)[:2]], [float(v) for v in np.ravel(im.origin)[:2]]
        lines.append(f'psf.origin {ny} {nx}')
        exps.append((lambda a: (lambda o: o == 'ok ' + ' '.join(q(v) for v in a)))(go + io))
        metas.append('default-origin')
        rep.case(('origin', ny, nx), ny % 2 == 0 or nx % 2 == 0, kind='default-origin:' + ('even' if (ny % 2 == 0 or nx % 2 == 0) else 'odd'))


def prfadapter_probe(rep, r, n):
    """PRFAdapter (deprecated, still public) around a non-symmetric model: pixel-integrated values sum to flux, are centred on (x_0, y_0) and
    keep the wrapped model's orientation, whichever of xname / yname / fluxname are delegated to the wrapped model (defect F62)"""
    from astropy.modeling.models import Gaussian2D
    from photutils.psf import PRFAdapter
    yy, xx = np.mgrid[-7:8, -7:8].astype(float)
    combos = [dict(), dict(xname='x_mean', yname='y_mean'), dict(xname='x_mean', yname='y_mean', fluxname='amplitude'), dict(fluxname='amplitude'),
              dict(xname='x_mean'), dict(yname='y_mean')]
    for k in range(n):
        kw = combos[(k + r.randrange(6)) % 6] if k else combos[2]
        sx, sy = r.choice([(1.6, 1.0), (1.0, 1.5)])
        flux, x0, y0 = r.choice([1.0, 3.0]), r.randint(-4, 4) / 4, r.randint(-4, 4) / 4
        rp = {'names': kw, 'x_stddev': sx, 'y_stddev': sy, 'flux': flux, 'x_0': x0, 'y_0': y0}
        try:
            with warnings.catch_warnings():
                warnings.simplefilter('ignore')
                m = PRFAdapter(Gaussian2D(1.0, 0, 0, sx, sy), **kw)
                m.flux, m.x_0, m.y_0 = flux, x0, y0
                v = np.asarray(m(xx, yy), float)
        except Exception as e:                                  # noqa: BLE001
            rep.violation(f'prfadapter-raises:{type(e).__name__}', f'PRFAdapter({kw}) raised {e!r}', rp)
            continue
        rep.case(('prfadapter', tuple(sorted(kw.items())), sx, sy, flux, x0, y0), True, kind='PRFAdapter:' + ('+'.join(sorted(kw)) or 'no-names'))
        rep.probe_only += 1
        tot = float(v.sum())
        cx, cy = float((v * xx).sum() / tot), float((v * yy).sum() / tot)
        wx, wy = float((v * (xx - cx) ** 2).sum() / tot), float((v * (yy - cy) ** 2).sum() / tot)
        if not (abs(tot - flux) < 2e-3 * flux and abs(cx - x0) < 2e-3 and abs(cy - y0) < 2e-3 and (wx > wy) == (sx > sy)):
            rep.violation('prfadapter-not-the-wrapped-model', f'PRFAdapter({kw}) around Gaussian2D(x_stddev={sx}, y_stddev={sy}), flux {flux} at ({x0}, {y0}): '
                          f'sum {tot:.5f}, centroid ({cx:.4f}, {cy:.4f}), second moments x {wx:.3f} / y {wy:.3f}', rp)


def make_grid(r):
    from astropy.nddata import NDData
    from photutils.psf import GriddedPSFModel
    layout = r.choice(['3x3', '2x2', '1x3', '3x1', '1x1', '2x3'])
    gx = {'3x3': [0, 16, 40], '2x2': [4, 36], '1x3': [0, 20, 44], '3x1': [8], '1x1': [12], '2x3': [0, 24, 48]}[layout]
    gy = {'3x3': [0, 24, 32], '2x2': [0, 28], '1x3': [10], '3x1': [0, 16, 40], '1x1': [6], '2x3': [2, 30]}[layout]
    # ePSF arrays with odd and even pixel counts (the model is centred on the array centre ((nx-1)/2, (ny-1)/2) either way)
    eny, enx = r.choice([(9, 9), (9, 9), (8, 8), (8, 9), (9, 10)])
    yy, xx = np.mgrid[0:eny, 0:enx]
    psfs, pos = [], []
    sig0 = r.choice([1.1, 1.25, 1.4, 0.95])          # models on the same grid layout hold different ePSFs (nothing may be shared between objects)
    for iy, y in enumerate(gy):
        for ix, x in enumerate(gx):
            sig = sig0 + 0.2 * ix + 0.35 * iy
            d = np.exp(-((xx - (enx - 1) / 2) ** 2 + (yy - (eny - 1) / 2) ** 2) / (2 * sig ** 2))
            psfs.append(d / d.sum())
            pos.append((x, y))
    nd = NDData(np.array(psfs), meta={'grid_xypos': pos, 'oversampling': 1})
    return GriddedPSFModel(nd), gx, gy, np.array(psfs), pos, layout


def gridded(rep, r, n, lines, exps, metas):
    for k in range(n):
        m, gx, gy, psfs, pos, layout = make_grid(r)
        t = r.random()
        if t < 0.3:
            x0, y0 = float(r.choice(gx)), float(r.choice(gy))                 # on a node
        elif t < 0.7:
            x0 = r.randint(4 * min(gx), 4 * max(gx)) / 4 if len(gx) > 1 else gx[0] + r.choice([-3.0, 0.0, 5.5])
            y0 = r.randint(4 * min(gy), 4 * max(gy)) / 4 if len(gy) > 1 else gy[0] + r.choice([-2.0, 0.0, 7.25])
        else:
            x0, y0 = r.choice([min(gx) - 6.5, max(gx) + 9.0, float(gx[0])]), r.choice([min(gy) - 3.0, max(gy) + 12.5, float(gy[-1])])
        eny, enx = psfs.shape[1:]
        replay = {'layout': layout, 'grid_x': gx, 'grid_y': gy, 'x_0': x0, 'y_0': y0, 'epsf_shape': [int(eny), int(enx)]}
        try:
            with warnings.catch_warnings():
                warnings.simplefilter('ignore')
                gidx, gxy = m._find_bounding_points(x0, y0)
                w = m._calc_bilinear_weights(x0, y0, gxy)
                y, x = np.mgrid[int(round(y0)) - 3:int(round(y0)) + 4, int(round(x0)) - 3:int(round(x0)) + 4]
                v = m.evaluate(x, y, 2.0, x0, y0)
        except Exception as e:
            rep.violation(f'gridded-raises:{type(e).__name__}', f'GriddedPSFModel raised {e!r}', replay)
            continue
        inside = (min(gx) < x0 < max(gx) or len(gx) == 1) and (min(gy) < y0 < max(gy) or len(gy) == 1)
        rep.case(('grid', layout, x0, y0), not (x0 in gx and y0 in gy), kind=f'gridded:{layout}:' + ('in-hull' if inside else 'outside'),
                 sample=replay)
        if not np.isfinite(v).all() or not np.isfinite(w).all():
            rep.violation('gridded-nonfinite' + (':single-row-or-column' if min(len(gx), len(gy)) == 1 else ''),
                          f'GriddedPSFModel ({layout} grid) evaluates to non-finite values at ({x0}, {y0})', replay)
            continue
        # (S) the ePSF indices returned for the bounding points are the ePSFs stored AT those grid points
        bx0, bx1, by0, by1 = [float(t_) for t_ in np.ravel(gxy)]           # grid_xy = (x0, x1, y0, y1); indices = (ll, lr, ul, ur)
        corners = [(bx0, by0), (bx1, by0), (bx0, by1), (bx1, by1)]
        wrong = [(int(gi), p_) for gi, p_ in zip(np.ravel(gidx), corners) if tuple(float(t_) for t_ in pos[int(gi)]) != p_]
        if wrong:
            rep.violation(f'gridded-wrong-epsf-index:{layout}', f'bounding point {wrong[0][1]} is mapped to ePSF #{wrong[0][0]}, which is stored at {pos[wrong[0][0]]}', replay)
            continue
        # (S) value = bilinear blend of the four bounding ePSFs evaluated at the same offsets (each via a 1-node reference)
        ref = np.zeros_like(v)
        from scipy.interpolate import RectBivariateSpline
        xi = (x - x0) + (enx - 1) / 2                                # (not m.origin: the centre of the stored arrays is part of the property)
        yi = (y - y0) + (eny - 1) / 2
        for gi, wi in zip(gidx, w):
            if wi == 0:
                continue
            sp = RectBivariateSpline(np.arange(enx), np.arange(eny), psfs[gi].T, kx=3, ky=3, s=0)
            ref += wi * sp(xi, yi, grid=False)
        ref *= 2.0
        inval = (xi < 0) | (xi > enx - 1) | (yi < 0) | (yi > eny - 1)
        ref[inval] = 0.0
        if not np.allclose(v, ref, rtol=1e-10, atol=1e-14):
            rep.violation('gridded-not-bilinear-blend', 'GriddedPSFModel value is not the weighted blend of its bounding ePSFs', replay)
            continue
        # a copy is independent of the model it was made from (parameters included)
        with warnings.catch_warnings():
            warnings.simplefilter('ignore')
            m.x_0, m.y_0, m.flux = x0, y0, 2.0
            v1 = m(x, y)
            cp = m.copy()
            cp.flux, cp.x_0, cp.y_0 = 5.0, x0 + 3.0, y0 - 2.0
            v2 = m(x, y)
        if not (np.array_equal(v1, v2) and float(m.flux.value) == 2.0 and float(m.x_0.value) == x0 and float(m.y_0.value) == y0):
            rep.violation('gridded-copy-aliases-original', f'changing flux / x_0 / y_0 of GriddedPSFModel.copy() changed the original model '
                          f'(flux {float(m.flux.value)}, x_0 {float(m.x_0.value)}; evaluation changed: {not np.array_equal(v1, v2)})', replay)
            continue
        # clamping: outside the hull the value equals the value at the nearest point of the hull
        xc, yc = min(max(x0, min(gx)), max(gx)), min(max(y0, min(gy)), max(gy))
        if (xc, yc) != (x0, y0):
            with warnings.catch_warnings():
                warnings.simplefilter('ignore')
                vc = m.evaluate(x - x0 + xc, y - y0 + yc, 2.0, xc, yc)
            if not np.allclose(v, vc, rtol=1e-10, atol=1e-14):
                rep.violation('gridded-not-clamped', 'outside the grid the model differs from the nearest-edge model', replay)
                continue
        # copies evaluate identically after arbitrary evaluation sequences
        for mm in (m.copy(), copy.deepcopy(m)):
            with warnings.catch_warnings():
                warnings.simplefilter('ignore')
                vv = mm.evaluate(x, y, 2.0, x0, y0)
            if not np.array_equal(vv, v):
                rep.violation('gridded-copy-differs', 'a copy of the model evaluates differently', replay)
                break
        # (T) model: bounding nodes and weights
        lines.append('psf.bounds ' + ' '.join(q(g) for g in gx) + f' | {q(x0)}')
        exps.append((lambda a, b: (lambda o: o == f'ok {q(a)} {q(b)}'))(float(gxy[0]), float(gxy[1])))
        metas.append('bounds-x')
        lines.append('psf.bounds ' + ' '.join(q(g) for g in gy) + f' | {q(y0)}')
        exps.append((lambda a, b: (lambda o: o == f'ok {q(a)} {q(b)}'))(float(gxy[2]), float(gxy[3])))
        metas.append('bounds-y')
        lines.append('psf.weights ' + ' '.join(q(float(t_)) for t_ in gxy) + f' {q(x0)} {q(y0)}')
        exps.append((lambda ww: (lambda o: o.startswith('ok') and all(abs(float(F(a)) - b) < 1e-12 for a, b in zip(o.split()[1:], ww))))(
            [float(t_) for t_ in w]))
        metas.append('weights')


def replay(rep, data):
    run(rep, 'quick')
