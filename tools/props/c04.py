"""C04 — detect_sources is exact connected-component labelling above threshold (DESIGN §5 C04)."""
import itertools
import warnings

import numpy as np

import gens
from common import Driver, prove, rng

PROP_MODULES = ['PhotVerif.Props.C04']


def impl_detect(data, thr, npix, conn, mask):
    from photutils.segmentation import detect_sources
    with warnings.catch_warnings():
        warnings.simplefilter('ignore')
        try:
            return detect_sources(data, thr, npix, connectivity=conn, mask=mask)
        except ValueError as e:
            return ('err', str(e))


def canon(segm):
    if segm is None:
        return 'none'
    d = np.asarray(segm.data)
    labs = list(segm.labels)
    boxes = []
    for s in segm.slices:
        boxes.append(f'{s[0].start} {s[0].stop} {s[1].start} {s[1].stop}')
    return (f'ok {len(labs)} | ' + ' '.join(str(int(v)) for v in d.ravel()) + ' | '
            + ' '.join(str(int(a)) for a in segm.areas) + ' | ' + ' '.join(boxes))


def reference(data, thr, npix, conn, mask):
    """(S) independent union-find reference evaluated on the implementation's inputs"""
    ny, nx = data.shape
    with np.errstate(invalid='ignore'):
        fg = data > thr
    if mask is not None:
        fg = fg & ~mask
    parent = {}

    def find(a):
        while parent[a] != a:
            parent[a] = parent[parent[a]]
            a = parent[a]
        return a
    for y in range(ny):
        for x in range(nx):
            if fg[y, x]:
                parent[(y, x)] = (y, x)
    offs = [(-1, 0), (0, -1)] + ([(-1, -1), (-1, 1)] if conn == 8 else [])
    for (y, x) in list(parent):
        for dy, dx in offs:
            q = (y + dy, x + dx)
            if q in parent:
                a, b = find((y, x)), find(q)
                if a != b:
                    parent[max(a, b)] = min(a, b)
    comps = {}
    for p in parent:
        comps.setdefault(find(p), []).append(p)
    keep = sorted(k for k, v in comps.items() if len(v) >= npix)
    if not keep:
        return None
    out = np.zeros((ny, nx), dtype=int)
    for i, k in enumerate(keep):
        for (y, x) in comps[k]:
            out[y, x] = i + 1
    return out


def op_line(data, thr, npix, conn, mask):
    ny, nx = data.shape
    t = gens.arr_tokens(thr) if np.ndim(thr) else gens.vtok(thr)
    return (f'detect {ny} {nx} {conn} {npix} | ' + gens.arr_tokens(data) + ' | ' + t + ' | '
            + gens.mask_tokens(mask))


def check_case(rep, data, thr, npix, conn, mask, kind):
    segm = impl_detect(data, thr, npix, conn, mask)
    replay = {'data': np.asarray(data).tolist(), 'threshold': np.asarray(thr).tolist(), 'npixels': npix,
              'connectivity': conn, 'mask': None if mask is None else np.asarray(mask).astype(int).tolist()}
    if isinstance(segm, tuple):
        if mask is not None and mask.all():
            return None      # documented rejection: every pixel masked
        rep.violation('detect-raises', f'detect_sources raised on valid input: {segm[1]}', replay)
        return None
    ref = reference(np.asarray(data, float), thr, npix, conn, mask)
    if (segm is None) != (ref is None) or (segm is not None and not np.array_equal(segm.data, ref)):
        rep.violation(f'labelling-wrong:conn{conn}',
                      'detect_sources output is not the raster-ordered labelling of the components with >= npixels pixels',
                      replay)
        return None
    # the same pixel values in another memory layout (Fortran order, a transposed view, a strided view) are the same image: raster order is
    # the order of the INDICES, not of the memory (seed C04-r10 labelled Fortran-ordered input column by column)
    d_ = np.asarray(data)
    if d_.ndim == 2 and min(d_.shape) >= 2:
        wide = np.empty((d_.shape[0], 2 * d_.shape[1]), d_.dtype)
        wide[:, ::2] = d_
        for lname, dl in (('fortran', np.asfortranarray(d_)), ('transposed-view', np.ascontiguousarray(d_.T).T), ('strided', wide[:, ::2])):
            tl = np.asfortranarray(thr) if (lname != 'strided' and np.ndim(thr) == 2) else thr
            sl = impl_detect(dl, tl, npix, conn, None if mask is None else (np.asfortranarray(mask) if lname != 'strided' else mask))
            same = (sl is None and segm is None) or (sl is not None and segm is not None and not isinstance(sl, tuple) and np.array_equal(sl.data, segm.data))
            if not same:
                rep.violation(f'labelling-depends-on-memory-layout:{lname}', f'detect_sources on the same pixel values in {lname} layout gives a different label image',
                              dict(replay, layout=lname))
                return None
    if segm is not None:
        from photutils.segmentation import SegmentationImage
        fresh = SegmentationImage(segm.data.copy())
        if (list(segm.labels) != list(fresh.labels) or list(segm.slices) != list(fresh.slices)
                or list(segm.areas) != list(fresh.areas)):
            rep.violation('seeded-caches-incoherent',
                          'labels/slices/areas of the returned SegmentationImage differ from a fresh one', replay)
            return None
        with np.errstate(invalid='ignore'):
            bad = (segm.data > 0) & (~(np.asarray(data, float) > thr))
        if mask is not None:
            bad |= (segm.data > 0) & mask
        if bad.any():
            rep.violation('segment-contains-excluded-pixel', 'NaN/masked/below-threshold pixel inside a segment', replay)
            return None
    return canon(segm)


def run(rep, tier):
    thorough = tier == 'thorough'
    rep.rule = ('(a) EXHAUSTIVE: every binary image up to 3x3 (thorough: 3x4) x connectivity {4,8} x npixels 1..area; '
                '(b) random dyadic images with ties at the threshold, plateaus, NaN/inf, 2-D thresholds, masks. '
                'Non-trivial = at least two foreground pixels; distinct by canonical input hash.')
    rep.assumptions += ['scipy.ndimage.label/find_objects are not assumed: the model labels independently and the '
                        'results are compared']
    rep.lean = prove(PROP_MODULES)
    r = rng('C04')
    drv = Driver()
    lines, exps = [], []
    # (a) exhaustive tiny images
    shapes = [(1, 1), (1, 2), (2, 1), (1, 3), (3, 1), (2, 2), (2, 3), (3, 2), (3, 3)]
    if thorough:
        shapes += [(3, 4), (4, 3), (1, 5), (2, 4)]
    nex = 0
    for (ny, nx) in shapes:
        for bits in itertools.product([0, 1], repeat=ny * nx):
            data = np.array(bits, dtype=float).reshape(ny, nx)
            nfg = int(sum(bits))
            for conn in (4, 8):
                for npix in range(1, max(nfg, 1) + 2 if not thorough else ny * nx + 1):
                    if npix > ny * nx:
                        continue
                    e = check_case(rep, data, 0.5, npix, conn, None, 'exhaustive')
                    rep.case(('ex', ny, nx, bits, conn, npix), nfg >= 2, kind='exhaustive-binary')
                    nex += 1
                    if e is not None:
                        lines.append(op_line(data, 0.5, npix, conn, None))
                        exps.append(e)
    rep.extra['exhaustive'] = True
    rep.extra['exhaustive_space'] = f'all binary images of shapes {shapes} x conn 4/8 x npixels ({nex} calls)'
    # (b) random dyadic
    n = 400 * (25 if thorough else 1)
    for k in range(n):
        ny, nx = gens.size(r, 1, 9 if not thorough else 14), gens.size(r, 1, 9 if not thorough else 14)
        data = gens.image(r, ny, nx, special=0.3, palette=0.7)
        if r.random() < 0.5:
            thr = r.choice(list(np.unique(data[np.isfinite(data)])) or [0.0])   # tie at the threshold
        else:
            thr = gens.dy(r, 2, 4)
        if r.random() < 0.3:
            thr = np.full((ny, nx), float(thr)) + np.array([[r.choice([0, 0, 0.25, -0.25]) for _ in range(nx)]
                                                            for _ in range(ny)])
            if r.random() < 0.2:
                thr[r.randrange(ny), r.randrange(nx)] = np.nan
        mask = gens.mask(r, ny, nx)
        conn = r.choice([4, 8])
        npix = r.choice([1, 1, 2, 3, 5, ny * nx])
        e = check_case(rep, data, thr, npix, conn, mask, 'random')
        with np.errstate(invalid='ignore'):
            nfg = int(np.count_nonzero(data > thr))
        rep.case(('rnd', data.tobytes(), np.asarray(thr).tobytes(), conn, npix,
                  None if mask is None else mask.tobytes()), nfg >= 2,
                 kind=f'random:conn{conn}:' + ('2d-thr' if np.ndim(thr) else 'scalar-thr'),
                 sample={'data': data.tolist(), 'threshold': np.asarray(thr).tolist(), 'npixels': npix,
                         'connectivity': conn, 'result': e if e is None else e[:80]})
        if e is not None:
            lines.append(op_line(data, thr, npix, conn, mask))
            exps.append(e)
    # (c) nested shapes: an L / U / ring-shaped source whose bounding box contains another source, diagonal neighbours, and isolated single
    # pixels ahead of them in raster order that are pruned (npixels = 2) - the survivors have overlapping bounding boxes and are renumbered
    # (seed C04-r11 renumbered box by box, in place)
    for k in range(60 * (10 if thorough else 1)):
        ny, nx = r.randint(7, 10), r.randint(6, 10)
        data = np.zeros((ny, nx))
        y0, x0 = r.randint(1, 2), r.randint(0, 1)
        y1, x1 = r.randint(y0 + 4, ny - 1), r.randint(x0 + 4, nx - 1)
        kind_ = ['L', 'U', 'ring', 'diag'][k % 4]
        if kind_ == 'diag':
            for i_ in range(min(y1 - y0, x1 - x0) + 1):
                data[y0 + i_, x0 + i_] = 2.0                        # a diagonal line: one component for 8-connectivity, single pixels for 4
                if x0 + i_ + 2 < nx:
                    data[y0 + i_, x0 + i_ + 2] = 3.0                # a parallel diagonal two columns to the right
        else:
            data[y0:y1 + 1, x0] = 2.0
            data[y1, x0:x1 + 1] = 2.0
            if kind_ in ('U', 'ring'):
                data[y0:y1 + 1, x1] = 2.0
            if kind_ == 'ring':
                data[y0, x0:x1 + 1] = 2.0
            iy, ix = r.randint(y0 + (2 if kind_ == 'ring' else 0), y1 - 2), r.randint(x0 + 2, x1 - 2)
            data[iy, ix] = 4.0
            if r.random() < 0.7 and ix + 1 <= x1 - 2:
                data[iy, ix + 1] = 4.0
            elif iy - 1 >= y0 + (2 if kind_ == 'ring' else 0):
                data[iy - 1, ix] = 4.0
            else:
                data[iy, ix] = 0.0
        for _ in range(r.randint(1, 2)):                            # isolated single pixels on row 0 (pruned; they come first in raster order)
            data[0, r.randrange(nx)] = 5.0
        conn = [8, 4][(k // 4) % 2]
        npix = 2
        e = check_case(rep, data, 1.0, npix, conn, None, 'nested')
        rep.case(('nested', data.tobytes(), conn), True, kind=f'nested:{kind_}:conn{conn}')
        if e is not None:
            lines.append(op_line(data, 1.0, npix, conn, None))
            exps.append(e)
    out = drv.run(lines)
    if out is None:
        rep.tie_broken('model driver failed', drv.error)
    else:
        nb = 0
        for ln, o, e in zip(lines, out, exps):
            rep.traces += 1
            if o != e:
                nb += 1
                if nb <= 3:
                    rep.tie_broken('Lean CCL model and detect_sources disagree',
                                   {'op': ln[:400], 'model': o[:300], 'impl': e[:300]})
    probe_threshold(rep, r, 40 if not thorough else 400)
    probe_finder(rep, r, 20 if not thorough else 200)
    weak_scalar_probe(rep, r, 24 if not thorough else 240)


def weak_scalar_probe(rep, r, n):
    """float32 images whose pixel values lie within one float32 rounding step of a scalar threshold given as a Python float: a pixel is
    detected iff its value is strictly above the threshold (both real numbers) - the same answer as for the same values held in float64 or
    for the threshold given as np.float64 (F80: NumPy treats a Python float as a weak scalar and first rounded it to float32)"""
    from photutils.segmentation import detect_sources
    for k in range(n):
        t = float(r.choice([0.1, 0.3, 0.7, 1.1, 2.3, 0.05]) * r.choice([1, 1, 10, 0.5]))
        t32 = np.float32(t)
        vals = [t32, np.nextafter(t32, np.float32(np.inf)), np.nextafter(t32, np.float32(-np.inf))]
        ny, nx = 5, 7
        img = np.zeros((ny, nx), np.float32)
        for (y, x) in r.sample([(y, x) for y in range(ny) for x in range(nx)], 8):
            img[y, x] = r.choice(vals)
        want = img.astype(np.float64) > t                  # exact: every float32 value is a float64 value
        for form in ('python-float', 'float64-scalar', 'float64-data'):
            thr = np.float64(t) if form == 'float64-scalar' else t
            arr = img.astype(np.float64) if form == 'float64-data' else img
            with warnings.catch_warnings():
                warnings.simplefilter('ignore')
                segm = detect_sources(arr, thr, 1, connectivity=8)
            got = np.zeros((ny, nx), bool) if segm is None else np.asarray(segm.data) > 0
            rep.case(('weak-scalar', img.tobytes(), t, form), bool(want.any()) and not bool(want.all()), kind='float32-knife-edge:' + form)
            rep.probe_only += 1
            if not np.array_equal(got, want):
                rep.violation('detect-float32-threshold-rounded', f'detect_sources (float32 image, threshold {t!r} as {form}): detected pixels '
                              f'{np.argwhere(got).tolist()} but the pixels strictly above the threshold are {np.argwhere(want).tolist()} '
                              f'(values {sorted(set(float(v) for v in img.ravel() if v))})',
                              {'data_float32': img.astype(float).tolist(), 'threshold': t, 'form': form, 'npixels': 1})
                break


def probe_threshold(rep, r, n):
    """detect_threshold == background + nsigma*error pixel-wise (supplied background/error)"""
    from photutils.segmentation import detect_threshold
    for _ in range(n):
        ny, nx = gens.size(r, 1, 8), gens.size(r, 1, 8)
        data = gens.image(r, ny, nx, special=0.2)
        bkg = gens.image(r, ny, nx, special=0) if r.random() < 0.5 else gens.dy(r)
        err = np.abs(gens.image(r, ny, nx, special=0)) if r.random() < 0.5 else abs(gens.dy(r))
        ns = r.choice([0.5, 1.0, 2.0, 3.0])
        # the image itself may be integer or float32 (the threshold is still background + nsigma * error, not cast to the image dtype)
        dt = r.choice(['float64', 'float64', 'int16', 'uint16', 'float32', 'int64'])
        if dt != 'float64':
            data = np.nan_to_num(np.round(np.abs(data) if dt == 'uint16' else data), nan=0.0, posinf=0.0, neginf=0.0).astype(dt)
        with warnings.catch_warnings():
            warnings.simplefilter('ignore')
            t = detect_threshold(data, ns, background=bkg, error=err)
        exp = np.broadcast_to(bkg, data.shape) + ns * np.broadcast_to(err, data.shape)
        rep.case(('thr', data.tobytes(), ns, dt), True, kind=f'detect_threshold:{dt}')
        rep.probe_only += 1
        if t.shape != data.shape or not np.array_equal(t, exp):
            rep.violation('detect_threshold-formula', 'detect_threshold != background + nsigma*error',
                          {'data': data.tolist(), 'dtype': dt, 'background': np.asarray(bkg).tolist(),
                           'error': np.asarray(err).tolist(), 'nsigma': ns})


def probe_finder(rep, r, n):
    """SourceFinder(deblend=False) == detect_sources"""
    from photutils.segmentation import SourceFinder, detect_sources
    for k_ in range(n):
        ny, nx = gens.size(r, 3, 10), gens.size(r, 3, 10)
        data = gens.image(r, ny, nx, special=0.2, palette=0.7)
        thr = gens.dy(r, 2, 3)
        npix = r.choice([1, 2, 4])
        if k_ % 2 == 1:
            # (detection minimum, deblending minimum): the detection step prunes with the FIRST one
            npix = [(4, 1), (1, 4), (2, 5), (5, 2), (3, 1)][(k_ // 2) % 5]
        conn = r.choice([4, 8])
        with warnings.catch_warnings():
            warnings.simplefilter('ignore')
            a = SourceFinder(npixels=npix, connectivity=conn, deblend=False, progress_bar=False)(data, thr)
            b = detect_sources(data, thr, npix[0] if isinstance(npix, tuple) else npix, connectivity=conn)
        rep.case(('finder', data.tobytes(), thr, npix, conn), True, kind='SourceFinder' + (':npixels-pair' if isinstance(npix, tuple) else ''))
        rep.probe_only += 1
        if (a is None) != (b is None) or (a is not None and not np.array_equal(a.data, b.data)):
            rep.violation('finder-ne-detect', 'SourceFinder(deblend=False) differs from detect_sources',
                          {'data': data.tolist(), 'threshold': thr, 'npixels': list(npix) if isinstance(npix, tuple) else npix, 'connectivity': conn})


def replay(rep, data):
    d = np.array(data['data'], float)
    m = None if data.get('mask') is None else np.array(data['mask'], bool)
    check_case(rep, d, np.array(data['threshold'], float), data['npixels'], data['connectivity'], m, 'replay')
    rep.lean = None
