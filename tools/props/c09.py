"""C09 — results never depend on access order or on earlier calls (DESIGN §5 C09)."""
import itertools
import json
import math
import warnings
from fractions import Fraction as F

import numpy as np

import gens
from common import Driver, prove, q, rng

PROP_MODULES = ['PhotVerif.Props.C09']


def same_val(a, b, rel=0.0):
    a = getattr(a, 'value', a)
    b = getattr(b, 'value', b)
    a, b = np.asarray(a, dtype=float), np.asarray(b, dtype=float)
    if a.shape != b.shape:
        return False
    if rel == 0.0:
        return np.array_equal(a, b, equal_nan=True)
    return np.allclose(a, b, rtol=rel, atol=rel * max(1.0, float(np.nanmax(np.abs(b))) if b.size else 1.0),
                       equal_nan=True)


# ------------------------------------------------------------------ Background2D
BKG_ATTRS = ['background', 'background_rms', 'background_mesh', 'background_rms_mesh', 'background_median',
             'background_rms_median', 'npixels_mesh', 'npixels_map']
BKG_KEY = {'background': 0, 'background_mesh': 0, 'background_median': 0,
           'background_rms': 1, 'background_rms_mesh': 1, 'background_rms_median': 1}


def bkg_configs(r):
    from photutils.background import BkgZoomInterpolator, BkgIDWInterpolator
    cfgs = []
    for thr in ('none', 'below', 'above', 'high'):
        for interp in (BkgZoomInterpolator, BkgIDWInterpolator):
            for fs in ((3, 3), (1, 1)):
                cfgs.append((thr, interp, fs))
    return cfgs


def make_bkg(img, mask, thr, interp, fs):
    from photutils.background import Background2D
    kw = dict(filter_size=fs, interpolator=interp(), mask=mask, exclude_percentile=40.0)
    with warnings.catch_warnings():
        warnings.simplefilter('ignore')
        if thr == 'none':
            return Background2D(img, (6, 5), **kw)
        probe = Background2D(img, (6, 5), **kw)
        mn = float(probe._min_bkg_stats)
        t = mn - 1.0 if thr == 'below' else mn + 0.25
        if thr == 'high':
            # between the brightest box and the typical box: the bright box is selected by its unfiltered value only
            st = np.asarray(probe._bkg_stats if probe._bkg_stats is not None else probe.background_mesh, float)
            t = 0.5 * (float(np.nanmax(st)) + float(np.nanmedian(st)))
        return Background2D(img, (6, 5), filter_threshold=t, **kw)


def bkg_stream(rep, drv, r, norders, exhaustive_pairs=True):
    rs = np.random.RandomState(r.randrange(2 ** 31))
    img = np.round((rs.normal(10, 2, (23, 22)) + np.linspace(0, 4, 22)[None, :]) * 32) / 32
    img[4:7, 5:9] += 40
    mask = np.zeros(img.shape, bool)
    mask[0:6, 0:5] = True               # one box fully masked -> NaN mesh, interpolated
    lines, exps, metas = [], [], []
    for (thr, interp, fs) in bkg_configs(r):
        ref = {}
        for a in BKG_ATTRS:
            with warnings.catch_warnings():
                warnings.simplefilter('ignore')
                try:
                    ref[a] = getattr(make_bkg(img, mask, thr, interp, fs), a)
                except Exception as e:
                    rep.violation(f'bkg2d-fresh-read-raises:{a}', f'fresh Background2D.{a} raised {e!r}',
                                  {'cfg': [thr, interp.__name__, fs]})
                    ref[a] = None
        orders = []
        if exhaustive_pairs:
            orders += [list(p) for p in itertools.permutations(BKG_ATTRS, 2)]
            orders += [list(p) for p in itertools.permutations(BKG_ATTRS[:6], 3)]
        for _ in range(norders):
            k = r.randint(2, len(BKG_ATTRS))
            orders.append(r.sample(BKG_ATTRS, k))
        for order in orders:
            b = make_bkg(img, mask, thr, interp, fs)
            selective = int(thr in ('above', 'high') and fs != (1, 1))
            failed = None
            for i, a in enumerate(order):
                try:
                    with warnings.catch_warnings():
                        warnings.simplefilter('ignore')
                        v = getattr(b, a)
                except Exception as e:
                    failed = i
                    rep.violation(f'bkg2d-read-raises:{type(e).__name__}:selective{selective}',
                                  f'Background2D(filter_threshold={thr}, {interp.__name__}, filter_size={fs}): reading '
                                  f'{a} after {order[:i]} raised {e!r}',
                                  {'cfg': [thr, interp.__name__, list(fs)], 'order': order, 'failed_at': i})
                    break
                if ref[a] is not None and not same_val(v, ref[a]):
                    rep.violation(f'bkg2d-order-dependent:{a}',
                                  f'Background2D.{a} read after {order[:i]} differs from a fresh object',
                                  {'cfg': [thr, interp.__name__, list(fs)], 'order': order, 'at': i})
                    break
            rep.case(('bkg', thr, interp.__name__, fs, tuple(order)), len(order) >= 2,
                     kind=f'bkg2d:{thr}:{interp.__name__}:{fs[0]}',
                     sample={'cfg': [thr, interp.__name__, list(fs)], 'order': order})
            keys = [BKG_KEY[a] for a in order if a in BKG_KEY]
            lines.append(f'lazy.bkg {selective} {int(thr == "none")} ' + ' '.join(map(str, keys)))
            exps.append('ok' if failed is None else 'fail')
            metas.append((thr, interp.__name__, fs, order))
    out = drv.run(lines)
    if out is None:
        rep.tie_broken('model driver failed (bkg)', drv.error)
        return
    nb = 0
    for ln, o, e, m in zip(lines, out, exps, metas):
        rep.traces += 1
        if o.split()[0] != e:
            nb += 1
            if nb <= 3:
                rep.tie_broken('lazy-object model and Background2D disagree on whether a read history fails',
                               {'op': ln, 'model': o, 'impl': e, 'case': str(m)})


# ------------------------------------------------------------------ profiles
def profile_stream(rep, drv, r, n):
    from photutils.profiles import RadialProfile, CurveOfGrowth
    yy, xx = np.mgrid[0:25, 0:25]
    img = np.round(50 * np.exp(-((xx - 12.2) ** 2 + (yy - 11.7) ** 2) / 18.0) * 64) / 64 + 1.0
    err = np.full(img.shape, 0.5)
    img_pos = img
    lines, checks = [], []
    names = ['profile', 'profile_error', 'data_profile']
    for k in range(n):
        cls = RadialProfile if k % 3 else CurveOfGrowth
        # every 4th history: an over-subtracted image (negative everywhere), so that the normalisation constants are negative
        img = -img_pos if k % 4 == 1 else img_pos
        # every fourth history: the centre lies off the image, so the innermost apertures do not overlap it and their bins are NaN
        # (the normalisation constants are taken over the finite bins)
        xycen = (-2.5, 11.7) if k % 4 == 3 else (12.2, 11.7)
        radii = np.arange(0, 9) if cls is RadialProfile else np.arange(1, 9)

        def mk():
            with warnings.catch_warnings():
                warnings.simplefilter('ignore')
                return cls(img, xycen, radii, error=err)
        raw = mk()
        rawv = {'profile': np.array(raw.profile), 'profile_error': np.array(raw.profile_error)}
        nk = 2
        if cls is RadialProfile:
            rawv['data_profile'] = np.array(raw.data_profile)
            nk = 3
        ops = []
        toks = []
        obj = mk()
        a_ = 1.0                                                 # scale of the profile array so far (input bookkeeping for the model's parameter m)
        for _ in range(r.randint(1, 6)):
            t = r.random()
            if t < 0.35:
                meth = r.choice(['max', 'sum'])
                cur = a_ * rawv['profile']
                nn = float(np.nanmax(cur)) if meth == 'max' else float(np.nansum(cur))
                ops.append(('normalize', meth))
                toks.append('n:' + q(nn / a_))                   # the model multiplies by the profile's current scale
                if nn != 0:
                    a_ /= nn
            elif t < 0.55:
                ops.append(('unnormalize',))
                toks.append('u')
                a_ = 1.0
            else:
                kk = r.randrange(nk)
                ops.append(('read', names[kk]))
                toks.append(f'r{kk}')
        hist = {'class': cls.__name__, 'ops': [list(o) for o in ops]}
        failed = False
        for o in ops:
            try:
                with warnings.catch_warnings():
                    warnings.simplefilter('ignore')
                    if o[0] == 'normalize':
                        obj.normalize(o[1])
                    elif o[0] == 'unnormalize':
                        obj.unnormalize()
                    else:
                        getattr(obj, o[1])
            except Exception as e:
                rep.violation(f'profile-op-raises:{o[0]}', f'{cls.__name__} history {ops}: {o} raised {e!r}', hist)
                failed = True
                break
        if failed:
            continue
        # (S) unnormalize restores every array, whenever first read
        with warnings.catch_warnings():
            warnings.simplefilter('ignore')
            obj2_vals_before = {nm: np.array(getattr(obj, nm)) for nm in names[:nk]}
            norm_before = float(np.asarray(getattr(obj.normalization_value, 'value', obj.normalization_value)))
            obj.unnormalize()
            for nm in names[:nk]:
                v = np.array(getattr(obj, nm))
                if not same_val(v, rawv[nm], rel=1e-12):
                    rep.violation(f'unnormalize-does-not-restore:{nm}',
                                  f'{cls.__name__}: after {ops} + unnormalize, {nm} differs from the raw array '
                                  f'(ratio {np.nanmean(v / rawv[nm]):.6g})', hist)
                    failed = True
                    break
        rep.case(('prof', cls.__name__, tuple(toks)), any(o[0] == 'normalize' for o in ops),
                 kind=f'profile:{cls.__name__}', sample=hist)
        if failed or cls is not RadialProfile:
            # the Lean table has 3 keys (RadialProfile); CurveOfGrowth is covered by the oracle above
            continue
        # (T) model: scales of the arrays as seen *before* the final unnormalize (reading all arrays)
        lines.append('prof.run ' + ' '.join(toks + ['r0', 'r1', 'r2']))
        checks.append((hist, obj2_vals_before, rawv, norm_before))
    out = drv.run(lines)
    if out is None:
        rep.tie_broken('model driver failed (profile)', drv.error)
        return
    nb = 0
    for ln, o, (hist, vals, rawv, normv) in zip(lines, out, checks):
        rep.traces += 1
        parts = o.split()
        ok = parts[0] == 'ok' and abs(float(F(parts[1])) - normv) <= 1e-9 * max(1, abs(normv))
        for nm, tok in zip(names, parts[2:5]):
            sc = float(F(tok))
            ok = ok and same_val(vals[nm], rawv[nm] * sc, rel=1e-10)
        if not ok:
            nb += 1
            if nb <= 3:
                rep.tie_broken('profile-normalisation model and implementation disagree', {'op': ln, 'model': o, 'history': hist})


# ------------------------------------------------------------------ callable objects, setters
def psf_scene():
    from photutils.psf import CircularGaussianPRF, make_psf_model_image
    model = CircularGaussianPRF(flux=1, fwhm=2.7)
    yy, xx = np.mgrid[0:41, 0:41]
    img = np.zeros((41, 41))
    srcs = [(10.3, 11.2, 500.0), (14.1, 12.4, 300.0), (30.2, 28.7, 700.0), (25.0, 8.5, 400.0)]
    for x, y, f in srcs:
        m = CircularGaussianPRF(flux=f, x_0=x, y_0=y, fwhm=2.7)
        img += m(xx, yy)
    return model, img, srcs


def call_objects(rep, r, n):
    from astropy.table import Table
    from photutils.psf import PSFPhotometry, IterativePSFPhotometry, SourceGrouper
    from photutils.detection import DAOStarFinder, IRAFStarFinder, StarFinder
    model, img, srcs = psf_scene()
    cols = ['x_fit', 'y_fit', 'flux_fit', 'group_id', 'group_size']

    def mk():
        return PSFPhotometry(model, (5, 5), grouper=SourceGrouper(6.0), aperture_radius=4, progress_bar=False)

    def tables():
        t0 = Table({'x': [s[0] + 0.2 for s in srcs], 'y': [s[1] - 0.1 for s in srcs]})
        t1 = t0.copy()
        t1['group_id'] = [1, 2, 3, 4]
        t2 = t0[::-1]
        t3 = t0[:2]
        return [t0, t1, t2, t3]
    for k in range(n):
        seq = [r.randrange(4) for _ in range(r.randint(2, 4))]
        phot = mk()
        grp0, fit0 = phot.grouper, phot.fitter
        for i, ti in enumerate(seq):
            scale = r.choice([1.0, 2.0])
            with warnings.catch_warnings():
                warnings.simplefilter('ignore')
                try:
                    res = phot(img * scale, init_params=tables()[ti])
                    ref = mk()(img * scale, init_params=tables()[ti])
                except Exception as e:
                    rep.violation(f'psfphot-call-raises:{type(e).__name__}', f'PSFPhotometry call sequence {seq} raised {e!r}',
                                  {'seq': seq})
                    break
            bad = [c for c in cols if not same_val(res[c], ref[c], rel=1e-9)]
            if bad or phot.grouper is not grp0 or phot.fitter is not fit0:
                rep.violation('psfphot-call-dependent' + (':grouper' if phot.grouper is not grp0 else ''),
                              f'PSFPhotometry: call #{i} of sequence {seq} (tables: 0 plain, 1 with group_id, 2 reversed, 3 subset) '
                              f'differs from a fresh object in {bad}; grouper kept: {phot.grouper is grp0}', {'seq': seq, 'call': i})
                break
        rep.case(('psfcalls', tuple(seq)), True, kind='PSFPhotometry-calls', sample={'seq': seq})
        rep.probe_only += 1
    # a model with an extra free parameter (fwhm), no grouper: a call whose table carries the parameter as a column, then a call without it -
    # the second call starts from the model's own default, as a fresh object does, and the caller's model is what it was (seeds C09-r10 / C10-r10
    # fitted single sources on the stored model itself)
    for kk in range(max(1, n // 2)):
        m2 = model.copy()
        m2.fwhm.fixed = False
        dflt = {nm: float(getattr(m2, nm).value) for nm in m2.param_names}

        def mk2(mm):
            return PSFPhotometry(mm, (5, 5), aperture_radius=4, progress_bar=False, grouper=SourceGrouper(6.0) if kk % 2 else None)
        t_a = Table({'x': [s[0] + 0.2 for s in srcs], 'y': [s[1] - 0.1 for s in srcs], 'fwhm': [r.choice([4.5, 5.5]) for _ in srcs]})
        t_b = Table({'x': [s[0] - 0.1 for s in srcs[:3]], 'y': [s[1] + 0.2 for s in srcs[:3]]})
        with warnings.catch_warnings():
            warnings.simplefilter('ignore')
            try:
                ph2 = mk2(m2)
                ph2(img, init_params=t_a)
                res = ph2(img * 2.0, init_params=t_b)
                m3 = model.copy()
                m3.fwhm.fixed = False
                ref = mk2(m3)(img * 2.0, init_params=t_b)
            except Exception as e:                              # noqa: BLE001
                rep.violation(f'psfphot-call-raises:extra-parameter:{type(e).__name__}', f'PSFPhotometry with a free fwhm raised {e!r}', {})
                continue
        rep.case(('psfcalls-extra', kk), True, kind='PSFPhotometry-calls:extra-parameter')
        rep.probe_only += 1
        cols2 = [c_ for c_ in ('x_fit', 'y_fit', 'flux_fit', 'fwhm_init', 'fwhm_fit') if c_ in res.colnames]
        bad = [c_ for c_ in cols2 if not same_val(res[c_], ref[c_], rel=1e-7)]
        now = {nm: float(getattr(m2, nm).value) for nm in m2.param_names}
        if bad or now != dflt or m2.name != model.name:
            rep.violation('psfphot-call-dependent:extra-parameter' + ('' if bad else ':model-modified'),
                          f'PSFPhotometry(model with a free fwhm): after a call whose init_params had an fwhm column, a call without one differs from a fresh object in {bad}; '
                          f'the model passed to the constructor went from {dflt} to {now} (name {m2.name!r})', {'grouper': bool(kk % 2)})
    # IterativePSFPhotometry: two calls
    for _ in range(max(1, n // 3)):
        def mki():
            return IterativePSFPhotometry(model, (5, 5), finder=DAOStarFinder(5.0, 2.7), grouper=SourceGrouper(6.0),
                                          aperture_radius=4, maxiters=2, progress_bar=False)
        it = mki()
        with warnings.catch_warnings():
            warnings.simplefilter('ignore')
            a1 = it(img)
            a2 = it(img * 2)
            b2 = mki()(img * 2)
        if len(a2) != len(b2) or not same_val(a2['flux_fit'], b2['flux_fit'], rel=1e-8):
            rep.violation('iterpsfphot-call-dependent', 'IterativePSFPhotometry second call differs from a fresh object', {})
        rep.case(('iter', _), True, kind='IterativePSFPhotometry-calls')
        rep.probe_only += 1
    # star finders called repeatedly with different images
    imgs = [img + 1.0, np.rot90(img).copy() + 1.0, img * 3 + 1.0]
    for name, mkf in [('DAOStarFinder', lambda: DAOStarFinder(5.0, 2.7)),
                      ('IRAFStarFinder', lambda: IRAFStarFinder(5.0, 2.7)),
                      ('StarFinder', lambda: StarFinder(5.0, make_kernel()))]:
        f = mkf()
        for j in [0, 1, 2, 0]:
            with warnings.catch_warnings():
                warnings.simplefilter('ignore')
                a = f(imgs[j])
                b = mkf()(imgs[j])
            ok = (a is None) == (b is None) and (a is None or (len(a) == len(b) and all(
                same_val(a[c], b[c]) for c in a.colnames)))
            if not ok:
                rep.violation(f'starfinder-call-dependent:{name}', f'{name}: repeated call differs from a fresh finder', {'image': j})
            rep.case(('finder', name, j), True, kind='starfinder-calls')
            rep.probe_only += 1


def make_kernel():
    yy, xx = np.mgrid[-3:4, -3:4]
    return np.exp(-(xx ** 2 + yy ** 2) / (2 * 1.15 ** 2))


def aperture_setters(rep, r, n):
    from props.c01 import gen_aperture, make_aperture
    img = gens.image(r, 14, 15, special=0)
    for k in range(n):
        kind, p = gen_aperture(r)
        p['cx'], p['cy'] = r.randint(4, 20) / 2, r.randint(4, 20) / 2
        ap = make_aperture(kind, p)
        # read a few lazily cached things, then reassign an attribute
        _ = (ap.area, ap.bbox, ap._centered_edges)
        with warnings.catch_warnings():
            warnings.simplefilter('ignore')
            _ = ap.do_photometry(img, method='center')
        p2 = dict(p)
        which = r.choice(['size', 'pos', 'theta'])
        try:
            if which == 'pos':
                p2['cx'], p2['cy'] = p['cx'] + 1.5, p['cy'] - 2.0
                ap.positions = (p2['cx'], p2['cy'])
            elif which == 'theta' and not kind.startswith('circ'):
                p2.pop('theta_q', None)
                if r.random() < 0.5:
                    p2['theta'] = p['theta'] + 0.5
                    ap.theta = p2['theta']
                else:
                    # the new angle arrives as a Quantity in degrees (the reference aperture is built from the same Quantity)
                    import astropy.units as u
                    deg = r.choice([90.0, 30.0, -45.0, 135.0])
                    p2['theta_q'] = [deg, 'deg']
                    p2['theta'] = float((deg * u.deg).to(u.radian).value)
                    ap.theta = deg * u.deg
            else:
                p2['size'] = p['size'] * 1.5
                ref_tmp = make_aperture(kind, p2)
                for nm in ref_tmp._params:
                    if nm != 'positions':
                        # set outer sizes first so that r_in < r_out style validators are satisfied
                        pass
                names = [nm for nm in ref_tmp._params if nm != 'positions']
                for nm in sorted(names, key=lambda s: ('in' in s)):
                    setattr(ap, nm, getattr(ref_tmp, nm))
        except Exception as e:
            rep.violation(f'aperture-setter-raises:{kind}', f'{kind}: re-assigning {which} raised {e!r}', {'kind': kind, 'params': p})
            continue
        ref = make_aperture(kind, p2)
        with warnings.catch_warnings():
            warnings.simplefilter('ignore')
            a = (float(ap.area), ap.bbox, ap._centered_edges, ap.do_photometry(img, method='center')[0][0])
            b = (float(ref.area), ref.bbox, ref._centered_edges, ref.do_photometry(img, method='center')[0][0])
        if not (a[0] == b[0] and a[1] == b[1] and a[2] == b[2] and (a[3] == b[3] or (math.isnan(a[3]) and math.isnan(b[3])))):
            rep.violation(f'aperture-setter-stale:{kind}:{which}',
                          f'{kind}: after re-assigning {which}, cached attributes differ from a fresh aperture',
                          {'kind': kind, 'params': p, 'new': p2})
        rep.case(('apset', kind, which, tuple(sorted(p.items()))), True, kind=f'aperture-setter:{which}')
        rep.probe_only += 1
        # call history on ONE object, no re-assignment in between: a masked area_overlap / do_photometry call, then unmasked calls with the
        # same method - they give what a fresh object gives (seed C09-r12 cached the masks and zeroed the masked weights in place)
        try:
            aph, fresh_ = make_aperture(kind, p), make_aperture(kind, p)
            mk_ = np.zeros(img.shape, bool)
            mk_[max(0, int(p['cy']) - 1):int(p['cy']) + 2, max(0, int(p['cx']) - 1):int(p['cx']) + 2] = True
            meth = ['exact', 'center', 'subpixel'][k % 3]
            with warnings.catch_warnings():
                warnings.simplefilter('ignore')
                _ = aph.area_overlap(img, mask=mk_, method=meth)
                _ = aph.do_photometry(img, mask=mk_, method=meth)
                got_h = (float(np.atleast_1d(aph.do_photometry(np.ones(img.shape), method=meth)[0])[0]), float(np.atleast_1d(aph.area_overlap(img, method=meth))[0]),
                         float(aph.to_mask(method=meth).data.sum()))
                want_h = (float(np.atleast_1d(fresh_.do_photometry(np.ones(img.shape), method=meth)[0])[0]), float(np.atleast_1d(fresh_.area_overlap(img, method=meth))[0]),
                          float(fresh_.to_mask(method=meth).data.sum()))
            if not all((a_ == b_) or (math.isnan(a_) and math.isnan(b_)) for a_, b_ in zip(got_h, want_h)):
                rep.violation(f'aperture-call-history:{kind}', f'{kind} ({meth}): after area_overlap / do_photometry WITH a mask, the unmasked sum of ones / area_overlap / mask sum '
                              f'are {got_h}; a fresh aperture gives {want_h}', {'kind': kind, 'params': p, 'method': meth})
        except Exception as e:                                  # noqa: BLE001
            rep.violation(f'aperture-call-history-raises:{kind}', f'{kind}: repeated photometry calls raised {e!r}', {'kind': kind, 'params': p})
        # re-assign `positions` with a different number of positions (scalar <-> list), after shape / isscalar were read
        try:
            apc = make_aperture(kind, p)
            _ = (apc.isscalar, apc.shape, apc.bbox, apc.area)
            with warnings.catch_warnings():
                warnings.simplefilter('ignore')
                _ = apc.do_photometry(img, method='center')
            two = [(p['cx'], p['cy']), (p['cx'] + 2.5, p['cy'] - 1.5)]
            apc.positions = two
            shape_kw = {nm: getattr(apc, nm) for nm in apc._params if nm != 'positions'}
            ref2 = type(apc)(two, **shape_kw)
            with warnings.catch_warnings():
                warnings.simplefilter('ignore')
                a2 = (apc.isscalar, tuple(apc.shape), len(np.atleast_1d(apc.bbox)), [float(v) for v in np.atleast_1d(apc.do_photometry(img, method='center')[0])])
                b2 = (ref2.isscalar, tuple(ref2.shape), len(np.atleast_1d(ref2.bbox)), [float(v) for v in np.atleast_1d(ref2.do_photometry(img, method='center')[0])])
            apc.positions = two[1]
            ref1 = type(apc)(two[1], **shape_kw)
            with warnings.catch_warnings():
                warnings.simplefilter('ignore')
                a1 = (apc.isscalar, tuple(apc.shape), [float(v) for v in np.atleast_1d(apc.do_photometry(img, method='center')[0])])
                b1 = (ref1.isscalar, tuple(ref1.shape), [float(v) for v in np.atleast_1d(ref1.do_photometry(img, method='center')[0])])
        except Exception as e:                                  # noqa: BLE001
            rep.violation(f'aperture-setter-raises:{kind}:positions-count', f'{kind}: re-assigning positions with another count raised {e!r}', {'kind': kind, 'params': p})
            continue
        rep.count('aperture-setter:positions-count')
        eq = lambda u_, v_: u_[:-1] == v_[:-1] and len(u_[-1]) == len(v_[-1]) and all((x_ == y_) or (math.isnan(x_) and math.isnan(y_)) for x_, y_ in zip(u_[-1], v_[-1]))
        if not (eq(a2, b2) and eq(a1, b1)):
            rep.violation(f'aperture-setter-stale:{kind}:positions-count', f'{kind}: after re-assigning positions scalar -> 2 positions -> scalar the aperture reports '
                          f'{a2} / {a1}, a fresh one {b2} / {b1}', {'kind': kind, 'params': p})


def ellipse_calls(rep, r):
    from photutils.isophote import Ellipse, EllipseGeometry
    yy, xx = np.mgrid[0:81, 0:81]
    x0, y0, eps, pa = 41.5, 39.0, 0.3, 0.6
    c, s = math.cos(pa), math.sin(pa)
    xr = (xx - x0) * c + (yy - y0) * s
    yr = -(xx - x0) * s + (yy - y0) * c
    img = 1000 * np.exp(-np.sqrt(xr ** 2 + (yr / (1 - eps)) ** 2) / 8.0)

    def mk():
        return Ellipse(img, EllipseGeometry(40.0, 40.0, 10.0, 0.2, 0.4))

    def run(e, **kw):
        with warnings.catch_warnings():
            warnings.simplefilter('ignore')
            return e.fit_image(maxsma=25, **kw)
    for first, tag in [(dict(fix_center=True), 'fix-flags'), (dict(linear=True, step=2.0), 'linear-growth'), ({}, 'plain'),
                       (dict(sma0=16.0), 'sma0'), (dict(minsma=3.0, step=0.2), 'minsma-step'), (dict(integrmode='median'), 'integrmode')]:
        e = mk()
        run(e, **first)
        a = run(e)
        b = run(mk())
        same = len(a) == len(b) and np.allclose(a.x0, b.x0, rtol=1e-9) and np.allclose(a.eps, b.eps, rtol=1e-9) \
            and np.allclose(a.sma, b.sma)
        rep.case(('ellipse', tag), True, kind='Ellipse-calls')
        rep.probe_only += 1
        if not same:
            rep.violation(f'ellipse-call-dependent:{tag}',
                          f'Ellipse.fit_image() after fit_image({first}) on the same object differs from a fresh object', {'first': str(first)})


def gridded_history(rep, r, n):
    from astropy.nddata import NDData
    from photutils.psf import GriddedPSFModel
    yy, xx = np.mgrid[0:9, 0:9]

    def grid(gxs, gys):
        psfs, pos = [], []
        for gy in gys:
            for gx in gxs:
                sig = 1.2 + 0.01 * gx + 0.02 * gy
                d = np.exp(-((xx - 4) ** 2 + (yy - 4) ** 2) / (2 * sig ** 2))
                psfs.append(d / d.sum())
                pos.append((gx, gy))
        return NDData(np.array(psfs), meta={'grid_xypos': pos, 'oversampling': 1})
    # 3x3, 4x4 and 5x4 grids with unequal, non-uniform spacings along the two axes
    grids = [((0, 25, 50), (0, 20, 40)), ((0, 10, 20, 30), (0, 10, 20, 30)), ((0, 8, 30, 36, 60), (5, 20, 24, 50))]

    def ev(m, x0, y0):
        m = m.copy() if False else m
        m.x_0, m.y_0, m.flux = x0, y0, 3.0
        y, x = np.mgrid[int(y0) - 3:int(y0) + 4, int(x0) - 3:int(x0) + 4]
        return m.evaluate(x, y, 3.0, x0, y0)
    for k in range(n):
        gxs, gys = grids[k % len(grids)]
        nd = grid(gxs, gys)
        pts = [(r.uniform(min(gxs) - 5, max(gxs) + 5), r.uniform(min(gys) - 5, max(gys) + 5)) for _ in range(6)]
        if k % 2:
            # neighbouring cells, both orders
            cx, cy = r.choice(gxs[:-1]), r.choice(gys[:-1])
            pts += [(cx + 3.5, cy + 2.5), (cx + 3.5 + (gxs[1] - gxs[0]), cy + 2.5), (cx + 3.5, cy + 2.5 + (gys[1] - gys[0]))]
        m = GriddedPSFModel(nd)
        for (x0, y0) in pts + pts[::-1]:
            a = ev(m, x0, y0)
            b = ev(GriddedPSFModel(nd), x0, y0)
            if not same_val(a, b):
                rep.violation('gridded-history-dependent', 'GriddedPSFModel evaluation depends on earlier evaluations',
                              {'points': pts})
                break
        rep.case(('gridded', tuple(pts)), True, kind='GriddedPSFModel-history')
        rep.probe_only += 1


CROSS_SCRIPT = r"""
import json, sys, warnings
import numpy as np
warnings.simplefilter('ignore')
from photutils.aperture import (CircularAperture, CircularAnnulus, EllipticalAperture, EllipticalAnnulus, RectangularAperture,
                                RectangularAnnulus, SkyCircularAperture)
import astropy.units as u
from astropy.coordinates import SkyCoord
MAKE = {'circ': lambda: (CircularAperture((10.3, 9.6), 3.0), 'r', 5.5),
        'circann': lambda: (CircularAnnulus((10.3, 9.6), 2.0, 4.0), 'r_out', 6.0),
        'ell': lambda: (EllipticalAperture((10.3, 9.6), 4.0, 2.0, theta=0.3), 'a', 6.5),
        'ellann': lambda: (EllipticalAnnulus((10.3, 9.6), 2.0, 4.0, 3.0, theta=0.3), 'a_out', 6.0),
        'rect': lambda: (RectangularAperture((10.3, 9.6), 4.0, 2.0, theta=0.3), 'w', 7.0),
        'rectann': lambda: (RectangularAnnulus((10.3, 9.6), 2.0, 5.0, 3.0, theta=0.3), 'w_out', 7.5),
        'sky': lambda: (SkyCircularAperture(SkyCoord(10 * u.deg, 20 * u.deg), 2 * u.arcsec), 'r', 3 * u.arcsec)}
img = np.ones((24, 24))
def report(ap):
    if not hasattr(ap, 'to_mask'):
        return [repr(ap.r)]
    return [float(ap.area), repr(ap.bbox), float(ap.do_photometry(img)[0][0]), float(ap.to_mask('center').data.sum())]
first, second = sys.argv[1], sys.argv[2]
a, attr, val = MAKE[first]()
report(a); setattr(a, attr, val); report(a)              # the first post-construction assignment of this process is on `first`
b, attr2, val2 = MAKE[second]()
before = report(b)
setattr(b, attr2, val2)
after = report(b)
c, _, _ = MAKE[second]()
setattr(c, attr2, val2)
fresh = report(c)
d, _, _ = MAKE[second]()
print(json.dumps({'after': after, 'fresh': fresh, 'untouched_equal': report(d) == before}))
"""


def cross_object_history(rep, r, thorough):
    """what an aperture reports after an attribute re-assignment does not depend on which OTHER aperture objects / classes were used before in
    the same process.  Each ordered pair (first class touched, class under test) runs in a fresh interpreter."""
    import subprocess
    import sys
    kinds = ['circ', 'circann', 'ell', 'ellann', 'rect', 'rectann', 'sky']
    under_test = [k_ for k_ in kinds if k_ != 'sky']
    if thorough:
        pairs = [(a, b) for a in kinds for b in under_test if a != b]
    else:
        off = r.randrange(len(kinds))
        firsts = [kinds[(off + i) % len(kinds)] for i in range(3)]
        pairs = [(firsts[0], 'circ' if firsts[0] != 'circ' else 'circann'), (firsts[1], 'circann' if firsts[1] != 'circann' else 'ell'),
                 (firsts[2], 'ell' if firsts[2] != 'ell' else 'circ'), ('ell', 'circ'), ('sky', 'circann')]
    for first, second in pairs:
        p = subprocess.run([sys.executable, '-c', CROSS_SCRIPT, first, second], capture_output=True, text=True, timeout=300)
        rep.case(('cross', first, second), True, kind=f'cross-object-history:{first}->{second}')
        rep.probe_only += 1
        rp = {'first_class_touched': first, 'class_under_test': second, 'script': 'tools/props/c09.py:CROSS_SCRIPT'}
        if p.returncode != 0:
            rep.violation(f'cross-object-history:raises:{second}', f'after a first attribute assignment on a {first} aperture, re-assigning an attribute of a '
                          f'{second} aperture raised: {p.stderr.strip().splitlines()[-1][:200] if p.stderr.strip() else p.returncode}', rp)
            continue
        res = json.loads(p.stdout.strip().splitlines()[-1])
        if res['after'] != res['fresh'] or not res['untouched_equal']:
            rep.violation(f'cross-object-history:{second}', f'in a process whose first attribute assignment was on a {first} aperture, a {second} aperture reports '
                          f'{res["after"]} after re-assigning an attribute, a fresh object with that value reports {res["fresh"]}', rp)


def run(rep, tier):
    thorough = tier == 'thorough'
    rep.rule = ('(a) Background2D: all ordered pairs and triples of the 8 public lazily evaluated attributes + random longer orders, '
                'x {filter_threshold None, below, just above the minimum, between the brightest and the typical box} x {Zoom, IDW} x filter_size {(3,3),(1,1)}, each value compared with a fresh object; '
                '(b) random histories of normalize(max|sum)/unnormalize/first reads on RadialProfile and CurveOfGrowth vs the Lean scale model; '
                '(c) call sequences on PSFPhotometry (with/without group_id), IterativePSFPhotometry, the star finders, Ellipse; '
                'aperture attribute re-assignment; GriddedPSFModel evaluation orders - each vs a fresh object. '
                'Non-trivial = history of length >= 2.')
    rep.assumptions += ['numeric content of the attributes is not modelled (only resource lifetime / scale / configuration)',
                        'call-independence theorem covers attribute writes of PSFPhotometry/IterativePSFPhotometry only; '
                        'star finders, Ellipse, apertures and GriddedPSFModel are probed on the implementation']
    rep.lean = prove(PROP_MODULES)
    scale = 8 if thorough else 1
    if not rep.lean.ok:
        scale *= 2
    r = rng('C09')
    drv = Driver()
    bkg_stream(rep, drv, r, 6 * scale, exhaustive_pairs=True)
    profile_stream(rep, drv, r, 60 * scale)
    call_objects(rep, r, 4 * scale)
    aperture_setters(rep, r, 40 * scale)
    cross_object_history(rep, r, thorough)
    gridded_history(rep, r, 24 * scale)
    ellipse_calls(rep, r)
    # model / residual images of (Iterative)PSFPhotometry in either call order vs fresh objects (shared with C18)
    from props import c18
    c18.iterative_images(rep, r, 3 * scale)
    # encircled-energy interpolators before / after normalisation changes on one object (shared with C19)
    from props import c19
    c19.ee_stream(rep, drv, r, 8 * scale)


def replay(rep, data):
    run(rep, 'quick')
