"""C15 — results do not depend on how the same numbers are represented (DESIGN §5 C15)."""
import math
import warnings
from fractions import Fraction as F

import numpy as np

import gens
from common import Driver, prove, q, rng

PROP_MODULES = ['PhotVerif.Props.C15']


# ---------------------------------------------------------------- representations

def rep_f64(a):
    return np.ascontiguousarray(a, dtype=np.float64)


def rep_int(dt):
    def f(a):
        return np.ascontiguousarray(np.asarray(a).astype(dt))
    return f


def rep_f32(a):
    return np.ascontiguousarray(a, dtype=np.float32)


def rep_big(a):
    return np.ascontiguousarray(a, dtype=np.float64).astype('>f8')


def rep_fortran(a):
    return np.asfortranarray(np.asarray(a, dtype=np.float64))


def rep_strided(a):
    a = np.asarray(a, dtype=np.float64)
    big = np.full((a.shape[0] * 2 + 3, a.shape[1] * 3 + 2), -999.0)
    big[1:1 + 2 * a.shape[0]:2, 2:2 + 3 * a.shape[1]:3] = a
    v = big[1:1 + 2 * a.shape[0]:2, 2:2 + 3 * a.shape[1]:3]
    assert v.shape == a.shape and not v.flags['C_CONTIGUOUS']
    return v


def rep_masked(a):
    return np.ma.MaskedArray(np.asarray(a, dtype=np.float64), mask=np.zeros(np.shape(a), bool))


def rep_masked_nomask(a):
    return np.ma.MaskedArray(np.asarray(a, dtype=np.float64))


REPS = {'int64': (rep_int(np.int64), 'int'), 'int32': (rep_int(np.int32), 'int'), 'uint16': (rep_int(np.uint16), 'int'),
        'float32': (rep_f32, 'f32'), 'big-endian': (rep_big, 'exact'), 'fortran': (rep_fortran, 'exact'), 'strided': (rep_strided, 'exact'),
        'masked-empty': (rep_masked, 'exact'), 'masked-nomask': (rep_masked_nomask, 'exact')}


def num(x):
    v = getattr(x, 'value', x)
    if isinstance(v, np.ma.MaskedArray):
        v = v.filled(np.nan)
    try:
        return np.asarray(v, dtype=float)
    except (TypeError, ValueError):
        return None


def unit_of(x):
    return getattr(x, 'unit', None)


def close(a, b, tol):
    if a is None or b is None:
        return a is None and b is None
    if a.shape != b.shape:
        return False
    if a.size == 0:
        return True
    fin = np.isfinite(a)
    sc = max(1.0, float(np.max(np.abs(a[fin]))) if fin.any() else 1.0)
    with np.errstate(invalid='ignore'):
        return bool(np.all(np.isclose(a, b, rtol=tol, atol=tol * sc, equal_nan=True)))


# ---------------------------------------------------------------- scenes

def make_scene(r, integral):
    ny, nx = r.randint(36, 48), r.randint(36, 48)
    img, pos = gens.gaussian_scene(r, ny, nx, nsrc=r.randint(2, 3), noise=0.0, pad=10)
    rs = np.random.RandomState(r.randrange(2 ** 31))
    img = img + 10.0 + rs.normal(0, 1.0, img.shape)
    if integral:
        img = np.round(img)                       # integer-valued, non-negative (fits uint16)
        img = np.clip(img, 0, 60000)
    else:
        img = np.float64(np.float32(img))         # exactly representable in float32
    err = np.float64(np.float32(np.sqrt(np.abs(img)) * 0.25 + 0.5))
    if integral:
        # integer-valued errors too (so that integer error arrays are a valid representation); some scenes have errors whose squares
        # exceed the range of a 16-bit integer
        err = np.round(err) * r.choice([1, 30, 300])
    mask = np.zeros((ny, nx), bool)
    mask[r.randrange(ny), r.randrange(nx)] = True
    return dict(data=img, error=err, mask=mask, pos=pos, ny=ny, nx=nx, subpixels=r.choice([2, 3, 7, 12]))


# ---------------------------------------------------------------- API table
# every runner: f(sc, D, E) -> dict name -> value ; D = data in some representation, E = error (same container kind for units)
# 'flux' outputs must carry the data unit when the inputs are Quantities; 'plain' outputs must not

def api_aperture_photometry(sc, D, E, U=None):
    from photutils.aperture import CircularAperture, EllipticalAnnulus, aperture_photometry
    aps = [CircularAperture(sc['pos'], 3.3), EllipticalAnnulus(sc['pos'], 2.1, 4.3, 3.2, theta=0.4)]
    out = {}
    for m in ('exact', 'center', 'subpixel'):
        t = aperture_photometry(D, aps, error=E, mask=sc['mask'], method=m, subpixels=sc['subpixels'])
        out[f'flux:sum0:{m}'], out[f'flux:err0:{m}'] = t['aperture_sum_0'], t['aperture_sum_err_0']
        out[f'flux:sum1:{m}'] = t['aperture_sum_1']
    return out


def api_aperture_stats(sc, D, E, U=None):
    from photutils.aperture import ApertureStats, CircularAperture
    s = ApertureStats(D, CircularAperture(sc['pos'], 4.2), error=E, mask=sc['mask'])
    out = {f'flux:{n}': getattr(s, n) for n in ('sum', 'sum_err', 'min', 'max', 'mean', 'median', 'std', 'mad_std', 'biweight_location', 'mode')}
    out.update({f'plain:{n}': getattr(s, n) for n in ('xcentroid', 'ycentroid', 'sum_aper_area', 'covar_sigx2', 'covar_sigxy', 'orientation', 'fwhm', 'gini')})
    out.update({f'flux2:{n}': getattr(s, n) for n in ('var', 'biweight_midvariance')})          # variances carry the squared unit
    return out


def api_background2d(sc, D, E, U=None):
    from photutils.background import Background2D, MedianBackground
    b = Background2D(D, (11, 9), mask=sc['mask'], filter_size=3, bkg_estimator=MedianBackground())
    return {'flux:background': b.background, 'flux:background_rms': b.background_rms, 'flux:background_median': b.background_median,
            'flux:mesh': b.background_mesh, 'plain:npix': b.npixels_mesh}


def api_detect_threshold(sc, D, E, U=None):
    from photutils.segmentation import detect_threshold
    # an integer nsigma with explicit background and error maps: the arithmetic is done on the values, not in the dtype of the error map
    # (defect F69: uint16 errors of 30000 times nsigma = 3 wrapped around)
    big_e = np.round(np.asarray(np.ma.getdata(getattr(E, 'value', E)), float) * 0 + 30000).astype(np.asarray(np.ma.getdata(getattr(E, 'value', E))).dtype)
    if U is not None:
        big_e = big_e * U
    return {'flux:threshold': detect_threshold(D, 2.5, mask=sc['mask']),
            'flux:threshold_explicit': detect_threshold(D, 3, background=D * 0, error=big_e)}


def api_detect_deblend(sc, D, E, U=None):
    from photutils.segmentation import deblend_sources, detect_sources
    thr = 14.0 if U is None else 14.0 * U
    seg = detect_sources(D, thr, 5, mask=sc['mask'])
    out = {'plain:segm': seg.data}
    deb = deblend_sources(D, seg, 5, nlevels=8, contrast=0.01, progress_bar=False)
    out['plain:deblended'] = deb.data
    return out


def api_source_catalog(sc, D, E, U=None):
    from photutils.segmentation import SourceCatalog, detect_sources
    seg = detect_sources(sc['data'], 14.0, 5)
    out = {}
    for lw in (0, 5):
        c = SourceCatalog(D, seg, error=E, mask=sc['mask'], localbkg_width=lw)
        for n in ('segment_flux', 'segment_fluxerr', 'kron_flux', 'kron_fluxerr', 'min_value', 'max_value', 'local_background'):
            out[f'flux:{n}:lw{lw}'] = getattr(c, n)
        for n in ('xcentroid', 'ycentroid', 'area', 'semimajor_sigma', 'orientation', 'eccentricity', 'kron_radius', 'fwhm', 'gini',
                  'xcentroid_win', 'ycentroid_quad', 'perimeter', 'maxval_xindex', 'ellipticity'):
            out[f'plain:{n}:lw{lw}'] = getattr(c, n)
        out[f'flux:circ_phot:lw{lw}'] = c.circular_photometry(3.0)[0]
        out[f'plain:fluxfrac:lw{lw}'] = c.fluxfrac_radius(0.5)
    # a background map in the same representation as the data (a smooth integer-valued ramp)
    ny_, nx_ = np.shape(D)
    ramp = (np.add.outer(np.arange(ny_), 2 * np.arange(nx_)) % 7).astype(float)
    raw = getattr(D, 'value', D)
    bkg = ramp.astype(np.asarray(np.ma.getdata(raw)).dtype)
    if isinstance(raw, np.ma.MaskedArray):
        bkg = np.ma.MaskedArray(bkg, mask=np.zeros(bkg.shape, bool))
    if U is not None:
        bkg = bkg * U
    cb = SourceCatalog(D, seg, error=E, mask=sc['mask'], background=bkg)
    for n in ('background_sum', 'background_mean', 'background_centroid'):
        out[f'flux:{n}'] = getattr(cb, n)
    return out


def api_local_background(sc, D, E, U=None):
    from photutils.background import LocalBackground
    xs, ys = [p[0] for p in sc['pos']], [p[1] for p in sc['pos']]
    lb = LocalBackground(4.0, 8.0)
    return {'flux:local_bkg': lb(D, xs, ys, mask=sc['mask']), 'flux:local_bkg_single': np.atleast_1d(lb(D, xs[0], ys[0]))}


def api_find_peaks(sc, D, E, U=None):
    from photutils.detection import find_peaks
    thr = 16.0 if U is None else 16.0 * U
    t = find_peaks(D, thr, box_size=5, mask=sc['mask'])
    return {'plain:x': t['x_peak'], 'plain:y': t['y_peak'], 'flux:peak': t['peak_value']}


def _finder(cls, **kw):
    def api(sc, D, E, U=None):
        thr = 8.0 if U is None else 8.0 * U
        f = cls(threshold=thr, **kw)                    # zero-sum kernels: the constant sky cancels, no subtraction needed
        t = f(D, mask=sc['mask'])
        if t is None:
            return {'plain:n': np.array(0)}
        out = {'plain:x': t['xcentroid'], 'plain:y': t['ycentroid'], 'flux:flux': t['flux']}
        out['flux:peak'] = t['peak'] if 'peak' in t.colnames else t['max_value']
        return out
    return api


def api_centroids(sc, D, E, U=None):
    from photutils.centroids import centroid_1dg, centroid_2dg, centroid_com, centroid_quadratic, centroid_sources
    x0, y0 = sc['pos'][0]
    sl = (slice(int(y0) - 6, int(y0) + 7), slice(int(x0) - 6, int(x0) + 7))
    Dc = D[sl]
    def fitted(v):
        # a Gaussian fit that ran away from the cut-out (several sources inside it: an ill-posed fit) amplifies rounding differences
        # without bound; such results are reported as "diverged" (NaN) in every representation and counted
        v = np.asarray(getattr(v, 'value', v), float)
        if not (np.all(np.isfinite(v)) and 0.5 <= v[0] <= Dc.shape[1] - 1.5 and 0.5 <= v[1] <= Dc.shape[0] - 1.5):
            return np.array([np.nan, np.nan])
        return v
    out = {'plain:com': centroid_com(Dc), 'plain:quad': centroid_quadratic(Dc), 'plain:1dg': fitted(centroid_1dg(Dc)), 'plain:2dg': fitted(centroid_2dg(Dc))}
    out['plain:sources'] = np.array(centroid_sources(D, [round(x0)], [round(y0)], box_size=7))
    out['plain:1dg-err'] = fitted(centroid_1dg(Dc, error=E[sl]))
    return out


def api_profiles(sc, D, E, U=None):
    from photutils.profiles import CurveOfGrowth, RadialProfile
    x0, y0 = sc['pos'][0]
    rp = RadialProfile(D, (x0, y0), np.arange(0, 9), error=E, mask=sc['mask'])
    cg = CurveOfGrowth(D, (x0, y0), np.arange(1, 9), error=E, mask=sc['mask'])
    def fin(v):
        # data_profile lists the raw pixels, masked ones included: what a masked non-finite pixel reads as (inf / NaN) is not compared
        vv = np.ma.getdata(v)
        return np.where(np.isfinite(getattr(vv, 'value', vv)), vv, np.nan)
    out = {'flux:profile': rp.profile, 'flux:profile_error': rp.profile_error, 'plain:area': rp.area, 'plain:gaussian_fwhm': rp.gaussian_fwhm,
           'flux:cog': cg.profile, 'flux:cog_error': cg.profile_error, 'flux:data_profile': fin(rp.data_profile)}
    # normalised arrays are ratios; unnormalize gives the unit back (F63: data_profile had no unit, then 1/unit, then a dimensionless Quantity)
    rn = RadialProfile(D, (x0, y0), np.arange(0, 9), error=E, mask=sc['mask'])
    _ = rn.data_profile
    rn.normalize()
    out.update({'ratio:profile_normalized': rn.profile, 'ratio:data_profile_normalized': fin(rn.data_profile)})
    rn.unnormalize()
    out.update({'flux:profile_restored': rn.profile, 'flux:data_profile_restored': fin(rn.data_profile)})
    return out


def api_total_error(sc, D, E, U=None):
    import astropy.units as u
    from photutils.utils import calc_total_error
    gain = 2.0 if U is None else 2.0 * (u.electron / U)
    return {'flux:total_error': calc_total_error(D, E, gain)}


def api_psf_photometry(sc, D, E, U=None):
    from astropy.table import Table
    from photutils.psf import CircularGaussianPRF, PSFPhotometry
    from photutils.background import LocalBackground
    ph = PSFPhotometry(CircularGaussianPRF(fwhm=3.0), (7, 7), aperture_radius=4, progress_bar=False, localbkg_estimator=LocalBackground(6, 10))
    t = ph(D, error=E, mask=sc['mask'], init_params=Table({'x': [p[0] for p in sc['pos']], 'y': [p[1] for p in sc['pos']]}))
    return {'plain:x_fit': t['x_fit'], 'plain:y_fit': t['y_fit'], 'flux:flux_fit': t['flux_fit'], 'flux:flux_err': t['flux_err'],
            'flux:local_bkg': t['local_bkg'], 'flux:residual': ph.make_residual_image(D, psf_shape=(7, 7))}


def api_data_properties(sc, D, E, U=None):
    from photutils.morphology import data_properties
    x0, y0 = sc['pos'][0]
    sl = (slice(int(y0) - 6, int(y0) + 7), slice(int(x0) - 6, int(x0) + 7))
    c = data_properties(D[sl], mask=sc['mask'][sl])
    return {'plain:xcentroid': c.xcentroid, 'plain:semimajor_sigma': c.semimajor_sigma, 'flux:segment_flux': c.segment_flux, 'plain:orientation': c.orientation}


def api_bkg_estimators(sc, D, E, U=None):
    from astropy.stats import SigmaClip
    import photutils.background as pb
    out = {}
    for cls in (pb.MeanBackground, pb.MedianBackground, pb.ModeEstimatorBackground, pb.MMMBackground, pb.SExtractorBackground,
                pb.BiweightLocationBackground, pb.StdBackgroundRMS, pb.MADStdBackgroundRMS, pb.BiweightScaleBackgroundRMS):
        out[f'flux:{cls.__name__}'] = cls(sigma_clip=SigmaClip(sigma=3.0))(D)
        out[f'flux:{cls.__name__}:axis'] = cls(sigma_clip=None)(D, axis=1)
        # without clipping; integer arrays are handed over as MaskedArrays with an empty mask (defect F70: filled(nan) on an integer array)
        Dm = np.ma.MaskedArray(D, mask=np.zeros(D.shape, bool)) if (type(D) is np.ndarray and D.dtype.kind in 'iu') else D
        out[f'flux:{cls.__name__}:noclip'] = cls(sigma_clip=None)(Dm)
    return out


def api_large_statistics(sc, D, E, U=None):
    """reductions over a large image with a pedestal (a whole frame, big Background2D boxes): float32 inputs must not lose accuracy.
    The scene's own data are tiled to 360 x 432 pixels in the representation under test."""
    from astropy.stats import SigmaClip
    import photutils.background as pb
    from photutils.segmentation import detect_threshold
    raw = getattr(D, 'value', D)
    big = np.tile(np.asarray(np.ma.getdata(raw))[:36, :36], (10, 12)) + np.asarray(1000, dtype=np.asarray(raw).dtype)
    if isinstance(raw, np.ma.MaskedArray):
        big = np.ma.MaskedArray(big, mask=np.zeros(big.shape, bool))
    if U is not None:
        big = big * U
    out = {}
    for cls in (pb.MeanBackground, pb.MedianBackground, pb.SExtractorBackground, pb.StdBackgroundRMS):
        out[f'flux:{cls.__name__}'] = cls(sigma_clip=None)(big)
        out[f'flux:{cls.__name__}:clip'] = cls(sigma_clip=SigmaClip(3.0))(big)
    out['flux:threshold'] = detect_threshold(big, 3.0)
    b = pb.Background2D(big, (180, 216), filter_size=1, bkg_estimator=pb.MeanBackground())
    out['flux:bkg2d_median'] = b.background_median
    out['flux:bkg2d_rms_median'] = b.background_rms_median
    return out


def api_mask_ops(sc, D, E, U=None):
    from photutils.aperture import CircularAperture
    m = CircularAperture(sc['pos'][0], 3.6).to_mask(method='exact')
    return {'flux:multiply': m.multiply(D), 'flux:cutout': m.cutout(D), 'flux:get_values': m.get_values(D, mask=sc['mask'])}


def api_convolve(sc, D, E, U=None):
    from photutils.segmentation import make_2dgaussian_kernel
    from photutils.utils._convolution import _filter_data
    return {'flux:convolved': _filter_data(D, make_2dgaussian_kernel(2.0, size=5), mode='constant')}


def apis():
    from photutils.detection import DAOStarFinder, IRAFStarFinder, StarFinder
    yy, xx = np.mgrid[-3:4, -3:4]
    kern = np.exp(-(xx ** 2 + yy ** 2) / (2 * 1.3 ** 2))
    kern = kern - kern.mean()
    return [('aperture_photometry', api_aperture_photometry, True), ('ApertureStats', api_aperture_stats, True),
            ('Background2D', api_background2d, True), ('detect_threshold', api_detect_threshold, True),
            ('detect/deblend', api_detect_deblend, False), ('SourceCatalog', api_source_catalog, False),
            ('find_peaks', api_find_peaks, False), ('DAOStarFinder', _finder(DAOStarFinder, fwhm=3.0), False),
            ('IRAFStarFinder', _finder(IRAFStarFinder, fwhm=3.0), False), ('StarFinder', _finder(StarFinder, kernel=kern), False),
            ('centroids', api_centroids, False), ('profiles', api_profiles, False), ('calc_total_error', api_total_error, False),
            ('PSFPhotometry', api_psf_photometry, True), ('data_properties', api_data_properties, False),
            ('background estimators', api_bkg_estimators, False), ('LocalBackground', api_local_background, False), ('ApertureMask', api_mask_ops, False), ('_filter_data', api_convolve, False),
            ('large-frame statistics', api_large_statistics, False)]


TOL = {'exact': 1e-10, 'int': 1e-10, 'f32': 3e-4}
TOL_F32 = {'large-frame statistics': 2e-5}         # sums of 1.5e5 float32 values: a float64 accumulator is required


def call(fn, sc, D, E, U=None):
    with warnings.catch_warnings():
        warnings.simplefilter('ignore')
        return fn(sc, D, E, U)


def sweep(rep, r, nscenes):
    import astropy.units as u
    from astropy.nddata import NDData, StdDevUncertainty
    for k in range(nscenes):
        integral = (k % 2 == 0)
        sc = make_scene(r, integral)
        if k % 4 == 3:                                  # non-finite pixels: every clean-up branch runs (float representations only)
            sc['data'][r.randrange(sc['ny']), r.randrange(sc['nx'])] = np.nan
            y0, x0 = int(sc['pos'][0][1]), int(sc['pos'][0][0])
            sc['data'][y0 + 2, x0 - 1] = np.inf
        for name, fn, nddata_ok in apis():
            rp = {'api': name, 'data': sc['data'].tolist(), 'error': sc['error'].tolist(), 'mask': sc['mask'].astype(int).tolist(),
                  'positions': [list(p) for p in sc['pos']]}
            try:
                base = call(fn, sc, rep_f64(sc['data']), rep_f64(sc['error']))
            except Exception as e:                              # noqa: BLE001
                rep.count(f'baseline-raises:{name}:{type(e).__name__}')
                continue
            base = {kk: num(v) for kk, v in base.items()}
            for rname, (conv, tolk) in REPS.items():
                if tolk == 'int' and not integral:
                    continue
                if name in ('Background2D', 'large-frame statistics') and tolk == 'int':
                    continue                                    # documented integer-output rounding
                rep.case((name, rname, sc['data'].tobytes()), True, kind=f'{name}:{rname}')
                rep.probe_only += 1
                try:
                    # the error array takes the same representation (integral scenes have integer-valued errors)
                    got = call(fn, sc, conv(sc['data']), conv(sc['error']))
                except Exception as e:                          # noqa: BLE001
                    rep.violation(f'representation-raises:{name}:{rname}:{type(e).__name__}',
                                  f'{name} succeeds for float64 data but raises {type(e).__name__}: {str(e)[:160]} for the {rname} representation',
                                  dict(rp, representation=rname))
                    continue
                for kk, bv in base.items():
                    gv = num(got.get(kk))
                    if not close(bv, gv, TOL_F32.get(name, TOL[tolk]) if tolk == 'f32' else TOL[tolk]):
                        where = ''
                        if bv is not None and gv is not None and bv.shape == gv.shape == sc['data'].shape:
                            with np.errstate(invalid='ignore'):
                                diff = ~np.isclose(bv, gv, rtol=TOL[tolk], atol=TOL[tolk], equal_nan=True)
                            if diff.any() and not (diff & np.isfinite(sc['data'])).any():
                                where = ':only-at-nonfinite-input-pixels'
                        rep.violation(f'representation-differs:{name}:{rname}:{kk.split(":")[1]}{where}',
                                      f'{name} [{kk}] differs between float64 and {rname} inputs holding the same values', dict(rp, representation=rname))
                        break
            # NDData container
            if nddata_ok:
                rep.case((name, 'nddata', sc['data'].tobytes()), True, kind=f'{name}:nddata')
                rep.probe_only += 1
                try:
                    nd = NDData(rep_f64(sc['data']), uncertainty=StdDevUncertainty(rep_f64(sc['error'])), mask=sc['mask'])
                    got = call(nd_variant(name), sc, nd, None)
                    for kk, bv in base.items():
                        if kk in got and not close(bv, num(got[kk]), 1e-10):
                            rep.violation(f'representation-differs:{name}:nddata:{kk.split(":")[1]}', f'{name} [{kk}] differs for an NDData input',
                                          dict(rp, representation='nddata'))
                            break
                except Exception as e:                          # noqa: BLE001
                    rep.violation(f'representation-raises:{name}:nddata:{type(e).__name__}', f'{name} raises {e!r} for an NDData input',
                                  dict(rp, representation='nddata'))
                if name == 'PSFPhotometry' and integral and np.isfinite(sc['data']).all():
                    # an NDData whose data array is an integer array (the residual image must not be truncated to integers)
                    rep.case((name, 'nddata-int', sc['data'].tobytes()), True, kind=f'{name}:nddata-int64')
                    rep.probe_only += 1
                    try:
                        got = call(nd_variant(name), sc, NDData(sc['data'].astype(np.int64), uncertainty=StdDevUncertainty(rep_f64(sc['error'])), mask=sc['mask']), None)
                        for kk, bv in base.items():
                            if kk in got and not close(bv, num(got[kk]), 1e-10):
                                rep.violation(f'representation-differs:{name}:nddata-int64:{kk.split(":")[1]}', f'{name} [{kk}] differs for an NDData holding an integer array',
                                              dict(rp, representation='nddata-int64'))
                                break
                    except Exception as e:                      # noqa: BLE001
                        rep.violation(f'representation-raises:{name}:nddata-int64:{type(e).__name__}', f'{name} raises {e!r} for an NDData holding an integer array',
                                      dict(rp, representation='nddata-int64'))
                if name == 'PSFPhotometry':
                    # the same errors stored as variances / inverse variances (PSFPhotometry converts every NDUncertainty kind)
                    from astropy.nddata import InverseVariance, VarianceUncertainty
                    for uname, unc in (('variance', VarianceUncertainty(rep_f64(sc['error']) ** 2)), ('inverse-variance', InverseVariance(1.0 / rep_f64(sc['error']) ** 2))):
                        rep.case((name, 'nddata-' + uname, sc['data'].tobytes()), True, kind=f'{name}:nddata-{uname}')
                        rep.probe_only += 1
                        try:
                            got = call(nd_variant(name), sc, NDData(rep_f64(sc['data']), uncertainty=unc, mask=sc['mask']), None)
                            for kk, bv in base.items():
                                if kk in got and not close(bv, num(got[kk]), 1e-8):
                                    rep.violation(f'representation-differs:{name}:nddata-{uname}:{kk.split(":")[1]}',
                                                  f'{name} [{kk}] differs when the NDData uncertainty is given as {uname}', dict(rp, representation='nddata-' + uname))
                                    break
                        except Exception as e:                  # noqa: BLE001
                            rep.violation(f'representation-raises:{name}:nddata-{uname}:{type(e).__name__}', f'{name} raises {e!r} for NDData with a {uname} uncertainty',
                                          dict(rp, representation='nddata-' + uname))
            # Quantities: same numbers, flux-like outputs carry the unit; mixing is rejected
            rep.case((name, 'quantity', sc['data'].tobytes()), True, kind=f'{name}:quantity')
            rep.probe_only += 1
            U = u.Jy
            try:
                got = call(fn, sc, rep_f64(sc['data']) * U, rep_f64(sc['error']) * U, U)
            except Exception as e:                              # noqa: BLE001
                rep.violation(f'representation-raises:{name}:quantity:{type(e).__name__}',
                              f'{name} raises {type(e).__name__}: {str(e)[:160]} for Quantity inputs', dict(rp, representation='quantity'))
                got = None
            if got is not None:
                for kk, bv in base.items():
                    kind, nm = kk.split(':')[0], kk.split(':')[1]
                    gv = got.get(kk)
                    if not close(bv, num(gv), 1e-10):
                        rep.violation(f'representation-differs:{name}:quantity:{nm}', f'{name} [{kk}] differs for Quantity inputs',
                                      dict(rp, representation='quantity'))
                        break
                    if kind == 'flux' and unit_of(gv) != U:
                        rep.violation(f'unit-missing:{name}:{nm}', f'{name} [{kk}]: inputs in Jy but the output has unit {unit_of(gv)!r}',
                                      dict(rp, representation='quantity'))
                        break
                    if kind == 'flux2' and unit_of(gv) != U ** 2:
                        rep.violation(f'unit-missing:{name}:{nm}', f'{name} [{kk}]: inputs in Jy but the variance-like output has unit {unit_of(gv)!r}',
                                      dict(rp, representation='quantity'))
                        break
                    if kind == 'ratio' and unit_of(gv) is not None and unit_of(gv) != u.dimensionless_unscaled:
                        rep.violation(f'unit-spurious:{name}:{nm}', f'{name} [{kk}]: a normalised (ratio) output has unit {unit_of(gv)!r}',
                                      dict(rp, representation='quantity'))
                        break
                    if kind == 'plain' and unit_of(gv) is not None and unit_of(gv).is_equivalent(U):
                        rep.violation(f'unit-spurious:{name}:{nm}', f'{name} [{kk}]: a position/shape output carries the flux unit', dict(rp, representation='quantity'))
                        break
            if name in ('aperture_photometry', 'ApertureStats', 'SourceCatalog', 'profiles', 'PSFPhotometry', 'centroids'):
                try:
                    call(fn, sc, rep_f64(sc['data']) * U, rep_f64(sc['error']), None)
                    rep.violation(f'mixed-units-accepted:{name}', f'{name} accepts unit-ful data together with a unit-less error', dict(rp, representation='mixed'))
                except Exception:                               # noqa: BLE001
                    rep.count(f'mixed-rejected:{name}')


def mixed_argument_probe(rep, r):
    """every image-like argument takes part in the unit check: a Quantity image together with a unit-less companion (error, background,
    convolved data ...) - or the other way round - is rejected, argument by argument (seed C15-r10 exempted convolved_data)"""
    import astropy.units as u
    from photutils.aperture import ApertureStats, CircularAperture, aperture_photometry
    from photutils.profiles import RadialProfile
    from photutils.segmentation import SourceCatalog, detect_sources, detect_threshold
    from photutils.utils import calc_total_error
    sc = make_scene(r, False)
    d, e = sc['data'], sc['error']
    seg = detect_sources(d, 14.0, 5)
    ap = CircularAperture(sc['pos'], 3.0)
    entries = [('SourceCatalog', 'error', lambda D, A: SourceCatalog(D, seg, error=A).segment_fluxerr),
               ('SourceCatalog', 'background', lambda D, A: SourceCatalog(D, seg, background=A).background_sum),
               ('SourceCatalog', 'convolved_data', lambda D, A: SourceCatalog(D, seg, convolved_data=A).xcentroid),
               ('detect_threshold', 'background', lambda D, A: detect_threshold(D, 2.0, background=A)),
               ('detect_threshold', 'error', lambda D, A: detect_threshold(D, 2.0, error=A)),
               ('aperture_photometry', 'error', lambda D, A: aperture_photometry(D, ap, error=A)),
               ('ApertureStats', 'error', lambda D, A: ApertureStats(D, ap, error=A).sum_err),
               ('RadialProfile', 'error', lambda D, A: RadialProfile(D, sc['pos'][0], np.arange(0, 6), error=A).profile_error),
               ('calc_total_error', 'bkg_error', lambda D, A: calc_total_error(D, A, 2.0 * (u.electron / u.Jy) if hasattr(D, 'unit') and hasattr(A, 'unit') else 2.0))]
    for name, arg, fn in entries:
        if seg is None and name == 'SourceCatalog':
            continue
        for which, D, A in (('quantity-image+plain-' + arg, d * u.Jy, e), ('plain-image+quantity-' + arg, d, e * u.Jy)):
            rep.case(('mixed-arg', name, arg, which), True, kind=f'mixed-argument:{name}:{arg}')
            rep.probe_only += 1
            try:
                with warnings.catch_warnings():
                    warnings.simplefilter('ignore')
                    fn(D, A)
            except Exception:                                   # noqa: BLE001
                rep.count(f'mixed-rejected:{name}:{arg}')
                continue
            rep.violation(f'mixed-units-accepted:{name}:{arg}', f'{name} accepts {which.replace("+", " together with a ").replace("-", " ")} (no error raised)',
                          {'api': name, 'argument': arg, 'case': which})
        try:                                                    # the consistent call works
            with warnings.catch_warnings():
                warnings.simplefilter('ignore')
                fn(d * u.Jy, e * u.Jy)
        except Exception as ex:                                 # noqa: BLE001
            rep.violation(f'representation-raises:{name}:quantity-{arg}:{type(ex).__name__}', f'{name} with Quantity image and Quantity {arg} raises {ex!r}', {'api': name, 'argument': arg})


def extreme_scale_float32(rep, r, n):
    """float32 images in calibrated flux units (scales 2^-75 ~ 3e-23, 2^-72, 2^62): the error propagation must not square float32 values in
    float32 (squares under/overflow); float32 inputs agree with float64 inputs to float32 precision at every scale"""
    for _ in range(n):
        sc = make_scene(r, False)
        k_ = r.choice([2.0 ** -75, 2.0 ** -72, 2.0 ** 62])
        scs = dict(sc, data=sc['data'] * k_, error=sc['error'] * k_)
        for name, fn in (('aperture_photometry', api_aperture_photometry), ('ApertureStats', api_aperture_stats), ('profiles', api_profiles)):
            rp = {'api': name, 'scale': k_, 'data': scs['data'].tolist(), 'error': scs['error'].tolist(), 'mask': sc['mask'].astype(int).tolist(),
                  'positions': [list(p) for p in sc['pos']]}
            try:
                base = {kk: num(v) for kk, v in call(fn, scs, rep_f64(scs['data']), rep_f64(scs['error'])).items()}
                got = {kk: num(v) for kk, v in call(fn, scs, rep_f32(scs['data']), rep_f32(scs['error'])).items()}
            except Exception as e:                              # noqa: BLE001
                rep.violation(f'representation-raises:{name}:float32-extreme-scale:{type(e).__name__}', f'{name} raises {e!r} at scale {k_:g}', rp)
                continue
            rep.case((name, 'f32-extreme', scs['data'].tobytes()), True, kind=f'{name}:float32-extreme-scale')
            rep.probe_only += 1
            for kk, bv in base.items():
                if kk.startswith('plain:') and kk.split(':')[1] in ('gini', 'gaussian_fwhm'):
                    continue
                gv = got.get(kk)
                if bv is None or gv is None:
                    continue
                fin = np.isfinite(bv)
                scl = float(np.max(np.abs(bv[fin]))) if fin.any() else 1.0
                with np.errstate(invalid='ignore'):
                    okk = bv.shape == gv.shape and bool(np.all(np.isclose(bv, gv, rtol=1e-3, atol=1e-3 * scl, equal_nan=True)))
                if not okk:
                    rep.violation(f'representation-differs:{name}:float32-extreme-scale:{kk.split(":")[1]}',
                                  f'{name} [{kk}] differs between float64 and float32 inputs at flux scale {k_:g}', rp)
                    break


def psf_init_units(rep, r, n):
    """PSFPhotometry with Quantity data and init_params columns (flux, local_bkg) given in the data unit, in an equivalent unit with the
    numbers converted, and without any units on plain data: the fitted values describe the same physical quantities"""
    import astropy.units as u
    from astropy.table import QTable, Table
    from photutils.psf import CircularGaussianPRF, PSFPhotometry
    for k in range(n):
        sc = make_scene(r, False)
        xs, ys = [p[0] for p in sc['pos']], [p[1] for p in sc['pos']]
        fl = [float(r.choice([300.0, 650.0, 1200.0])) for _ in xs]
        lb = [float(r.choice([9.0, 10.0, 11.5])) for _ in xs]
        base_u, other, fac = [(u.Jy, u.mJy, 1000.0), (u.electron / u.s, u.electron / u.h, 3600.0), (u.nJy, u.uJy, 1e-3)][k % 3]
        model = CircularGaussianPRF(fwhm=3.0)
        if k % 2 == 1:
            model.flux.fixed = True                              # forced photometry: the initial flux IS the result
        ph = PSFPhotometry(model, (7, 7), aperture_radius=4, progress_bar=False)
        rp = {'api': 'PSFPhotometry.init_params-units', 'data': sc['data'].tolist(), 'error': sc['error'].tolist(), 'x': xs, 'y': ys, 'flux': fl,
              'local_bkg': lb, 'data_unit': str(base_u), 'column_unit': str(other), 'flux_fixed': bool(k % 2)}
        res = {}
        try:
            with warnings.catch_warnings():
                warnings.simplefilter('ignore')
                res['plain'] = ph(sc['data'], error=sc['error'], init_params=Table({'x': xs, 'y': ys, 'flux': fl, 'local_bkg': lb}))
                res['same'] = ph(sc['data'] * base_u, error=sc['error'] * base_u,
                                 init_params=QTable({'x': xs, 'y': ys, 'flux': fl * base_u, 'local_bkg': lb * base_u}))
                res['equiv'] = ph(sc['data'] * base_u, error=sc['error'] * base_u,
                                  init_params=QTable({'x': xs, 'y': ys, 'flux': (np.array(fl) * fac) * other, 'local_bkg': (np.array(lb) * fac) * other}))
        except Exception as e:                                  # noqa: BLE001
            rep.violation(f'representation-raises:PSFPhotometry:init-units:{type(e).__name__}', f'PSFPhotometry with Quantity init_params raises {e!r}', rp)
            continue
        rep.case(('psf-init-units', sc['data'].tobytes(), k), True, kind='PSFPhotometry:init-units')
        rep.probe_only += 1
        bad = None
        for col in ('x_fit', 'y_fit', 'flux_fit', 'flux_init', 'local_bkg', 'flux_err'):
            b = num(res['plain'][col])
            for nm in ('same', 'equiv'):
                v = res[nm][col]
                if col in ('flux_fit', 'flux_init', 'local_bkg', 'flux_err'):
                    if unit_of(v) is None or not unit_of(v).is_equivalent(base_u):
                        bad = (col, nm, 'unit')
                        break
                    g = np.asarray(u.Quantity(v).to_value(base_u), float)
                else:
                    g = num(v)
                with np.errstate(invalid='ignore'):
                    if not (b.shape == g.shape and np.all(np.isclose(b, g, rtol=1e-6, atol=1e-6, equal_nan=True))):
                        bad = (col, nm, 'value')
                        break
            if bad:
                break
        if bad:
            rep.violation(f'psf-init-units:{bad[2]}:{bad[0]}', f'PSFPhotometry: {bad[0]} differs ({bad[2]}) between unit-less inputs and Quantity inputs with '
                          f'init_params columns in {"the data unit" if bad[1] == "same" else "an equivalent unit (" + str(other) + " for data in " + str(base_u) + ")"}', rp)


def nd_variant(name):
    def ap(sc, nd, _E, U=None):
        from photutils.aperture import CircularAperture, EllipticalAnnulus, aperture_photometry
        aps = [CircularAperture(sc['pos'], 3.3), EllipticalAnnulus(sc['pos'], 2.1, 4.3, 3.2, theta=0.4)]
        out = {}
        for m in ('exact', 'center', 'subpixel'):
            t = aperture_photometry(nd, aps, method=m, subpixels=sc['subpixels'])
            out[f'flux:sum0:{m}'], out[f'flux:err0:{m}'], out[f'flux:sum1:{m}'] = t['aperture_sum_0'], t['aperture_sum_err_0'], t['aperture_sum_1']
        return out

    def st(sc, nd, _E, U=None):
        from photutils.aperture import ApertureStats, CircularAperture
        s = ApertureStats(nd, CircularAperture(sc['pos'], 4.2))
        return {f'flux:{n}': getattr(s, n) for n in ('sum', 'sum_err', 'min', 'max', 'mean', 'median', 'std')}

    def bk(sc, nd, _E, U=None):
        from photutils.background import Background2D, MedianBackground
        b = Background2D(nd, (11, 9), mask=sc['mask'], filter_size=3, bkg_estimator=MedianBackground())
        return {'flux:background': b.background, 'flux:background_rms': b.background_rms}

    def dt(sc, nd, _E, U=None):
        from photutils.segmentation import detect_threshold
        return {'flux:threshold': detect_threshold(nd.data, 2.5, mask=sc['mask'])}

    def ps(sc, nd, _E, U=None):
        from astropy.nddata import NDData, StdDevUncertainty
        from astropy.table import Table
        from photutils.psf import CircularGaussianPRF, PSFPhotometry
        from photutils.background import LocalBackground
        ph = PSFPhotometry(CircularGaussianPRF(fwhm=3.0), (7, 7), aperture_radius=4, progress_bar=False, localbkg_estimator=LocalBackground(6, 10))
        t = ph(nd, init_params=Table({'x': [p[0] for p in sc['pos']], 'y': [p[1] for p in sc['pos']]}))
        res = ph.make_residual_image(nd, psf_shape=(7, 7))
        resq = res.data if res.unit is None else res.data * res.unit
        return {'plain:x_fit': t['x_fit'], 'plain:y_fit': t['y_fit'], 'flux:flux_fit': t['flux_fit'], 'flux:flux_err': t['flux_err'], 'flux:residual': resq}
    return {'aperture_photometry': ap, 'ApertureStats': st, 'Background2D': bk, 'detect_threshold': dt, 'PSFPhotometry': ps}[name]


# ---------------------------------------------------------------- tie: unit-handling decision logic, total error

def units_correspondence(rep, r, n):
    import astropy.units as u
    from photutils.utils._quantity_helpers import process_quantities
    from photutils.utils import calc_total_error
    drv = Driver()
    lines, exp = [], []
    units = [u.Jy, u.electron, u.adu]
    for k in range(n):
        m = r.randint(0, 4)
        ents = [r.choice(['absent', 'plain', 'u0', 'u0', 'u1', 'u2']) for _ in range(m)]
        if k % 3 == 0:
            uu = r.choice(['plain', 'u0', 'u1'])
            ents = [r.choice(['absent', uu, uu]) for _ in range(m)]
        vals = []
        for e in ents:
            vals.append(None if e == 'absent' else np.arange(3.0) if e == 'plain' else np.arange(3.0) * units[int(e[1])])
        try:
            out, un = process_quantities(vals, [f'a{i}' for i in range(m)])
            res = 'ok ' + ('none' if un is None else str(units.index(un)))
            stripped = all((o is None) == (v is None) and (o is None or (not hasattr(o, 'unit') and np.array_equal(o, np.arange(3.0))))
                           for o, v in zip(out, vals))
            if not stripped:
                rep.violation('process_quantities-values', 'process_quantities changed the numbers or left a unit on a returned value', {'entries': ents})
        except Exception as e:                                  # noqa: BLE001
            res = 'err ' + type(e).__name__
        lines.append('pquant ' + ' '.join(ents) if ents else 'pquant')
        exp.append((res, ents))
    for k in range(n):
        has = [r.random() < 0.6 for _ in range(3)]
        if k % 2 == 0:
            has = [has[0]] * 3
        du, bu, gu = r.choice([0, 1]), r.choice([0, 0, 1]), r.choice(['e/d', 'e/d', 'other'])
        d, b, g = r.choice([4.0, -2.0, 0.0, 9.0]), r.choice([1.0, 0.5, 0.0]), r.choice([2.0, 0.0, 4.0, -1.0])
        units_d = [u.adu, u.Jy]
        D = np.array([[d]]) * (units_d[du] if has[0] else 1)
        B = np.array([[b]]) * (units_d[bu] if has[1] else 1)
        gunit = (u.electron / units_d[du]) if gu == 'e/d' else u.s
        G = g * (gunit if has[2] else 1)
        try:
            with warnings.catch_warnings():
                warnings.simplefilter('ignore')
                t = calc_total_error(D, B, G)
            res = f'ok {q(float(num(t).ravel()[0]) ** 2)} ' + ('none' if unit_of(t) is None else str(units_d.index(unit_of(t))))
        except Exception as e:                                  # noqa: BLE001
            res = 'err ' + ('Exception' if type(e).__name__ == 'UnitsError' else type(e).__name__)
        tok = lambda h, x: str(x) if h else 'none'
        lines.append(f'toterr {q(d)} {q(b)} {q(g)} {tok(has[0], du)} {tok(has[1], bu)} {tok(has[2], 1 if gu == "e/d" else 0)}')
        exp.append((res, None))
    out = drv.run(lines)
    if out is None:
        rep.tie_broken('model driver failed', drv.error)
        return
    nb = 0
    for ln, o, (res, ents) in zip(lines, out, exp):
        rep.traces += 1
        rep.case(('units', ln), ' u' in ln or 'none' in ln, kind=ln.split()[0])
        ok = o == res
        if not ok and o.startswith('ok') and res.startswith('ok') and ln.startswith('toterr'):
            a, b_ = o.split(), res.split()
            ok = a[2] == b_[2] and abs(float(F(a[1])) - float(F(b_[1]))) <= 1e-9 * max(1.0, abs(float(F(a[1]))))
        if not ok:
            nb += 1
            if nb <= 3:
                rep.tie_broken('unit-handling model and implementation disagree', {'op': ln, 'model': o, 'impl': res})


def tuple_axis_probe(rep, r, n):
    """the background / RMS estimators reduce a stack over a TUPLE of axes (not only the trailing ones, negative entries allowed): the
    result does not depend on whether the stack is float64 (bottleneck path), big-endian, float32 or integer (numpy path) and, for the
    mean / median / standard deviation without clipping, equals numpy's own reduction (seed C15-r13 regrouped the elements on the
    bottleneck path; F79: negative tuple axes raised for float64 only)"""
    import photutils.background as pb
    ests = [('MeanBackground', np.mean), ('MedianBackground', np.median), ('StdBackgroundRMS', np.std), ('ModeEstimatorBackground', None),
            ('MMMBackground', None), ('SExtractorBackground', None), ('BiweightLocationBackground', None), ('MADStdBackgroundRMS', None),
            ('BiweightScaleBackgroundRMS', None)]
    for k in range(n):
        shape = (r.randint(2, 4), r.randint(2, 5), r.randint(2, 4))
        rs = np.random.RandomState(r.randrange(2 ** 31))
        cube = rs.randint(0, 40, size=shape).astype(float)
        cube += [10.0, 100.0, 1000.0, 5.0][k % 4] * np.arange(shape[k % 3]).reshape([-1 if i == k % 3 else 1 for i in range(3)])
        axes = [(0, 1), (0, 2), (1, 2), (-3, -2), (0, -1), (-2, -1), (1, 0)][k % 7]
        name, ref = ests[k % len(ests)]
        if k < 2:
            # corpus (runs first): F81 - MADStdBackgroundRMS with a negative entry; F79 - MeanBackground with negative entries
            axes, (name, ref) = [((0, -1), ests[7]), ((-3, -2), ests[0])][k]
        from astropy.stats import SigmaClip
        for clip in (None, SigmaClip(sigma=3.0, maxiters=5)):
            est = getattr(pb, name)(sigma_clip=clip)
            outs = {}
            for rname, arr in (('float64', cube), ('big-endian', cube.astype('>f8')), ('float32', cube.astype(np.float32)), ('int32', cube.astype(np.int32)),
                               ('float64-fortran', np.asfortranarray(cube))):
                with warnings.catch_warnings():
                    warnings.simplefilter('ignore')
                    try:
                        outs[rname] = np.asarray(est(arr, axis=axes), float)
                    except Exception as e:                          # noqa: BLE001
                        outs[rname] = e
            rp = {'estimator': name, 'sigma_clip': None if clip is None else [3.0, 5], 'axis': list(axes), 'cube': cube.tolist()}
            rep.case(('tuple-axis', name, axes, cube.tobytes(), clip is None), True, kind='tuple-axis:' + name)
            rep.probe_only += 1
            raised = [a for a, v in outs.items() if isinstance(v, Exception)]
            if raised and len(raised) < len(outs):
                rep.violation('tuple-axis-representation:raises', f'{name}(axis={axes}) raises for {raised} ({outs[raised[0]]!r}) but not for '
                              f'{[a for a in outs if a not in raised]}', rp)
                continue
            if raised:
                continue
            base = outs['float32']
            for a, v in outs.items():
                if v.shape != base.shape or not np.allclose(v, base, rtol=3e-4, atol=1e-3, equal_nan=True):
                    rep.violation('tuple-axis-representation', f'{name}(axis={axes}) on the {a} stack gives {v.tolist()} but {base.tolist()} on the float32 '
                                  'stack holding the same values', rp)
                    break
            else:
                if ref is not None and clip is None:
                    want = ref(cube, axis=tuple(a % 3 for a in axes))
                    if not np.allclose(outs['float64'], want, rtol=1e-10, atol=1e-10):
                        rep.violation('tuple-axis-value', f'{name}(sigma_clip=None)(axis={axes}) = {outs["float64"].tolist()} but numpy gives {want.tolist()}', rp)


def run(rep, tier):
    thorough = tier == 'thorough'
    scale = 4 if thorough else 1
    rep.rule = ('scenes of 2-3 Gaussian sources on a sky of 10 with noise (integer-valued for the integer dtypes, float32-exact otherwise); '
                '18 entry points x {int64, int32, uint16, float32, big-endian, Fortran order, strided non-contiguous view, MaskedArray with an empty '
                'mask, nomask MaskedArray, NDData, Quantity, Quantity mixed with plain}; results compared with the float64 C-contiguous baseline '
                '(1e-10; float32 3e-4) and units checked. Non-trivial: every case.')
    rep.assumptions += ['Background2D integer-output rounding is exempted as documented',
                        'float32 inputs are compared at 3e-4 relative (float32 arithmetic inside numpy/bottleneck)',
                        'only the unit-handling decision logic and the total-error formula are modelled in Lean; representation independence of '
                        'every entry point is decided by the sweep on the implementation']
    rep.lean = prove(PROP_MODULES)
    r = rng('C15')
    units_correspondence(rep, r, 120 * scale)
    sweep(rep, r, 4 * scale)
    extreme_scale_float32(rep, r, 3 * scale)
    psf_init_units(rep, r, 3 * scale)
    mixed_argument_probe(rep, r)
    tuple_axis_probe(rep, r, 18 * scale)


def replay(rep, data):
    run(rep, 'quick')
