"""C05 — SegmentationImage attributes always describe the current label array (DESIGN §5 C05)."""
import warnings

import numpy as np

import gens
from common import Driver, prove, rng

PROP_MODULES = ['PhotVerif.Props.C05', 'PhotVerif.Props.C05Relabel']
DTYPES = {'int32': 2 ** 31 - 1, 'int64': 2 ** 63 - 1, 'uint8': 255, 'uint16': 65535}


def show_nats(v):
    v = [int(x) for x in v]
    return ','.join(map(str, v)) if v else '-'


def show_slices(sl):
    if not sl:
        return '-'
    return ' '.join(f'{s[0].start}:{s[0].stop}:{s[1].start}:{s[1].stop}' for s in sl)


def show_dmap(dm):
    if not dm:
        return 'ok -'
    return 'ok ' + ' '.join(f'{int(p)}:{show_nats(cs)}' for p, cs in dm.items())


def gen_op(r, segm_labels, ny, nx):
    """one op: (model line, impl callable(segm) -> canonical string)"""
    t = r.random()
    labs = list(segm_labels)
    pool = labs + [0, 99] + ([max(labs) + 1] if labs else [1])

    def pick_labels(valid_p=0.8):
        if labs and r.random() < valid_p:
            k = r.randint(1, min(3, len(labs)))
            return r.sample(labs, k)
        if r.random() < 0.2:
            return []
        return [r.choice(pool) for _ in range(r.randint(1, 2))]
    rl = r.random() < 0.4
    if t < 0.30:
        what = r.choice(['labels', 'slices', 'areas', 'nlabels', 'max', 'segments'])
        def f(s):
            if what == 'segments':
                # reading the per-label Segment objects (their cut-outs, masked cut-outs, array form, areas) is a READ: in the model it is
                # the `labels` read, and the label array compared after the step must be unchanged (seed C05-r8 wrote through a view)
                try:
                    for sg in s.segments:
                        _ = (sg.data, sg.data_ma, np.asarray(sg), sg.area, sg.make_cutout(np.zeros(s.data.shape)))
                except Exception:                               # noqa: BLE001  (labels in several pieces: F2b)
                    pass
                return 'ok ' + show_nats(s.labels)
            if what == 'labels':
                return 'ok ' + show_nats(s.labels)
            if what == 'slices':
                return 'ok ' + show_slices(s.slices)
            if what == 'areas':
                return 'ok ' + show_nats(s.areas)
            if what == 'nlabels':
                return f'ok {int(s.nlabels)}'
            return f'ok {int(s.max_label)}'
        return f"segm.read {'labels' if what == 'segments' else what}", f, 'read:' + what
    if t < 0.42:
        ls = pick_labels()
        new = r.choice(pool + [300] + labs)
        return (f'segm.reassign {show_nats(ls)} {new} {int(rl)}',
                lambda s: (s.reassign_labels(ls, new, relabel=rl), 'ok')[1], 'reassign')
    if t < 0.52:
        st = r.choice([1, 1, 1, 2, 5, 0, -1, 250, 254])
        return f'segm.relabel {st}', lambda s: (s.relabel_consecutive(start_label=st), 'ok')[1], 'relabel'
    if t < 0.62:
        ls = pick_labels()
        return (f'segm.keep {show_nats(ls)} {int(rl)}',
                lambda s: (s.keep_labels(ls, relabel=rl), 'ok')[1], 'keep')
    if t < 0.74:
        ls = pick_labels()
        return (f'segm.remove {show_nats(ls)} {int(rl)}',
                lambda s: (s.remove_labels(ls, relabel=rl), 'ok')[1], 'remove')
    if t < 0.84:
        w = r.choice([0, 0, 1, 1, 2, 3])
        po = r.random() < 0.6
        return (f'segm.rmborder {w} {int(po)} {int(rl)}',
                lambda s: (s.remove_border_labels(w, partial_overlap=po, relabel=rl), 'ok')[1], 'rmborder')
    if t < 0.93:
        m = gens.mask(r, ny, nx)
        if m is None:
            m = np.zeros((ny, nx), bool)
        po = r.random() < 0.6
        bits = ''.join('1' if v else '0' for v in m.ravel())
        return (f'segm.rmmask {bits} {int(po)} {int(rl)}',
                lambda s: (s.remove_masked_labels(m, partial_overlap=po, relabel=rl), 'ok')[1], 'rmmask')
    # assign new data (same shape)
    newd = gens.label_map(r, ny, nx, maxlabels=4)
    return (('setdata', newd), None, 'setdata')


def consecutive(d, start=1):
    labs = [int(v) for v in np.unique(d) if v != 0]
    out = np.zeros_like(d)
    for i, l in enumerate(labs):
        out[d == l] = start + i
    return out


def documented_effect(line, before):
    """(S) the documented set-theoretic effect of a successful mutator on the label array (independent numpy reference)"""
    t = line.split()
    op = t[0]
    d = before.copy()
    nat = lambda tok: [] if tok == '-' else [int(v) for v in tok.split(',')]
    if op == 'segm.relabel':
        return consecutive(d, int(t[1]))
    if op == 'segm.reassign':
        ls, new, rl = nat(t[1]), int(t[2]), t[3] == '1'
        d[np.isin(d, ls)] = new
    elif op == 'segm.keep':
        ls, rl = nat(t[1]), t[2] == '1'
        d[~np.isin(d, ls)] = 0
    elif op == 'segm.remove':
        ls, rl = nat(t[1]), t[2] == '1'
        d[np.isin(d, ls)] = 0
    elif op == 'segm.rmborder':
        w, po, rl = int(t[1]), t[2] == '1', t[3] == '1'
        border = np.zeros(d.shape, bool)
        if w > 0:
            border[:w, :] = border[-w:, :] = True
            border[:, :w] = border[:, -w:] = True
        for l in [int(v) for v in np.unique(d) if v != 0]:
            sel = d == l
            if (border[sel].any() if po else border[sel].all()):
                d[sel] = 0
    elif op == 'segm.rmmask':
        m = np.array([c == '1' for c in t[1]], bool).reshape(d.shape)
        po, rl = t[2] == '1', t[3] == '1'
        for l in [int(v) for v in np.unique(d) if v != 0]:
            sel = d == l
            if (m[sel].any() if po else m[sel].all()):
                d[sel] = 0
    else:
        return None
    return consecutive(d) if rl else d


def run_impl(f, segm):
    try:
        with warnings.catch_warnings():
            warnings.simplefilter('ignore')
            return f(segm)
    except ValueError:
        return 'err ValueError'
    except OverflowError:
        return 'err OverflowError'
    except TypeError:
        return 'err TypeError'
    except KeyError:
        return 'err KeyError'
    except IndexError:
        return 'err IndexError'


def fresh_check(rep, segm, hist, known_f2b=True):
    """(S) every derived attribute equals that of a freshly constructed object on the same array"""
    from photutils.segmentation import SegmentationImage
    data = segm.data
    try:
        fresh = SegmentationImage(np.array(data, copy=True))
    except Exception as e:
        rep.violation(f'data-invalid-after-history:{type(e).__name__}',
                      f'the label array after the history is rejected by the constructor: {e}', hist)
        return False
    if data.dtype != hist['dtype_obj']:
        rep.violation('dtype-changed', f'dtype changed from {hist["dtype_obj"]} to {data.dtype}', hist)
        return False
    ok = True
    # the attributes are read in a different order from check to check (`labels` derived from cached slices, `areas` before `labels` ...:
    # seed C05-r12 was visible only when `slices` had been read before `labels`)
    names_ = ['labels', 'nlabels', 'max_label', 'slices', 'bbox', 'areas', 'background_area', 'is_consecutive', 'missing_labels']
    rot_ = hist.get('_order', 0) % 4
    names_ = [names_, ['slices', 'labels', 'areas', 'bbox', 'nlabels', 'max_label', 'background_area', 'is_consecutive', 'missing_labels'],
              ['bbox', 'areas', 'labels', 'slices', 'missing_labels', 'is_consecutive', 'max_label', 'nlabels', 'background_area'],
              ['missing_labels', 'slices', 'max_label', 'labels', 'areas', 'bbox', 'nlabels', 'is_consecutive', 'background_area']][rot_]
    for name in names_:
        try:
            a = getattr(segm, name)
            b = getattr(fresh, name)
            same = (list(a) == list(b)) if hasattr(a, '__len__') else (a == b)
        except Exception as e:
            rep.violation(f'attribute-raises:{name}:{type(e).__name__}',
                          f'reading {name} after the history raised {e!r}', hist)
            return False
        if not same:
            rep.violation(f'stale-attribute:{name}', f'{name} = {a} but a fresh object gives {b}', hist)
            ok = False
    # bookkeeping never names an absent label
    labs = set(int(v) for v in np.unique(data[data != 0]))
    try:
        dl = [int(v) for v in segm.deblended_labels]
        dm = {int(k): int(v) for k, v in segm.deblended_labels_map.items()}
        dim = {int(k): [int(c) for c in v] for k, v in segm.deblended_labels_inverse_map.items()}
    except Exception as e:
        rep.violation(f'deblended-attr-raises:{type(e).__name__}', f'deblended-label attributes raised {e!r}', hist)
        return False
    if any(v not in labs for v in dl) or any(k not in labs for k in dm):
        rep.violation('dmap-names-absent-label', f'deblended labels {dl} / map {dm} name labels absent from {sorted(labs)}',
                      hist)
        ok = False
    if sorted(dl) != sorted(c for cs in dim.values() for c in cs) or sorted(dm) != sorted(set(dl)):
        rep.violation('dmap-inconsistent', 'deblended_labels / _map / _inverse_map are mutually inconsistent', hist)
        ok = False
    # one segment / polygon entry per label
    nl = len(labs)
    try:
        npoly = len(segm.polygons)
        nseg = len(segm.segments)
    except Exception as e:
        conn = connected_labels(data)
        tag = 'nonconnected-label' if not conn else 'other'
        rep.violation(f'segments-polygons-raise:{tag}',
                      f'segments/polygons raised {type(e).__name__}: {e} (labels connected: {conn})', hist)
        return False
    if npoly != nl or nseg != nl:
        conn = connected_labels(data)
        tag = 'nonconnected-label' if not conn else 'other'
        rep.violation(f'segments-polygons-count:{tag}',
                      f'{nl} labels but {nseg} segments / {npoly} polygons', hist)
        ok = False
    return ok


def connected_labels(data):
    from scipy.ndimage import label
    for lab in np.unique(data[data != 0]):
        _, n = label(data == lab, structure=np.ones((3, 3)))
        if n != 1:
            return False
    return True


def make_initial(r, k):
    """(kind, ndarray data, dtype name, dmap or None, segm object)"""
    from photutils.segmentation import SegmentationImage, detect_sources, deblend_sources
    kind = r.choice(['ctor', 'ctor', 'ctor', 'detect', 'deblend'])
    dt = r.choice(list(DTYPES))
    if kind == 'ctor':
        ny, nx = gens.size(r, 2, 7), gens.size(r, 2, 7)
        if r.random() < 0.3:                          # clearly elongated arrays (either orientation): interior labels beyond min(shape)
            ny, nx = r.randint(4, 6), r.randint(10, 15)
            if r.random() < 0.5:
                ny, nx = nx, ny
        data = gens.label_map(r, ny, nx, maxlabels=5 if ny * nx < 50 else 9, background=(r.random() < 0.9)).astype(dt)
        return kind, data, dt, None, SegmentationImage(data.copy())
    if kind == 'detect':
        ny, nx = gens.size(r, 3, 8), gens.size(r, 3, 8)
        img = gens.image(r, ny, nx, special=0.1, palette=0.6)
        with warnings.catch_warnings():
            warnings.simplefilter('ignore')
            s = detect_sources(img, gens.dy(r, 2, 2), npixels=r.choice([1, 2]), connectivity=r.choice([4, 8]))
        if s is None:
            return make_initial(r, k)
        return kind, s.data.copy(), str(s.data.dtype), None, s
    # deblend
    yy, xx = np.mgrid[0:20, 0:24]
    img = np.zeros((20, 24))
    for (x0, y0, a) in [(7, 9, 100), (12 + r.randint(0, 2), 10, 80 + r.randint(0, 30)), (19, 4, 50)]:
        img += a * np.exp(-((xx - x0) ** 2 + (yy - y0) ** 2) / (2 * 1.6 ** 2))
    with warnings.catch_warnings():
        warnings.simplefilter('ignore')
        s0 = detect_sources(img, 2.0, npixels=4)
        s = deblend_sources(img, s0, npixels=4, nlevels=16, contrast=0.001, progress_bar=False)
    return kind, s.data.copy(), str(s.data.dtype), {int(k_): [int(c) for c in v] for k_, v in s._deblend_label_map.items()}, s


def run(rep, tier):
    scale = 1 if tier == 'quick' else 20
    rep.rule = ('random histories (length 1..12) of public mutators (valid and invalid arguments) interleaved with attribute reads '
                'on small label arrays of dtypes int32/int64/uint8/uint16 built by the constructor, detect_sources and deblend_sources; '
                'after every step the implementation output is compared with the Lean state-machine model and every derived attribute '
                'with a freshly constructed object. Non-trivial = history contains a successful mutator; distinct by hash of (array, ops).')
    rep.assumptions += ['polygon geometry (rasterio/shapely) and colour maps are not modelled; only entry counts are checked',
                        'deblend_sources output map is taken as the initial map (its soundness is C06)']
    rep.lean = prove(PROP_MODULES)
    if not rep.lean.ok:
        scale *= 3
    r = rng('C05')
    drv = Driver()
    nhist = 160 * scale
    lines = []
    expect = []      # (history index, step index, impl string)
    hists = []
    cover = {}
    for h in range(nhist):
        kind, data, dt, dmap, segm = make_initial(r, h)
        ny, nx = data.shape
        dm_tok = '-' if not dmap else ' '.join(f'{p}:{show_nats(cs)}' for p, cs in dmap.items())
        if kind == 'detect':
            lines.append(f'segm.newdetected {ny} {nx} {DTYPES[dt]} | ' + ' '.join(str(int(v)) for v in data.ravel()))
        else:
            lines.append(f'segm.new {ny} {nx} {DTYPES[dt]} | ' + ' '.join(str(int(v)) for v in data.ravel()) + ' | ' + dm_tok)
        expect.append((h, -1, 'ok'))
        hist = {'initial': kind, 'dtype': dt, 'dtype_obj': segm.data.dtype, 'data': data.tolist(), 'dmap': dmap, 'ops': [], '_order': h}
        hists.append(hist)
        nops = r.randint(1, 12)
        mutated = False
        alive = True
        for k in range(nops):
            line, f, opk = gen_op(r, segm.labels, ny, nx)
            cached = tuple(sorted(kk for kk in ('labels', 'slices', 'areas', '_raw_slices', 'nlabels', 'max_label')
                                  if kk in segm.__dict__))
            cover[(opk, cached)] = cover.get((opk, cached), 0) + 1
            if opk == 'setdata':
                newd = line[1].astype(dt)
                segm.data = newd
                lines.append(f'segm.setdata {ny} {nx} {DTYPES[dt]} | ' + ' '.join(str(int(v)) for v in newd.ravel()))
                expect.append((h, k, 'ok'))
                hist['ops'].append('setdata ' + str(newd.tolist()))
                mutated = True
            else:
                before = np.array(segm.data).astype(np.int64)
                out = run_impl(f, segm)
                if out == 'ok' and not line.startswith('segm.read'):
                    try:
                        exp_d = documented_effect(line, before)
                    except Exception:                           # noqa: BLE001
                        exp_d = None
                    if exp_d is not None and not np.array_equal(exp_d, np.array(segm.data).astype(np.int64)):
                        rep.violation(f'documented-effect:{opk}', f'{line[:60]}: the label array is not the documented effect of the operation '
                                      f'(labels now {sorted(int(v) for v in np.unique(segm.data) if v)}, documented {sorted(int(v) for v in np.unique(exp_d) if v)})',
                                      dict(hist, ops=list(hist['ops']) + [line], dtype_obj=None))
                        alive = False
                        break
                lines.append(line)
                expect.append((h, k, out))
                hist['ops'].append(line)
                if out == 'ok' and not line.startswith('segm.read'):
                    mutated = True
            rep.count('op:' + opk)
            # compare full state after each step: data + dmap
            lines.append('segm.read data')
            expect.append((h, k, 'ok ' + ' '.join(str(int(v)) for v in segm.data.ravel())))
            lines.append('segm.read dmap')
            expect.append((h, k, show_dmap(segm._deblend_label_map)))
            snap = dict(hist, ops=list(hist['ops']))
            if not fresh_check(rep, segm, snap):
                alive = False
                break
        rep.case((data.tobytes(), tuple(hist['ops'])), mutated, kind=f'history:{kind}:{dt}',
                 sample={'initial': kind, 'dtype': dt, 'data': data.tolist(), 'ops': hist['ops'][:6]})
    rep.extra['coverage_matrix_cells'] = len(cover)
    rep.extra['coverage_matrix'] = {f'{k[0]}|{",".join(k[1])}': v for k, v in sorted(cover.items())[:80]}
    out = drv.run(lines)
    if out is None:
        rep.tie_broken('model driver failed', drv.error)
        return
    bad_hist = set()
    for ln, o, (h, k, e) in zip(lines, out, expect):
        if h in bad_hist:
            continue
        rep.traces += 1
        if o != e:
            bad_hist.add(h)
            if len(bad_hist) <= 3:
                hh = dict(hists[h])
                hh.pop('dtype_obj', None)
                rep.tie_broken('SegmentationImage model and implementation disagree',
                               {'history': hh, 'step': k, 'op': ln[:200], 'model': o[:200], 'impl': e[:200]})
    for hst in hists:
        hst.pop('dtype_obj', None)


def replay(rep, data):
    run(rep, 'quick')
