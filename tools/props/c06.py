"""C06 — deblending only refines segments and is independent of worker scheduling (DESIGN §5 C06)."""
import concurrent.futures as cf
import warnings

import numpy as np

from common import Driver, prove, rng

PROP_MODULES = ['PhotVerif.Props.C06', 'PhotVerif.Props.C06Dtype']


# ---------------------------------------------------------------- scenes
def make_scene(r):
    ny, nx = r.randint(22, 34), r.randint(26, 40)
    yy, xx = np.mgrid[0:ny, 0:nx]
    img = np.zeros((ny, nx))
    nparents = r.randint(1, 4)
    for _ in range(nparents):
        x0, y0 = r.uniform(5, nx - 6), r.uniform(5, ny - 6)
        for _ in range(r.randint(1, 3)):
            dx, dy = r.uniform(-4.5, 4.5), r.uniform(-4.5, 4.5)
            amp = r.uniform(30, 120)
            sx, sy = r.uniform(1.0, 2.0), r.uniform(1.0, 2.0)
            img += amp * np.exp(-0.5 * (((xx - x0 - dx) / sx) ** 2 + ((yy - y0 - dy) / sy) ** 2))
        if r.random() < 0.5:
            # a faint companion: separated by the exponential / sinh levels, but below the first linear level
            ang = r.uniform(0, 2 * np.pi)
            dist = r.uniform(5.0, 7.0)
            img += r.uniform(4, 9) * np.exp(-0.5 * (((xx - x0 - dist * np.cos(ang)) / 1.2) ** 2 + ((yy - y0 - dist * np.sin(ang)) / 1.2) ** 2))
    if r.random() < 0.3:
        img -= 0.5          # negative pixels -> 'nonposmin' branch for exponential mode
    img = np.round(img * 16) / 16
    return img


class FakeFuture:
    def __init__(self, fn, args):
        self._fn, self._args = fn, args
        self._res = None
        self._done = False

    def result(self):
        if not self._done:
            self._res = self._fn(*self._args)
            self._done = True
        return self._res


class FakeExecutor:
    """in-process stand-in for ProcessPoolExecutor; completion order is decided by `as_completed`"""

    def __init__(self, *a, **k):
        pass

    def __enter__(self):
        return self

    def __exit__(self, *a):
        return False

    def submit(self, fn, *args):
        return FakeFuture(fn, args)


def run_with_order(order_fn, call):
    """run `call()` with the deblender's executor replaced; futures complete in order_fn(n) order"""
    import photutils.segmentation.deblend as dmod
    used = {}

    def fake_as_completed(fdict):
        futs = list(fdict)           # submission order
        order = order_fn(len(futs))
        used['order'] = order
        for i in order:
            yield futs[i]
    old = (dmod.ProcessPoolExecutor, dmod.as_completed)
    dmod.ProcessPoolExecutor, dmod.as_completed = FakeExecutor, fake_as_completed
    try:
        out = call()
    finally:
        dmod.ProcessPoolExecutor, dmod.as_completed = old
    return out, used.get('order')


def per_source_results(data, segm, labels_sel, params):
    """the values of the parameter D: run the real per-source deblender on each selected source"""
    from photutils.segmentation.deblend import _deblend_source, _DeblendParams
    from photutils.segmentation.utils import _make_binary_structure
    fp = _make_binary_structure(2, params['connectivity'])
    res = {}
    for lab in labels_sel:
        idx = segm.get_index(lab)
        slc = segm.slices[idx]
        # fresh parameters for every parent: a parent's partition depends on that parent only
        dp = _DeblendParams(params['npixels'], fp, params['nlevels'], params['contrast'], params['mode'])
        with warnings.catch_warnings():
            warnings.simplefilter('ignore')
            sd, _ = _deblend_source(data[slc], segm.data[slc], lab, dp)
        if sd is None:
            res[lab] = None
        else:
            full = np.zeros(segm.shape, dtype=int)
            full[slc][sd > 0] = sd[sd > 0]
            res[lab] = full
    return res


def dtype_correspondence(rep, drv, r, n):
    """(T) `_fit_label_dtype` (the widening of the output label array when a new child label does not fit) vs the Lean model
    `fitDtype`; (S) the returned array holds every old value and the new label"""
    from photutils.segmentation.deblend import _fit_label_dtype
    dts = [np.uint8, np.int8, np.uint16, np.int16, np.uint32, np.int32, np.uint64, np.int64]
    lines, exps = [], []
    for _ in range(n):
        dt = np.dtype(r.choice(dts))
        mx = int(np.iinfo(dt).max)
        v = r.choice([mx, mx + 1, mx + 2, 2 * mx + 1, 2 * mx + 2, r.randint(0, mx), r.randint(mx, 4 * mx + 4), 255, 256, 65535, 65536, 2 ** 31, 2 ** 32])
        if v >= 2 ** 64:
            continue
        arr = np.array([[0, mx, 1]], dtype=dt)
        try:
            out = _fit_label_dtype(arr, v)
        except Exception as e:                                  # noqa: BLE001
            rep.violation(f'fit_label_dtype-raises:{type(e).__name__}', f'_fit_label_dtype({dt}, {v}) raised {e!r}', {'dtype': str(dt), 'value': v})
            continue
        od = out.dtype
        lines.append(f'fitdtype {"i" if dt.kind == "i" else "u"} {dt.itemsize * 8} {v}')
        exps.append('ok float' if od.kind == 'f' else f'ok {"i" if od.kind == "i" else "u"} {od.itemsize * 8}')
        rep.case(('fitdtype', str(dt), v), v > mx, kind=f'fit-label-dtype:{dt}')
        if od.kind in 'iu' and not (v <= int(np.iinfo(od).max) and np.array_equal(out.astype(object), arr.astype(object))):
            rep.violation('fit_label_dtype-loses-values', f'_fit_label_dtype({dt}, {v}) returned {od}: the value or an old label does not fit', {'dtype': str(dt), 'value': v})
    got = drv.run(lines)
    if got is None:
        rep.tie_broken('model driver failed (fitdtype)', drv.error)
        return
    nb = 0
    for ln, o, e in zip(lines, got, exps):
        rep.traces += 1
        if o != e:
            nb += 1
            if nb <= 3:
                rep.tie_broken('label dtype model and _fit_label_dtype disagree', {'op': ln, 'model': o, 'impl': e})


def check_output(rep, data, segm, out, params, labels_arg, D, replay):
    """(S) the refinement statements evaluated on the implementation's output"""
    a, b = segm.data, out.data
    npix = params['npixels']
    if not np.array_equal(a != 0, b != 0):
        rep.violation('nonzero-set-changed', 'deblend_sources changed the set of non-zero pixels', replay)
        return False
    # each output segment inside one input segment
    for lab in np.unique(b[b != 0]):
        if len(np.unique(a[b == lab])) != 1:
            rep.violation('segment-not-refinement', f'output label {lab} spans several input segments', replay)
            return False
    split = []
    for lab in np.unique(a[a != 0]):
        kids = np.unique(b[a == lab])
        if len(kids) > 1:
            split.append(int(lab))
            for kk in kids:
                if np.count_nonzero(b == kk) < npix:
                    rep.violation('child-smaller-than-npixels', f'child {kk} of parent {lab} has < npixels pixels', replay)
                    return False
        elif not params['relabel']:
            if kids[0] != lab:
                rep.violation('untouched-label-changed', f'segment {lab} was not split but its label became {kids[0]}', replay)
                return False
    if params['relabel']:
        labs = np.unique(b[b != 0])
        if len(labs) and not np.array_equal(labs, np.arange(1, len(labs) + 1)):
            rep.violation('relabel-not-1N', f'relabel=True but labels are {labs.tolist()}', replay)
            return False
    # parent -> children map matches the pixels
    dm = {int(k): sorted(int(c) for c in v) for k, v in out._deblend_label_map.items()}
    exp = {lab: sorted(int(c) for c in np.unique(b[a == lab])) for lab in split}
    if dm != exp:
        rep.violation('map-does-not-match-pixels', f'deblend map {dm} but pixels say {exp}', replay)
        return False
    return True


def run(rep, tier):
    from photutils.segmentation import detect_sources, deblend_sources
    thorough = tier == 'thorough'
    scale = 12 if thorough else 1
    rep.rule = ('blended Gaussian scenes (1-4 parents of 1-3 components), label subsets, relabel on/off, 3 modes, connectivity 4/8, '
                'nlevels, contrast {0,0.001,0.3,1}; per scene: real per-source results fed to the Lean merge model; the real '
                'deblend_sources run serially and under a patched executor with reverse / rotated / random completion orders '
                '(thorough: also the real spawn pool). Non-trivial = at least one parent split; distinct by scene+params hash.')
    rep.assumptions += ['the per-source deblender (multi-thresholding + skimage watershed) is a parameter of the model; its contract '
                        '(children cover exactly the parent, numbered 1..k) is checked on every generated case, not proved']
    rep.lean = prove(PROP_MODULES)
    if not rep.lean.ok:
        scale *= 3
    r = rng('C06')
    drv = Driver()
    lines, exps, metas = [], [], []
    nscenes = 110 * scale
    for k in range(nscenes):
        img = make_scene(r)
        conn = r.choice([8, 8, 4])
        npix = r.choice([3, 5, 8])
        with warnings.catch_warnings():
            warnings.simplefilter('ignore')
            segm = detect_sources(img, r.choice([1.0, 2.0, 4.0]), npixels=npix, connectivity=conn)
        if segm is None:
            continue
        if k % 8 == 5:
            # hand-drawn segments: rectangles that fill their bounding boxes (every pixel of the box belongs to the parent), with a background
            # frame or - every other time - tiling the whole image so that no background pixel is left
            from photutils.segmentation import SegmentationImage
            ny_, nx_ = img.shape
            yy_, xx_ = np.mgrid[0:ny_, 0:nx_]
            img = np.zeros(img.shape) + 2.0
            for (cx_, cy_) in [(nx_ * 0.18, ny_ * 0.3), (nx_ * 0.36, ny_ * 0.7), (nx_ * 0.68, ny_ * 0.35), (nx_ * 0.85, ny_ * 0.65)]:
                img += r.uniform(40, 90) * np.exp(-0.5 * (((xx_ - cx_) / 1.6) ** 2 + ((yy_ - cy_) / 1.6) ** 2))
            img = np.round(img * 16) / 16
            seg_ = np.zeros(img.shape, int)
            m_ = 0 if (k // 8) % 2 else 2
            seg_[m_:ny_ - m_, m_:nx_ // 2] = 1
            seg_[m_:ny_ - m_, nx_ // 2:nx_ - m_] = 2
            segm = SegmentationImage(seg_)
        if k % 8 == 7:
            # two diagonal blends side by side: they do not touch, but the bounding box of each contains pixels of the other (what is written
            # for one parent must never touch the pixels of another - seed C06-r5 rewrote the whole cut-out of the later parent)
            ny_, nx_ = 26, 30
            yy_, xx_ = np.mgrid[0:ny_, 0:nx_]
            img = np.zeros((ny_, nx_))
            ox_, oy_ = r.uniform(-0.4, 0.4), r.uniform(-0.4, 0.4)
            flip_ = (k // 8) % 2
            for (cx_, cy_) in [(7, 9), (11, 13), (16, 6), (20, 10)]:
                cx_ = nx_ - 1 - cx_ if flip_ else cx_
                img += r.uniform(60, 100) * np.exp(-0.5 * (((xx_ - cx_ - ox_) / 1.3) ** 2 + ((yy_ - cy_ - oy_) / 1.3) ** 2))
            img = np.round(img * 16) / 16
            with warnings.catch_warnings():
                warnings.simplefilter('ignore')
                segm = detect_sources(img, 6.0, npixels=5, connectivity=conn)
            if segm is None:
                continue
            rep.count('overlapping-bbox scenes with %d parents' % segm.nlabels)
        disjoint_parent = False
        if k % 8 == 6 and segm.nlabels >= 2:
            # a parent made of two disjoint pieces (two detections given one label): either every piece is divided among the children or the
            # call refuses the source ('Deblending failed'); pixels of a piece must never silently keep the parent label next to children
            from photutils.segmentation import SegmentationImage
            d_ = segm.data.copy()
            labs_ = [int(v) for v in segm.labels]
            areas_ = [int(v) for v in segm.areas]
            small = labs_[int(np.argmin(areas_))]
            big = labs_[int(np.argmax(areas_))]
            if small != big:
                sel_small = d_ == small
                d_[sel_small] = big
                segm = SegmentationImage(d_)
                disjoint_parent = True
                # the small piece is faint and flat (at the parent's minimum): it lies below every deblending threshold and gets no marker
                img = img.copy()
                img[sel_small] = float(img[d_ == big].min())
        if r.random() < 0.3 and segm.nlabels > 1:      # label gaps
            segm.remove_label(int(r.choice(list(segm.labels))))
        elif r.random() < 0.35 and segm.nlabels > 1:
            # every source kept, labels spread with gaps (new child labels must not run into a surviving higher label)
            from photutils.segmentation import SegmentationImage
            k_ = segm.nlabels
            lut = np.zeros(int(segm.max_label) + 1, dtype=segm.data.dtype)
            lut[np.asarray(segm.labels, int)] = sorted(r.sample(range(1, k_ + 3), k_))
            segm = SegmentationImage(lut[segm.data])
        if r.random() < 0.15:
            # narrow integer dtype whose range ends at the top label: new child labels do not fit (must be widened, never wrapped)
            from photutils.segmentation import SegmentationImage
            d8 = segm.data.astype(np.uint8)
            d8[d8 == int(segm.max_label)] = 255
            segm = SegmentationImage(d8)
        nonpos = segm.nlabels >= 2 and r.random() < 0.45
        if nonpos:
            # a parent with non-positive pixels (data measured against a different background than the detection image):
            # the exponential / sinh modes fall back to linear thresholds for THAT parent only
            p0 = int(segm.labels[0])
            sel0 = segm.data == p0
            img = img.copy()
            img[sel0] -= float(img[sel0].min()) + r.choice([0.0, 0.25])
        params = dict(npixels=npix, nlevels=r.choice([4, 16, 32]), contrast=r.choice([0.0, 0.001, 0.001, 0.001, 0.3, 0.001, 0.0, 1.0]),
                      mode=r.choice(['exponential', 'linear', 'sinh']), connectivity=conn,
                      relabel=r.random() < 0.6)
        if nonpos and r.random() < 0.8:
            # the fallback to linear thresholds must stay confined to the parent that needs it
            params.update(mode=r.choice(['exponential', 'sinh']), nlevels=32, contrast=r.choice([0.001, 0.0]))
        labels_arg = None
        if r.random() < 0.35 and segm.nlabels > 0:
            labels_arg = sorted(r.sample([int(v) for v in segm.labels], r.randint(1, segm.nlabels)))
        replay = {'image': img.tolist(), 'segm': segm.data.tolist(), 'params': params, 'labels': labels_arg}
        snap_img, snap_seg = img.copy(), segm.data.copy()

        def call(nproc):
            with warnings.catch_warnings():
                warnings.simplefilter('ignore')
                return deblend_sources(img, segm, labels=labels_arg, nproc=nproc, progress_bar=False, **params)
        try:
            ser = call(1)
        except Exception as e:
            if disjoint_parent and isinstance(e, ValueError) and 'Deblending failed' in str(e):
                rep.count('refused:disjoint-parent')
                rep.case(('disjoint', img.tobytes()), False, kind='disjoint-parent:refused')
                continue
            rep.violation(f'deblend-raises:{type(e).__name__}', f'deblend_sources raised {e!r}', replay)
            continue
        if not (np.array_equal(img, snap_img) and np.array_equal(segm.data, snap_seg)):
            rep.violation('input-modified', 'deblend_sources modified its input image or segmentation image', replay)
            continue
        if params['contrast'] == 1.0:
            if not np.array_equal(ser.data, segm.data) or ser is segm:
                rep.violation('contrast1-not-identity', 'contrast=1 must return an unchanged copy', replay)
            rep.case(('c1', img.tobytes()), False, kind='contrast=1')
            continue
        labs_all = [int(v) for v in segm.labels]
        sel = [l for l in (labels_arg if labels_arg is not None else labs_all)
               if np.count_nonzero(segm.data == l) >= 2 * npix]
        D = per_source_results(img, segm, sel, params)
        # contract of D
        for lab, c in D.items():
            if c is None:
                continue
            kk = np.unique(c[c != 0])
            if not np.array_equal(c != 0, segm.data == lab) or not np.array_equal(kk, np.arange(1, len(kk) + 1)) \
                    or len(kk) < 2:
                rep.violation('per-source-contract', f'_deblend_source result for label {lab} violates its contract', replay)
        ok = check_output(rep, img, segm, ser, params, labels_arg, D, replay)
        nsplit = sum(1 for c in D.values() if c is not None)
        rep.case((img.tobytes(), repr(sorted(params.items())), repr(labels_arg)), nsplit > 0,
                 kind=f'scene:{params["mode"]}:conn{conn}:relabel{int(params["relabel"])}:split{min(nsplit, 3)}',
                 sample={'shape': list(img.shape), 'params': params, 'labels': labels_arg, 'parents_split': nsplit,
                         'nlabels_in': len(labs_all), 'nlabels_out': int(ser.nlabels)})
        if not ok:
            continue
        # gaps: deblend everything but the top-labelled segment, keeping the labels (children must not collide with that segment)
        if not np.array_equal(np.asarray(segm.labels), np.arange(1, segm.nlabels + 1)) and segm.nlabels > 1:
            p3 = dict(params, relabel=False, contrast=0.001, nlevels=32)
            la3 = [int(v) for v in segm.labels[:-1]]
            with warnings.catch_warnings():
                warnings.simplefilter('ignore')
                try:
                    out3 = deblend_sources(img, segm, labels=la3, nproc=1, progress_bar=False, **p3)
                except Exception as e:                          # noqa: BLE001
                    if disjoint_parent and isinstance(e, ValueError) and 'Deblending failed' in str(e):
                        rep.count('refused:disjoint-parent')
                        continue
                    rep.violation(f'deblend-raises:{type(e).__name__}', f'deblend_sources raised {e!r}', dict(replay, params=p3, labels=la3))
                    continue
            rep.count('gap-collision-probe')
            if not check_output(rep, img, segm, out3, p3, la3, {}, dict(replay, params=p3, labels=la3)):
                continue
        # relabel=True must give labels 1..N also when nothing is split (input with label gaps, very high contrast)
        if not np.array_equal(np.asarray(segm.labels), np.arange(1, segm.nlabels + 1)):
            p2 = dict(params, contrast=0.999, relabel=True)
            with warnings.catch_warnings():
                warnings.simplefilter('ignore')
                try:
                    out2 = deblend_sources(img, segm, labels=labels_arg, nproc=1, progress_bar=False, **p2)
                except Exception as e:                          # noqa: BLE001
                    if disjoint_parent and isinstance(e, ValueError) and 'Deblending failed' in str(e):
                        rep.count('refused:disjoint-parent')
                        continue
                    rep.violation(f'deblend-raises:{type(e).__name__}', f'deblend_sources raised {e!r}', dict(replay, params=p2))
                    continue
            rep.count('no-split-relabel-probe')
            if not check_output(rep, img, segm, out2, p2, labels_arg, {}, dict(replay, params=p2)):
                continue
        # schedules
        orders = [lambda n: list(range(n))[::-1], lambda n: list(range(n))[1:] + list(range(n))[:1],
                  lambda n: r.sample(range(n), n)]
        used_orders = []
        for of in orders:
            try:
                par, used = run_with_order(of, lambda: call(2))
            except Exception as e:
                rep.violation(f'parallel-raises:{type(e).__name__}', f'parallel branch raised {e!r}', replay)
                break
            used_orders.append(used)
            rep.count('schedules')
            dm_s = {int(a_): [int(c) for c in v] for a_, v in ser._deblend_label_map.items()}
            dm_p = {int(a_): [int(c) for c in v] for a_, v in par._deblend_label_map.items()}
            if not np.array_equal(par.data, ser.data) or dm_s != dm_p or par.data.dtype != ser.data.dtype:
                rep.violation('schedule-dependent', f'output differs between nproc=1 and completion order {used}',
                              dict(replay, order=used))
                break
        # model
        child_toks = ' '.join(f'{lab}:' + ('none' if c is None else ','.join(str(int(v)) for v in c.ravel()))
                              for lab, c in D.items()) or '-'
        n = img.size
        seg_toks = ' '.join(str(int(v)) for v in segm.data.ravel())
        lab_toks = '-' if labels_arg is None else ' '.join(map(str, labels_arg))
        exp_dm = ' '.join(f'{int(p)}:' + ','.join(str(int(c)) for c in v) for p, v in ser._deblend_label_map.items()) or '-'
        exp = 'ok | ' + ' '.join(str(int(v)) for v in ser.data.ravel()) + ' | ' + exp_dm
        for od in [None] + [o for o in used_orders if o is not None][:2]:
            otok = '-' if od is None else ' '.join(map(str, od))
            lines.append(f'deblend {n} {npix} {int(params["relabel"])} | {seg_toks} | {lab_toks} | {otok} | {child_toks}')
            exps.append(exp)
            metas.append(replay)
    if thorough:
        real_pool(rep, r, 6)
    dtype_correspondence(rep, drv, r, 60 * scale)
    out = drv.run(lines)
    if out is None:
        rep.tie_broken('model driver failed', drv.error)
        return
    nb = 0
    for ln, o, e, m in zip(lines, out, exps, metas):
        rep.traces += 1
        if o != e:
            nb += 1
            if nb <= 3:
                rep.tie_broken('Lean merge model and deblend_sources disagree',
                               {'op': ln[:200], 'model': o[:300], 'impl': e[:300], 'case': {'params': m['params'], 'labels': m['labels']}})


def real_pool(rep, r, n):
    """thorough: the real spawn-based ProcessPoolExecutor"""
    from photutils.segmentation import detect_sources, deblend_sources
    for _ in range(n):
        img = make_scene(r)
        with warnings.catch_warnings():
            warnings.simplefilter('ignore')
            segm = detect_sources(img, 2.0, npixels=5)
            if segm is None:
                continue
            a = deblend_sources(img, segm, npixels=5, nproc=1, progress_bar=False)
            b = deblend_sources(img, segm, npixels=5, nproc=r.choice([2, 4]), progress_bar=False)
        rep.count('real-pool-runs')
        if not np.array_equal(a.data, b.data):
            rep.violation('schedule-dependent:real-pool', 'output differs between nproc=1 and the real process pool',
                          {'image': img.tolist()})


def replay(rep, data):
    run(rep, 'quick')
