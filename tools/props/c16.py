"""C16 — ApertureStats values equal direct statistics of the aperture pixel set (DESIGN §5 C16)."""
import math
import warnings
from fractions import Fraction as F

import numpy as np

import gens
from common import Driver, prove, q, rng
from props.c01 import gen_aperture, make_aperture

PROP_MODULES = ['PhotVerif.Props.C16']


def close(a, b, rel=1e-10, scale=1.0):
    a, b = float(a), float(b)
    if math.isnan(a) or math.isnan(b):
        return math.isnan(a) and math.isnan(b)
    if math.isinf(a) or math.isinf(b):
        return a == b
    return abs(a - b) <= rel * max(scale, abs(a), abs(b))


def gen_case(r, k):
    ny, nx = gens.size(r, 2, 10), gens.size(r, 2, 10)
    kind, p = gen_aperture(r, boundary=(k % 3 == 0))
    t = r.random()
    if t < 0.5:
        p['cx'], p['cy'] = r.randint(0, 2 * (nx - 1)) / 2, r.randint(0, 2 * (ny - 1)) / 2
    elif t < 0.85:
        p['cx'] = r.choice([-1.0, -0.5, 0.0, 0.5, nx - 1.0, nx - 0.5, nx + 0.0])
        p['cy'] = r.choice([-1.0, -0.5, 0.0, 0.5, ny - 1.0, ny - 0.5, ny + 0.0])
    else:
        p['cx'], p['cy'] = r.choice([-20.0, nx + 15.5]), r.choice([-17.5, ny + 30.0])
    p['size'] = r.choice([0.25, 0.5, 1.0, 1.5, 2.0, 2.5, 3.0])
    data = gens.image(r, ny, nx, special=0.3, palette=0.4)
    mask = gens.mask(r, ny, nx)
    err = gens.error_map(r, ny, nx)
    lb = r.choice([0.0, 0.0, 0.5, -1.25])
    method = r.choice(['center', 'subpixel', 'exact'])
    sub = r.choice([1, 2, 4])
    return dict(kind=kind, p=p, ny=ny, nx=nx, data=data, mask=mask, err=err, lb=lb, method=method, sub=sub)


def replay_of(c):
    return {'kind': c['kind'], 'params': c['p'], 'data': c['data'].tolist(),
            'mask': None if c['mask'] is None else c['mask'].astype(int).tolist(),
            'error': None if c['err'] is None else c['err'].tolist(), 'local_bkg': c['lb'], 'sum_method': c['method'],
            'subpixels': c['sub']}


def run(rep, tier):
    from photutils.aperture import ApertureStats, aperture_photometry
    thorough = tier == 'thorough'
    scale = 20 if thorough else 1
    rep.rule = ('random dyadic images with NaN/inf, masks, error maps, 6 aperture classes, positions inside / overhanging each edge / off-image, '
                'scalar local background, 3 sum methods; ApertureStats vs the Lean model (pixel multiset statistics, sum-method sum/area, centroid) '
                'and vs aperture_photometry/area_overlap and direct numpy statistics. Non-trivial = aperture overlaps the image and at least one pixel is excluded.')
    rep.assumptions += ['sigma clipping is a parameter of the model (clip masks supplied by astropy SigmaClip on the same multiset)',
                        'std / mad_std / biweight statistics are computed by numpy/astropy on the model multiset (not in Lean)',
                        'sky apertures: WCS transform is a parameter (probed via to_pixel)']
    rep.lean = prove(PROP_MODULES)
    if not rep.lean.ok:
        scale *= 3
    r = rng('C16')
    drv = Driver()
    lines, checks = [], []
    for k in range(200 * scale):
        c = gen_case(r, k)
        ap = make_aperture(c['kind'], c['p'])
        try:
            with warnings.catch_warnings():
                warnings.simplefilter('ignore')
                st = ApertureStats(c['data'], ap, error=c['err'], mask=c['mask'], local_bkg=c['lb'], sum_method=c['method'],
                                   subpixels=c['sub'])
                vals = {nm: float(np.asarray(getattr(getattr(st, nm), 'value', getattr(st, nm)))) for nm in
                        ['sum', 'sum_err', 'sum_aper_area', 'center_aper_area', 'min', 'max', 'mean', 'median', 'std', 'var',
                         'mad_std', 'biweight_location', 'xcentroid', 'ycentroid']}
                mc = ap.to_mask(method='center')
                ms = ap.to_mask(method=c['method'], subpixels=c['sub'])
        except Exception as e:
            rep.violation(f'aperturestats-raises:{type(e).__name__}', f'ApertureStats raised {e!r}', replay_of(c))
            continue
        bb = mc.bbox
        if not (np.isfinite(np.asarray(ms.data)).all() and np.isfinite(np.asarray(mc.data)).all()):
            # non-finite aperture weights are a C01 matter (known finding F20: exact ellipse tangent to a pixel edge)
            rep.count('skipped:non-finite-aperture-weight (C01)')
            continue
        # (S) direct statistics of the centre pixel set
        img_c = mc.to_image((c['ny'], c['nx']))
        good = None
        if img_c is not None:
            good = (img_c > 0) & np.isfinite(c['data'])
            if c['mask'] is not None:
                good &= ~c['mask']
        pix = c['data'][good] - c['lb'] if good is not None and good.any() else np.array([])
        overlap = img_c is not None
        rep.case((c['kind'], tuple(sorted(c['p'].items())), c['data'].tobytes(), c['method'], c['lb']),
                 overlap and pix.size > 0 and pix.size < img_c.size,
                 kind=f'{c["kind"]}:{c["method"]}:' + ('overlap' if overlap else 'no-overlap'),
                 sample={'kind': c['kind'], 'params': c['p'], 'shape': [c['ny'], c['nx']], 'npix': int(pix.size)})
        bad = None
        if pix.size == 0:
            for nm in ['min', 'max', 'mean', 'median', 'std', 'var', 'xcentroid', 'ycentroid', 'center_aper_area']:
                if not math.isnan(vals[nm]):
                    bad = (nm, vals[nm], 'nan')
                    break
        else:
            from astropy.stats import mad_std, biweight_location
            exp = {'min': pix.min(), 'max': pix.max(), 'mean': pix.mean(), 'median': np.median(pix), 'std': pix.std(),
                   'var': pix.var(), 'mad_std': mad_std(pix), 'biweight_location': biweight_location(pix),
                   'center_aper_area': float(good.sum())}
            for nm, ev in exp.items():
                if not close(vals[nm], ev, rel=1e-9, scale=1.0):
                    bad = (nm, vals[nm], float(ev))
                    break
            if bad is None:
                yy, xx = np.mgrid[0:c['ny'], 0:c['nx']]
                w = np.where(good, c['data'] - c['lb'], 0.0)
                m00 = w.sum()
                if m00 != 0:
                    ex, ey = (w * xx).sum() / m00, (w * yy).sum() / m00
                    if not (close(vals['xcentroid'], ex, 1e-9) and close(vals['ycentroid'], ey, 1e-9)):
                        tag = 'overhang-low-edge' if (bb.ixmin < 0 or bb.iymin < 0) else 'other'
                        bad = (f'centroid:{tag}', (vals['xcentroid'], vals['ycentroid']), (float(ex), float(ey)))
                    else:
                        # moment-based shape values: second central moments about the centroid, normalised by the total
                        sx2, sy2 = (w * (xx - ex) ** 2).sum() / m00, (w * (yy - ey) ** 2).sum() / m00
                        sxy = (w * (xx - ex) * (yy - ey)).sum() / m00
                        det = sx2 * sy2 - sxy ** 2
                        sc2 = max(1.0, abs(sx2), abs(sy2))
                        if det > 1.0 / 144 + 1e-6 and sx2 > 0 and sy2 > 0:          # no "thin source" regularisation applies
                            with warnings.catch_warnings():
                                warnings.simplefilter('ignore')
                                got = [float(np.asarray(getattr(st, nm).value)) for nm in ('covar_sigx2', 'covar_sigy2', 'covar_sigxy')]
                                orient = float(np.asarray(st.orientation.value))
                            rep.count('shape-oracle')
                            if not (close(got[0], sx2, 1e-8, sc2) and close(got[1], sy2, 1e-8, sc2) and close(got[2], sxy, 1e-8, sc2)):
                                bad = ('covariance', got, [float(sx2), float(sy2), float(sxy)])
                            elif abs(sx2 - sy2) > 1e-6 * sc2 or abs(sxy) > 1e-6 * sc2:
                                eo = 0.5 * math.degrees(math.atan2(2 * sxy, sx2 - sy2))
                                if abs(((orient - eo) + 90.0) % 180.0 - 90.0) > 1e-6:
                                    bad = ('orientation', orient, eo)
                            if bad is None:
                                # the eigen-derived columns: semi-axes = square roots of the eigenvalues of that covariance matrix
                                # (seed C16-r12 used a closed form with half the off-diagonal term)
                                tr_, rt_ = 0.5 * (sx2 + sy2), math.hypot(0.5 * (sx2 - sy2), sxy)
                                l1, l2 = tr_ + rt_, tr_ - rt_
                                if l2 > 1e-9 * sc2:
                                    with warnings.catch_warnings():
                                        warnings.simplefilter('ignore')
                                        g_ = {nm: float(np.asarray(getattr(getattr(st, nm), 'value', getattr(st, nm)))) for nm in ('semimajor_sigma', 'semiminor_sigma', 'elongation', 'eccentricity')}
                                    e_ = {'semimajor_sigma': math.sqrt(l1), 'semiminor_sigma': math.sqrt(l2), 'elongation': math.sqrt(l1 / l2), 'eccentricity': math.sqrt(max(0.0, 1 - l2 / l1))}
                                    for nm in e_:
                                        if not close(g_[nm], e_[nm], 1e-7, max(1.0, abs(e_[nm]))):
                                            bad = (nm, g_[nm], e_[nm])
                                            break
        if bad:
            rep.violation(f'stat-ne-direct:{bad[0]}', f'ApertureStats.{bad[0]} = {bad[1]} but the direct statistic of the aperture '
                          f'pixel set is {bad[2]}', replay_of(c))
            continue
        # (S) sum / sum_err / sum_aper_area vs aperture_photometry and area_overlap when some unmasked pixel has positive weight
        fin_mask = ~np.isfinite(c['data'])
        if c['mask'] is not None:
            fin_mask |= c['mask']
        with warnings.catch_warnings():
            warnings.simplefilter('ignore')
            ph_sum, ph_err = ap.do_photometry(np.where(np.isfinite(c['data']), c['data'], 0.0) - c['lb'], error=c['err'], mask=fin_mask,
                                              method=c['method'], subpixels=c['sub'])
            ph_area = ap.area_overlap(c['data'], mask=fin_mask, method=c['method'], subpixels=c['sub'])
        img_s = ms.to_image((c['ny'], c['nx']))
        anypos = img_s is not None and bool(((img_s > 0) & ~fin_mask).any())
        if img_s is not None and bool(((img_s < 0) | ~np.isfinite(img_s)).any()):
            # aperture weights outside [0, 1] are a C01 matter (known finding F20: degenerate ellipse / pixel-grid contact), not a
            # statement about the statistics of the aperture pixel set
            rep.count('skipped:weights-outside-[0,1] (C01, F20)')
            continue
        if not anypos:
            # no overlap, or no unmasked pixel with positive weight: NaN, never a number
            for nm in ['sum', 'sum_aper_area'] + (['sum_err'] if c['err'] is not None else []):
                if not math.isnan(vals[nm]):
                    rep.violation(f'no-unmasked-pixel-not-nan:{nm}', f'ApertureStats.{nm} = {vals[nm]} for an aperture without any unmasked pixel of '
                                  f'positive weight (must be NaN)', replay_of(c))
                    break
        if anypos:
            if not close(vals['sum'], ph_sum[0], rel=1e-9, scale=1.0):
                rep.violation('sum-ne-photometry', f'ApertureStats.sum {vals["sum"]} != aperture photometry {ph_sum[0]}', replay_of(c))
                continue
            if not close(vals['sum_aper_area'], ph_area, rel=1e-9):
                centre_empty = pix.size == 0
                tag = 'no-pixel-centre-in-aperture' if centre_empty else 'other'
                rep.violation(f'area-ne-area_overlap:{tag}', f'ApertureStats.sum_aper_area {vals["sum_aper_area"]} != area_overlap {ph_area} '
                              f'although an unmasked pixel has positive weight', replay_of(c))
                continue
            if c['err'] is not None and not close(vals['sum_err'], ph_err[0], rel=1e-9):
                rep.violation('sumerr-ne-photometry', f'ApertureStats.sum_err {vals["sum_err"]} != photometry error {ph_err[0]}', replay_of(c))
                continue
        # (T) model
        wc = np.asarray(mc.data)
        ws = np.asarray(ms.data)
        hd = f'{bb.ixmin} {bb.ixmax} {bb.iymin} {bb.iymax} {c["ny"]} {c["nx"]} {q(c["lb"])}'
        lines.append(f'apstats {hd} | ' + ' '.join(q(v) for v in wc.ravel()) + ' | ' + ' '.join(q(v) for v in ws.ravel()) + ' | '
                     + gens.arr_tokens(c['data']) + ' | ' + gens.mask_tokens(c['mask']) + ' | '
                     + ('-' if c['err'] is None else gens.arr_tokens(c['err'])) + ' | - | -')
        checks.append((c, vals, overlap, pix.size))
    out = drv.run(lines)
    if out is None:
        rep.tie_broken('model driver failed', drv.error)
        out = []
    nb = 0
    for ln, o, (c, vals, overlap, npix) in zip(lines, out, checks):
        rep.traces += 1
        ok = True
        if o == 'none':
            ok = not overlap
        elif o.startswith('ok'):
            parts = [p.split() for p in o[3:].split('|')]
            st, sm, cen = parts
            if st == ['nan']:
                ok = npix == 0
            else:
                n, s_, mn, mx, mean, var, med = st
                ok = (int(n) == npix and close(float(F(mn)), vals['min']) and close(float(F(mx)), vals['max'])
                      and close(float(F(mean)), vals['mean'], 1e-9) and close(float(F(var)), vals['var'], 1e-8)
                      and close(float(F(med)), vals['median'], 1e-9))
                if c['method'] == 'center':
                    ok = ok and close(float(F(s_)), vals['sum'], 1e-9, scale=1.0)
            if ok and sm[0] != 'nan':
                ok = close(float(F(sm[0])), vals['sum'], 1e-9, scale=1.0)
            if ok:
                ok = (math.isnan(vals['sum_aper_area']) if sm[1] == 'nan'
                      else close(float(F(sm[1])), vals['sum_aper_area'], 1e-9))
            if ok and cen[0] != 'nan':
                ok = close(float(F(cen[0])), vals['xcentroid'], 1e-8) and close(float(F(cen[1])), vals['ycentroid'], 1e-8)
        else:
            ok = False
        if not ok:
            nb += 1
            if nb <= 3:
                rep.tie_broken('ApertureStats model and implementation disagree', {'op': ln[:300], 'model': o, 'impl': vals})
    sigclip_and_sky(rep, r, 25 * scale)
    thin_lines_probe(rep, r, 20 * scale)


def sigclip_and_sky(rep, r, n):
    """(S) sigma clipping, per-position local background, sky apertures, multiple positions"""
    from astropy.stats import SigmaClip
    from astropy.wcs import WCS
    import astropy.units as u
    from photutils.aperture import ApertureStats, CircularAperture, SkyCircularAperture
    for k in range(n):
        rs = np.random.RandomState(r.randrange(2 ** 31))
        img = rs.normal(10, 1, (25, 27))
        img[rs.rand(25, 27) < 0.05] += 40            # outliers to be clipped
        pos = [(r.uniform(-2, 28), r.uniform(-2, 26)) for _ in range(4)]
        if r.random() < 0.6:                         # a position with no overlap at all, ahead of overlapping ones
            pos[r.randrange(3)] = (r.choice([-30.0, 60.5]), r.uniform(-2, 26))
        lbs = rs.normal(0, 0.3, 4)
        sc = SigmaClip(sigma=3.0, maxiters=5)
        ap = CircularAperture(pos, 4.0)
        with warnings.catch_warnings():
            warnings.simplefilter('ignore')
            st = ApertureStats(img, ap, sigma_clip=sc, local_bkg=lbs)
            for i, (p, lb) in enumerate(zip(pos, lbs)):
                m = CircularAperture(p, 4.0).to_mask('center').to_image(img.shape)
                if m is None or not (m > 0).any():
                    ok = math.isnan(float(st.mean[i]))
                else:
                    pix = img[m > 0] - lb
                    clipped = sc(pix, masked=False)
                    ok = close(float(st.mean[i]), clipped.mean(), 1e-9) and close(float(st.max[i]), clipped.max(), 1e-9) \
                        and close(float(st.center_aper_area[i].value), clipped.size, 1e-12)
                if not ok:
                    rep.violation('sigclip-or-localbkg', f'position {i}: sigma-clipped statistics with per-position local background '
                                  f'differ from the direct computation', {'positions': pos, 'local_bkg': lbs.tolist()})
                    break
            # sum / sum_aper_area with fractional ('exact') weights: the clip is decided on the pixel VALUES of the pixels the aperture
            # touches, the weights are applied afterwards (seed C16-r9 clipped value x weight: on a pedestal the edge pixels look like outliers)
            for i, (p, lb) in enumerate(zip(pos, lbs)):
                wimg = CircularAperture(p, 4.0).to_mask('exact').to_image(img.shape)
                if wimg is None or not (wimg > 0).any():
                    continue
                sel = wimg > 0
                vals, wts = img[sel] - lb, wimg[sel]
                keep = ~np.ma.getmaskarray(sc(vals, masked=True))
                es, ea = float(np.sum(vals[keep] * wts[keep])), float(np.sum(wts[keep]))
                if not (close(float(st.sum[i]), es, 1e-9) and close(float(st.sum_aper_area[i].value), ea, 1e-9)):
                    rep.violation('sigclip-weighted-sum', f'position {i}: sigma-clipped sum / sum_aper_area with exact weights = {float(st.sum[i])!r} / '
                                  f'{float(st.sum_aper_area[i].value)!r}; clipping the pixel values and then applying the weights gives {es!r} / {ea!r}',
                                  {'positions': pos, 'local_bkg': lbs.tolist(), 'image': img.tolist()})
                    break
            # single == batch
            one = ApertureStats(img, CircularAperture(pos[1], 4.0), sigma_clip=sc, local_bkg=lbs[1])
            if not close(float(one.mean), float(st.mean[1]), 1e-12):
                rep.violation('batch-ne-single', 'ApertureStats for one position differs from the same row of a batch', {})
            if k % 5 == 0:
                w = WCS(naxis=2)
                w.wcs.crpix = [13, 12]
                w.wcs.cdelt = [-0.0002, 0.0002]
                w.wcs.crval = [30.0, -20.0]
                w.wcs.ctype = ['RA---TAN', 'DEC--TAN']
                sky = w.pixel_to_world(*np.transpose(pos[:2]))
                sa = SkyCircularAperture(sky, 2.9 * u.arcsec)
                a = ApertureStats(img, sa, wcs=w)
                b = ApertureStats(img, sa.to_pixel(w))
                if not np.allclose(np.asarray(a.mean, float), np.asarray(b.mean, float), equal_nan=True):
                    rep.violation('sky-ne-pixel', 'sky aperture statistics differ from its to_pixel image', {})
        rep.case(('sig', img.tobytes()), True, kind='sigclip/localbkg/sky')
        rep.probe_only += 1


def thin_lines_probe(rep, r, n):
    """(S) one-pixel-wide diagonal lines: the covariance determinant is zero mathematically and negative by round-off in a fraction of the
    cases; the shape columns are those of the regularised (+1/12 on the diagonal) covariance, never NaN (defect F75; F51 for SourceCatalog)"""
    from photutils.aperture import ApertureStats, CircularAperture
    for k in range(n):
        rs = np.random.RandomState(r.randrange(2 ** 31))
        img = np.zeros((21, 21))
        sgn, L = rs.choice([-1, 1]), rs.randint(2, 5)
        for i in range(-L, L + 1):
            img[10 + i, 10 + sgn * i] = rs.uniform(0.5, 3.0)
        pos = [(10 + rs.uniform(-0.5, 0.5), 10 + rs.uniform(-0.5, 0.5)) for _ in range(2)]
        with warnings.catch_warnings():
            warnings.simplefilter('ignore')
            st = ApertureStats(img, CircularAperture(pos, 6.5))
            cov = np.asarray(getattr(st.covariance, 'value', st.covariance), float)
            smaj = np.asarray(getattr(st.semimajor_sigma, 'value', st.semimajor_sigma), float)
        rep.case(('thin-line', img.tobytes()), True, kind='thin-diagonal-line')
        rep.probe_only += 1
        # direct second moments of the aperture pixel set (all line pixels lie inside the aperture)
        ys, xs = np.nonzero(img)
        w = img[ys, xs]
        cx, cy = (w * xs).sum() / w.sum(), (w * ys).sum() / w.sum()
        mxx, myy, mxy = (w * (xs - cx) ** 2).sum() / w.sum(), (w * (ys - cy) ** 2).sum() / w.sum(), (w * (xs - cx) * (ys - cy)).sum() / w.sum()
        want = np.array([[mxx + 1 / 12, mxy], [mxy, myy + 1 / 12]])
        for j in range(2):
            if not np.all(np.isfinite(cov[j])) or not np.isfinite(smaj[j]) or not np.allclose(cov[j], want, rtol=1e-9, atol=1e-12):
                rep.violation('thin-source-covariance', f'one-pixel-wide diagonal line: covariance {cov[j].tolist()}, semimajor_sigma {smaj[j]}; the second moments of the '
                              f'aperture pixels regularised by 1/12 are {want.tolist()}', {'image': img.tolist(), 'positions': [list(p_) for p_ in pos]})
                break


def replay(rep, data):
    run(rep, 'quick')
