"""
T-tab: extract finite tables from method bodies of /repo by AST patterns and render them as Lean data.
Each extractor fails loudly (Unsupported) if the method's shape is not the one it knows.
"""
import ast
import os

from translate import Unsupported, sha

REPO = os.environ.get('PHOTVERIF_REPO', '/repo')


def _cls_method(tree, cls, name, setter=False):
    for n in tree.body:
        if isinstance(n, ast.ClassDef) and n.name == cls:
            for m in n.body:
                if isinstance(m, ast.FunctionDef) and m.name == name:
                    is_setter = any(isinstance(d, ast.Attribute) and d.attr == 'setter' for d in m.decorator_list)
                    if is_setter == setter:
                        return m
    raise Unsupported(f'{cls}.{name} not found')


def _is_self_call(node, name):
    return (isinstance(node, ast.Expr) and isinstance(node.value, ast.Call)
            and isinstance(node.value.func, ast.Attribute) and node.value.func.attr == name
            and isinstance(node.value.func.value, ast.Name) and node.value.func.value.id == 'self')


def mutator_row(m):
    """order-sensitive skeleton of a SegmentationImage mutator:
    resets (reset call present, before the _data assignment), seeds [(key, rhs-source)] after the reset,
    update_dmap / clear_dmap"""
    events = []
    for st in ast.walk(m):
        pass
    # walk top-level and one level of `if` bodies in statement order
    def visit(stmts, cond):
        for st in stmts:
            if _is_self_call(st, '_reset_lazyproperties'):
                events.append(('reset', cond))
            elif _is_self_call(st, '_update_deblend_label_map'):
                events.append(('update_dmap', ast.unparse(st.value.args[0])))
            elif isinstance(st, ast.Assign) and len(st.targets) == 1:
                t = st.targets[0]
                if isinstance(t, ast.Attribute) and isinstance(t.value, ast.Name) and t.value.id == 'self' \
                        and t.attr == '_data':
                    events.append(('set_data', ast.unparse(st.value)))
                elif isinstance(t, ast.Attribute) and isinstance(t.value, ast.Name) and t.value.id == 'self' \
                        and t.attr == '_deblend_label_map':
                    events.append(('clear_dmap', ast.unparse(st.value)))
                elif isinstance(t, ast.Subscript) and isinstance(t.value, ast.Attribute) \
                        and t.value.attr == '__dict__' and isinstance(t.slice, ast.Constant):
                    if t.slice.value == '_deblend_label_map':
                        events.append(('clear_dmap', ast.unparse(st.value)))
                    else:
                        events.append(('seed', t.slice.value, ast.unparse(st.value), cond))
            elif isinstance(st, ast.If):
                visit(st.body, ast.unparse(st.test))
                visit(st.orelse, 'not ' + ast.unparse(st.test))
    visit(m.body, '')
    kinds = [e[0] for e in events]
    if 'set_data' not in kinds:
        raise Unsupported(f'{m.name}: no assignment to self._data')
    i_set = kinds.index('set_data')
    resets = 'reset' in kinds[:i_set]
    late_reset = 'reset' in kinds[i_set + 1:]
    seeds = [(e[1], e[2], e[3]) for e in events if e[0] == 'seed']
    seeds_before_reset = False
    if 'reset' in kinds:
        i_r = kinds.index('reset')
        seeds_before_reset = any(k == 'seed' for k in kinds[:i_r])
    return {
        'resets': resets and not late_reset and not seeds_before_reset,
        'reset_cond': next((e[1] for e in events if e[0] == 'reset'), ''),
        'seeds': seeds,
        'update_dmap': [e[1] for e in events if e[0] == 'update_dmap'],
        'clear_dmap': [e[1] for e in events if e[0] == 'clear_dmap'],
        'data_expr': events[i_set][1],
    }


def lean_str(s):
    return '"' + s.replace('\\', '\\\\').replace('"', '\\"') + '"'


def gen_segm_table():
    path = os.path.join(REPO, 'photutils/segmentation/core.py')
    src = open(path).read()
    tree = ast.parse(src)
    rows = {
        'reassign': mutator_row(_cls_method(tree, 'SegmentationImage', 'reassign_labels')),
        'relabel': mutator_row(_cls_method(tree, 'SegmentationImage', 'relabel_consecutive')),
        'setter': mutator_row(_cls_method(tree, 'SegmentationImage', 'data', setter=True)),
    }
    # delegation skeleton: which public mutators funnel into reassign_labels
    deleg = {}
    for name in ['reassign_label', 'keep_label', 'keep_labels', 'remove_label', 'remove_labels',
                 'remove_border_labels', 'remove_masked_labels']:
        m = _cls_method(tree, 'SegmentationImage', name)
        calls = [c.func.attr for c in ast.walk(m) if isinstance(c, ast.Call) and isinstance(c.func, ast.Attribute)
                 and isinstance(c.func.value, ast.Name) and c.func.value.id == 'self']
        writes = [t for a in ast.walk(m) if isinstance(a, ast.Assign) for t in a.targets
                  if isinstance(t, ast.Attribute) and isinstance(t.value, ast.Name) and t.value.id == 'self']
        deleg[name] = {'calls': calls, 'writes_self': [ast.unparse(w) for w in writes]}
    # labels property: does it read _raw_slices when cached?
    lab = _cls_method(tree, 'SegmentationImage', 'labels')
    labels_uses_raw = any(isinstance(c, ast.Compare) and isinstance(c.left, ast.Constant)
                          and c.left.value == '_raw_slices' for c in ast.walk(lab))
    out = ('/- GENERATED by tools/extract_tables.py from photutils/segmentation/core.py '
           f'(sha256/16 {sha(src)}). DO NOT EDIT. -/\n'
           'import PhotVerif.Model.Prelude\nnamespace PhotVerif.Gen.SegmTable\n\n'
           'structure MutRow where\n  resets : Bool\n  resetCond : String\n'
           '  seeds : List (String × String × String)\n  updateDmap : List String\n'
           '  clearDmap : List String\n  dataExpr : String\nderiving DecidableEq, Repr\n\n')
    for k, r in rows.items():
        seeds = ', '.join(f'({lean_str(a)}, {lean_str(b)}, {lean_str(c)})' for a, b, c in r['seeds'])
        out += (f'def {k}Row : MutRow := {{ resets := {"true" if r["resets"] else "false"}, '
                f'resetCond := {lean_str(r["reset_cond"])}, seeds := [{seeds}], '
                f'updateDmap := [{", ".join(lean_str(x) for x in r["update_dmap"])}], '
                f'clearDmap := [{", ".join(lean_str(x) for x in r["clear_dmap"])}], '
                f'dataExpr := {lean_str(r["data_expr"])} }}\n\n')
    out += 'def delegation : List (String × List String × List String) := [\n'
    out += ',\n'.join(f'  ({lean_str(k)}, [{", ".join(lean_str(c) for c in v["calls"])}], '
                      f'[{", ".join(lean_str(c) for c in v["writes_self"])}])' for k, v in deleg.items())
    out += ']\n\n'
    out += f'def labelsReadsRawWhenCached : Bool := {"true" if labels_uses_raw else "false"}\n\n'
    # _update_deblend_label_map: are removed (0) children dropped, and parents left without children?
    upd = _cls_method(tree, 'SegmentationImage', '_update_deblend_label_map')
    drops_zero = any(isinstance(c, ast.Compare) and len(c.ops) == 1 and isinstance(c.ops[0], ast.NotEq)
                     and isinstance(c.comparators[0], ast.Constant) and c.comparators[0].value == 0
                     for c in ast.walk(upd))
    drops_empty = any(isinstance(i, ast.If) and isinstance(i.test, ast.Compare)
                      and isinstance(i.test.left, ast.Call) and getattr(i.test.left.func, 'id', '') == 'len'
                      and isinstance(i.test.ops[0], ast.Gt) for i in ast.walk(upd))
    indexes_relabel = any(isinstance(sub, ast.Subscript) and isinstance(sub.value, ast.Name)
                          and sub.value.id == 'relabel_map' for sub in ast.walk(upd))
    out += f'def dmapDropsZero : Bool := {"true" if drops_zero else "false"}\n'
    out += f'def dmapDropsEmpty : Bool := {"true" if drops_empty else "false"}\n'
    out += f'def dmapUsesRelabelMap : Bool := {"true" if indexes_relabel else "false"}\n\n'
    out += 'end PhotVerif.Gen.SegmTable\n'
    return 'SegmTable.lean', src, out


# ------------------------------------------------------------------ Background2D resource lifetime
def _bkg_events(tree, method, depth=0):
    """ordered events of one Background2D method: ('use', res, selective) / ('drop', res, guard_keys, or_thr_none, selective)"""
    RES = {'_bkg_stats': 0, '_bkgrms_stats': 1}
    KEYS = {'background_mesh': 0, 'background_rms_mesh': 1}
    if depth > 3:
        raise Unsupported('Background2D: inlining too deep')
    m = _cls_method(tree, 'Background2D', method)
    events = []

    def guard_of(test):
        parts = test.values if isinstance(test, ast.BoolOp) and isinstance(test.op, ast.Or) else [test]
        keys, thr = [], False
        for p in parts:
            if isinstance(p, ast.Compare) and len(p.ops) == 1 and isinstance(p.ops[0], ast.In) \
                    and isinstance(p.left, ast.Constant) and p.left.value in KEYS:
                keys.append(KEYS[p.left.value])
            elif isinstance(p, ast.Compare) and len(p.ops) == 1 and isinstance(p.ops[0], ast.Is) \
                    and isinstance(p.left, ast.Attribute) and p.left.attr == 'filter_threshold' \
                    and isinstance(p.comparators[0], ast.Constant) and p.comparators[0].value is None:
                thr = True
            else:
                raise Unsupported(f'Background2D.{method}: unrecognised drop guard {ast.unparse(test)}')
        return keys, thr

    def expr_events(node, selective):
        found = []
        for x in ast.walk(node):
            if isinstance(x, ast.Attribute) and isinstance(x.value, ast.Name) and x.value.id == 'self' \
                    and x.attr in RES and isinstance(x.ctx, ast.Load):
                found.append((x.lineno, x.col_offset, [('use', RES[x.attr], selective)]))
            if isinstance(x, ast.Call) and isinstance(x.func, ast.Attribute) and isinstance(x.func.value, ast.Name) \
                    and x.func.value.id == 'self' and x.func.attr in ('_filter_grid', '_selective_filter'):
                sub = _bkg_events(tree, x.func.attr, depth + 1)
                sub = [(e[0], e[1], *(e[2:-1]), e[-1] or selective) for e in sub]
                # the call happens after its arguments are evaluated: position it at the closing paren
                found.append((x.end_lineno, x.end_col_offset, sub))
        found.sort(key=lambda t: (t[0], t[1]))
        out = []
        for _, _, ev in found:
            out.extend(ev)
        return out

    def visit(stmts, selective, guard):
        for st in stmts:
            if isinstance(st, ast.If):
                # value of the test itself
                events.extend(expr_events(st.test, selective))
                mentions_thr = any(isinstance(x, ast.Attribute) and x.attr == 'filter_threshold' for x in ast.walk(st.test))
                only_drops = all(isinstance(b, ast.Assign) and isinstance(b.value, ast.Constant) and b.value.value is None
                                 for b in st.body)
                if only_drops and not st.orelse:
                    g = guard_of(st.test)
                    visit(st.body, selective, g)
                elif method == '_filter_grid' and mentions_thr:
                    visit(st.body, selective, guard)          # generic-filter branch
                    visit(st.orelse, True, guard)             # selective branch
                else:
                    visit(st.body, selective, guard)
                    visit(st.orelse, selective, guard)
            elif isinstance(st, ast.Assign) and len(st.targets) == 1 and isinstance(st.targets[0], ast.Attribute) \
                    and isinstance(st.targets[0].value, ast.Name) and st.targets[0].value.id == 'self' \
                    and st.targets[0].attr in RES:
                if not (isinstance(st.value, ast.Constant) and st.value.value is None):
                    raise Unsupported(f'Background2D.{method}: resource reassigned to non-None')
                gk, thr = guard if guard else ([], False)
                events.append(('drop', RES[st.targets[0].attr], gk, thr, selective))
            elif isinstance(st, (ast.For, ast.While, ast.With)):
                events.extend(expr_events(st, selective))
            else:
                events.extend(expr_events(st, selective))
    visit(m.body, False, None)
    return events


def gen_bkg2d_table():
    path = os.path.join(REPO, 'photutils/background/background_2d.py')
    src = open(path).read()
    tree = ast.parse(src)
    rows = {'bkgMeshSteps': _bkg_events(tree, 'background_mesh'),
            'rmsMeshSteps': _bkg_events(tree, 'background_rms_mesh')}
    out = ('/- GENERATED by tools/extract_tables.py from photutils/background/background_2d.py '
           f'(sha256/16 {sha(src)}). DO NOT EDIT. -/\n'
           'import PhotVerif.Model.Lazy\nnamespace PhotVerif.Gen.Bkg2DTable\n\n'
           '/-- one event of a lazy read: use / drop of resource `res` (0 = _bkg_stats, 1 = _bkgrms_stats);\n'
           '    `onlySelective`: happens only on the selective-filter path; drop guard = any of `guardKeys` cached\n'
           '    (0 = background_mesh, 1 = background_rms_mesh) or (`orThrNone` and filter_threshold is None) -/\n'
           'structure Step where\n  isDrop : Bool\n  res : Nat\n  onlySelective : Bool\n  guardKeys : List Nat\n'
           '  orThrNone : Bool\n  unconditional : Bool\nderiving DecidableEq, Repr\n\n')
    for name, evs in rows.items():
        items = []
        for e in evs:
            if e[0] == 'use':
                items.append(f'⟨false, {e[1]}, {"true" if e[2] else "false"}, [], false, true⟩')
            else:
                uncond = (not e[2]) and (not e[3])
                items.append(f'⟨true, {e[1]}, {"true" if e[4] else "false"}, {e[2]}, '
                             f'{"true" if e[3] else "false"}, {"true" if uncond else "false"}⟩')
        out += f'def {name} : List Step := [{", ".join(items)}]\n\n'
    out += 'end PhotVerif.Gen.Bkg2DTable\n'
    return 'Bkg2DTable.lean', src, out


# ------------------------------------------------------------------ profile normalisation
def gen_profile_table():
    p1 = os.path.join(REPO, 'photutils/profiles/core.py')
    p2 = os.path.join(REPO, 'photutils/profiles/radial_profile.py')
    src1, src2 = open(p1).read(), open(p2).read()
    t1, t2 = ast.parse(src1), ast.parse(src2)
    KEYS = ['profile', 'profile_error', 'data_profile']

    def rescaled(method, factor_name, op):
        m = _cls_method(t1, 'ProfileBase', method)
        found = {}

        def visit(stmts, cond_key):
            for st in stmts:
                if isinstance(st, ast.If):
                    ck = None
                    t = st.test
                    if isinstance(t, ast.Compare) and isinstance(t.left, ast.Constant) and t.left.value in KEYS \
                            and isinstance(t.ops[0], ast.In):
                        ck = t.left.value
                    visit(st.body, ck if ck else cond_key)
                    visit(st.orelse, cond_key)
                elif isinstance(st, ast.Assign) and len(st.targets) == 1:
                    tg = st.targets[0]
                    if isinstance(tg, ast.Subscript) and isinstance(tg.value, ast.Attribute) \
                            and tg.value.attr == '__dict__' and isinstance(tg.slice, ast.Constant) \
                            and tg.slice.value in KEYS:
                        key = tg.slice.value
                        v = st.value
                        ok = (isinstance(v, ast.BinOp) and isinstance(v.op, op)
                              and isinstance(v.left, ast.Attribute) and v.left.attr == key
                              and ast.unparse(v.right) in (factor_name, 'self.' + factor_name))
                        if not ok:
                            raise Unsupported(f'ProfileBase.{method}: unexpected rescale of {key}: {ast.unparse(v)}')
                        if cond_key not in (None, key):
                            raise Unsupported(f'ProfileBase.{method}: {key} guarded by {cond_key}')
                        found[key] = (cond_key is None)
        visit(m.body, None)
        return found
    norm = rescaled('normalize', 'normalization', ast.Div)
    unnorm = rescaled('unnormalize', 'normalization_value', ast.Mult)
    mnorm = _cls_method(t1, 'ProfileBase', 'normalize')
    accumulates = any(isinstance(x, ast.AugAssign) and isinstance(x.op, ast.Mult) and isinstance(x.target, ast.Attribute)
                      and x.target.attr == 'normalization_value' for x in ast.walk(mnorm))
    munn = _cls_method(t1, 'ProfileBase', 'unnormalize')
    resets_last = False
    if munn.body:
        last = munn.body[-1]
        resets_last = (isinstance(last, ast.Assign) and isinstance(last.targets[0], ast.Attribute)
                       and last.targets[0].attr == 'normalization_value' and isinstance(last.value, ast.Constant)
                       and last.value.value == 1.0)
    applies = {}
    for key in KEYS:
        try:
            m = _cls_method(t2, 'RadialProfile', key)
        except Unsupported:
            applies[key] = False
            continue
        rets = [r for r in ast.walk(m) if isinstance(r, ast.Return)]
        applies[key] = any('normalization_value' in ast.unparse(r.value) for r in rets if r.value is not None)
    out = ('/- GENERATED by tools/extract_tables.py from photutils/profiles/{core,radial_profile}.py '
           f'(sha256/16 {sha(src1 + src2)}). DO NOT EDIT. -/\n'
           'import PhotVerif.Model.Prelude\nnamespace PhotVerif.Gen.ProfileTable\n\n'
           '/-- per cached array (0 profile, 1 profile_error, 2 data_profile):\n'
           '    inNormalize/inUnnormalize: is it rescaled there at all; uncond*: rescaled unconditionally (forcing a first read)\n'
           '    rather than only "if cached"; firstReadAppliesNorm: the lazy property divides by normalization_value -/\n'
           'structure Row where\n  inNormalize : Bool\n  uncondNormalize : Bool\n  inUnnormalize : Bool\n'
           '  uncondUnnormalize : Bool\n  firstReadAppliesNorm : Bool\nderiving DecidableEq, Repr\n\n')
    rows = []
    for key in KEYS:
        b = lambda v: 'true' if v else 'false'
        rows.append(f'⟨{b(key in norm)}, {b(norm.get(key, False))}, {b(key in unnorm)}, {b(unnorm.get(key, False))}, '
                    f'{b(applies[key])}⟩')
    out += 'def rows : List Row := [' + ', '.join(rows) + ']\n\n'
    out += f'def normalizeAccumulates : Bool := {"true" if accumulates else "false"}\n'
    out += f'def unnormalizeResetsLast : Bool := {"true" if resets_last else "false"}\n\n'
    out += 'end PhotVerif.Gen.ProfileTable\n'
    return 'ProfileTable.lean', src1 + src2, out


# ------------------------------------------------------------------ configuration written during calls
def _attr_writes(func):
    """names X of all `self.X = ...` / `self.X op= ...` targets in a function"""
    out = set()
    for x in ast.walk(func):
        tgts = []
        if isinstance(x, ast.Assign):
            tgts = x.targets
        elif isinstance(x, (ast.AugAssign, ast.AnnAssign)):
            tgts = [x.target]
        for t in tgts:
            for y in ast.walk(t):
                if isinstance(y, ast.Attribute) and isinstance(y.value, ast.Name) and y.value.id == 'self' \
                        and isinstance(y.ctx, ast.Store):
                    out.add(y.attr)
    return out


def gen_config_writes():
    """for classes whose instances are called repeatedly: attributes assigned in __init__ (configuration),
    attributes reset at the start of each call, attributes written by any other method"""
    specs = [('photutils/psf/photometry.py', 'PSFPhotometry', '_reset_results'),
             ('photutils/psf/photometry.py', 'IterativePSFPhotometry', '_reset_results')]
    allsrc = ''
    out_rows = []
    for rel, cls, reset in specs:
        src = open(os.path.join(REPO, rel)).read()
        allsrc += src
        tree = ast.parse(src)
        cnode = next(n for n in tree.body if isinstance(n, ast.ClassDef) and n.name == cls)
        meths = {m.name: m for m in cnode.body if isinstance(m, ast.FunctionDef)}
        if '__init__' not in meths or reset not in meths:
            raise Unsupported(f'{cls}: __init__ or {reset} missing')
        init_w = _attr_writes(meths['__init__'])
        reset_w = _attr_writes(meths[reset])
        other_w = set()
        for name, m in meths.items():
            if name in ('__init__', reset):
                continue
            other_w |= _attr_writes(m)
        call = meths.get('__call__')
        calls_reset = call is not None and any(_is_self_call(st, reset) for st in call.body)
        out_rows.append((cls, sorted(init_w), sorted(reset_w), sorted(other_w), calls_reset))
    out = ('/- GENERATED by tools/extract_tables.py (configuration attributes written outside __init__) '
           f'(sha256/16 {sha(allsrc)}). DO NOT EDIT. -/\n'
           'import PhotVerif.Model.Prelude\nnamespace PhotVerif.Gen.ConfigWrites\n\n'
           'structure ClassRow where\n  name : String\n  initAttrs : List String\n  resetAttrs : List String\n'
           '  writtenElsewhere : List String\n  callResetsFirst : Bool\nderiving DecidableEq, Repr\n\n')
    for cls, a, b, c, d in out_rows:
        ls = lambda l: '[' + ', '.join(lean_str(x) for x in l) + ']'
        out += (f'def row{cls} : ClassRow := {{ name := {lean_str(cls)}, initAttrs := {ls(a)}, resetAttrs := {ls(b)}, '
                f'writtenElsewhere := {ls(c)}, callResetsFirst := {"true" if d else "false"} }}\n\n')
    out += 'end PhotVerif.Gen.ConfigWrites\n'
    return 'ConfigWrites.lean', allsrc, out


# ------------------------------------------------------------------ catalogue slicing (__getitem__)
INPLACE_METHODS = {'append', 'extend', 'insert', 'remove', 'pop', 'clear', 'update', 'sort', 'reverse', 'setdefault',
                   'popitem', 'add', 'discard'}


def _inplace_mutated_attrs(cnode):
    """attributes X for which some method does self.X.append(..) / self.X[...] = .. / self.X += .. / del self.X[..]"""
    out = set()
    init = next((m for m in cnode.body if isinstance(m, ast.FunctionDef) and m.name == '__init__'), None)
    ctor_only = {'__init__'}
    if init is not None:      # helpers called by the constructor run before any slice exists
        ctor_only |= {c.func.attr for c in ast.walk(init) if isinstance(c, ast.Call) and isinstance(c.func, ast.Attribute)
                      and isinstance(c.func.value, ast.Name) and c.func.value.id == 'self' and c.func.attr.startswith('_')}
    for m in cnode.body:
        if not isinstance(m, ast.FunctionDef) or m.name in ctor_only:
            continue
        for x in ast.walk(m):
            if isinstance(x, ast.Call) and isinstance(x.func, ast.Attribute) and x.func.attr in INPLACE_METHODS:
                b = x.func.value
                if isinstance(b, ast.Attribute) and isinstance(b.value, ast.Name) and b.value.id == 'self':
                    out.add(b.attr)
            tg = []
            if isinstance(x, ast.Assign):
                tg = x.targets
            elif isinstance(x, ast.AugAssign):
                tg = [x.target]
                if isinstance(x.target, ast.Attribute) and isinstance(x.target.value, ast.Name) \
                        and x.target.value.id == 'self':
                    pass   # rebinding for immutables, in place for lists: treated below only for subscripts
            elif isinstance(x, ast.Delete):
                tg = x.targets
            for t in tg:
                if isinstance(t, ast.Subscript):
                    b = t.value
                    if isinstance(b, ast.Attribute) and isinstance(b.value, ast.Name) and b.value.id == 'self':
                        out.add(b.attr)
    return out


def gen_catslice_table():
    specs = [('photutils/segmentation/catalog.py', 'SourceCatalog'), ('photutils/aperture/stats.py', 'ApertureStats')]
    allsrc = ''
    rows = []
    for rel, cls in specs:
        src = open(os.path.join(REPO, rel)).read()
        allsrc += src
        tree = ast.parse(src)
        cnode = next(n for n in tree.body if isinstance(n, ast.ClassDef) and n.name == cls)
        gi = next(m for m in cnode.body if isinstance(m, ast.FunctionDef) and m.name == '__getitem__')
        init_attr = None
        for x in ast.walk(gi):
            if isinstance(x, ast.Assign) and isinstance(x.targets[0], ast.Name) and x.targets[0].id == 'init_attr':
                init_attr = [e.value for e in x.value.elts]
        if init_attr is None:
            raise Unsupported(f'{cls}.__getitem__: init_attr tuple not found')
        # attributes given a fresh copy in __getitem__: newcls.X = <expr>.copy() / list(..) / dict(..)
        # (only UNCONDITIONAL statements of the method body count: a copy made under an `if` leaves the object shared on the other branch -
        # seed C08-r9 copied the registry only when it was non-empty)
        copied = set()
        for x in gi.body:
            if isinstance(x, ast.Assign) and isinstance(x.targets[0], ast.Attribute) \
                    and isinstance(x.targets[0].value, ast.Name) and x.targets[0].value.id == 'newcls':
                v = x.value
                if (isinstance(v, ast.Call) and isinstance(v.func, ast.Attribute) and v.func.attr in ('copy', 'deepcopy')) \
                        or (isinstance(v, ast.Call) and isinstance(v.func, ast.Name) and v.func.id in ('list', 'dict', 'deepcopy', 'copy')):
                    copied.add(x.targets[0].attr)
        mutated = _inplace_mutated_attrs(cnode)
        shared_mutated = sorted((set(init_attr) & mutated) - copied)
        # slicing rule: does the loop skip np.isscalar values, keep private values as length-1 iterables
        srcgi = ast.unparse(gi)
        skips_scalar = 'np.isscalar(value)' in srcgi
        private_len1 = "key.startswith('_')" in srcgi
        rows.append((cls, init_attr, sorted(copied), sorted(mutated & set(init_attr)), shared_mutated, skips_scalar, private_len1))
    out = ('/- GENERATED by tools/extract_tables.py (catalogue __getitem__ tables) '
           f'(sha256/16 {sha(allsrc)}). DO NOT EDIT. -/\n'
           'import PhotVerif.Model.Prelude\nnamespace PhotVerif.Gen.CatSliceTable\n\n'
           'structure Row where\n  name : String\n  initAttr : List String\n  copied : List String\n'
           '  mutatedInPlace : List String\n  sharedMutated : List String\n  skipsScalars : Bool\n  privateLen1 : Bool\n'
           'deriving DecidableEq, Repr\n\n')
    for cls, a, b, c, d, e, f in rows:
        ls = lambda l: '[' + ', '.join(lean_str(x) for x in l) + ']'
        bb = lambda v: 'true' if v else 'false'
        out += (f'def row{cls} : Row := {{ name := {lean_str(cls)}, initAttr := {ls(a)}, copied := {ls(b)}, '
                f'mutatedInPlace := {ls(c)}, sharedMutated := {ls(d)}, skipsScalars := {bb(e)}, privateLen1 := {bb(f)} }}\n\n')
    out += 'end PhotVerif.Gen.CatSliceTable\n'
    return 'CatSliceTable.lean', allsrc, out


# ------------------------------------------------------------------ centroid_sources keyword handling
def gen_centroid_table():
    path = os.path.join(REPO, 'photutils/centroids/core.py')
    src = open(path).read()
    tree = ast.parse(src)
    fn = next(n for n in tree.body if isinstance(n, ast.FunctionDef) and n.name == 'centroid_sources')
    loop = next((x for x in ast.walk(fn) if isinstance(x, ast.For)), None)
    if loop is None:
        raise Unsupported('centroid_sources: per-source loop not found')
    # names bound before the loop to a dict built from kwargs
    outer = set()
    for st in fn.body:
        if isinstance(st, ast.Assign) and isinstance(st.targets[0], ast.Name) and isinstance(st.value, (ast.DictComp, ast.Dict)):
            outer.add(st.targets[0].id)
    mutated = set()
    for x in ast.walk(loop):
        if isinstance(x, ast.Call) and isinstance(x.func, ast.Attribute) and isinstance(x.func.value, ast.Name) \
                and x.func.value.id in outer and x.func.attr in INPLACE_METHODS:
            mutated.add(x.func.value.id)
        tg = x.targets if isinstance(x, ast.Assign) else ([x.target] if isinstance(x, ast.AugAssign) else [])
        for t in tg:
            if isinstance(t, ast.Subscript) and isinstance(t.value, ast.Name) and t.value.id in outer:
                mutated.add(t.value.id)
    # the dict actually passed to the centroid function
    passed = None
    for x in ast.walk(loop):
        if isinstance(x, ast.Call) and isinstance(x.func, ast.Name) and x.func.id == 'centroid_func':
            for kw in x.keywords:
                if kw.arg is None and isinstance(kw.value, ast.Name):
                    passed = kw.value.id
    if passed is None:
        raise Unsupported('centroid_sources: call of centroid_func(**kwargs) not found')
    # is the passed dict (re)created inside the loop from the outer one?
    fresh_per_source = any(isinstance(x, ast.Assign) and isinstance(x.targets[0], ast.Name) and x.targets[0].id == passed
                           for x in ast.walk(loop))
    adds_origin = sum(1 for x in ast.walk(loop) if isinstance(x, ast.BinOp) and isinstance(x.op, ast.Add)
                      and 'slices_large' in ast.unparse(x) and '.start' in ast.unparse(x))
    # centroid_quadratic: the start pixel of a supplied (xpeak, ypeak) is py2intround of each (ties away from zero; Model.Centroid.py2intround)
    cq = next((n for n in tree.body if isinstance(n, ast.FunctionDef) and n.name == 'centroid_quadratic'), None)
    starts = {}
    for x in (ast.walk(cq) if cq is not None else ()):
        if isinstance(x, ast.Assign) and len(x.targets) == 1 and isinstance(x.targets[0], ast.Name) and x.targets[0].id in ('xidx', 'yidx') \
                and isinstance(x.value, ast.Call) and isinstance(x.value.func, ast.Name) and len(x.value.args) == 1 and isinstance(x.value.args[0], ast.Name):
            starts.setdefault(x.targets[0].id, []).append((x.value.func.id, x.value.args[0].id))
    quad_start_ok = starts.get('xidx') == [('py2intround', 'xpeak')] and starts.get('yidx') == [('py2intround', 'ypeak')]
    out = ('/- GENERATED by tools/extract_tables.py from photutils/centroids/core.py (centroid_sources loop) '
           f'(sha256/16 {sha(src)}). DO NOT EDIT. -/\n'
           'import PhotVerif.Model.Prelude\nnamespace PhotVerif.Gen.CentroidTable\n\n'
           f'/-- the keyword dict built before the loop is modified inside the loop -/\n'
           f'def outerKwargsMutatedInLoop : Bool := {"true" if mutated else "false"}\n'
           f'/-- the dict passed to the centroid function is created anew for every source -/\n'
           f'def kwargsFreshPerSource : Bool := {"true" if fresh_per_source else "false"}\n'
           f'/-- number of `+ slices_large[k].start` re-basing additions in the loop (x and y) -/\n'
           f'def originAdditions : Nat := {adds_origin}\n'
           f'/-- `centroid_quadratic`: a supplied start is turned into a pixel with xidx = py2intround(xpeak), yidx = py2intround(ypeak) only -/\n'
           f'def quadStartUsesPy2intround : Bool := {"true" if quad_start_ok else "false"}\n\n'
           'end PhotVerif.Gen.CentroidTable\n')
    return 'CentroidTable.lean', src, out


# ------------------------------------------------------------------ make_model_image loop skeleton
def gen_render_table():
    path = os.path.join(REPO, 'photutils/datasets/images.py')
    src = open(path).read()
    tree = ast.parse(src)
    fn = next(n for n in tree.body if isinstance(n, ast.FunctionDef) and n.name == 'make_model_image')
    loop = next((x for x in fn.body if isinstance(x, ast.For) and 'enumerate' in ast.unparse(x.iter)), None)
    if loop is None:
        raise Unsupported('make_model_image: row loop not found')
    units_if = None
    accum = None
    skips = False
    for x in ast.walk(loop):
        if isinstance(x, ast.If) and any(isinstance(b, ast.AugAssign) and isinstance(b.op, ast.LShift) for b in x.body):
            units_if = x
        if isinstance(x, ast.AugAssign) and isinstance(x.op, ast.Add) and isinstance(x.target, ast.Subscript) \
                and isinstance(x.target.value, ast.Name) and x.target.value.id == 'image':
            accum = x
        if isinstance(x, ast.ExceptHandler) and x.type is not None and 'NoOverlapError' in ast.unparse(x.type):
            skips = any(isinstance(b, ast.Continue) for b in x.body)
    if units_if is None or accum is None:
        raise Unsupported('make_model_image: units / accumulation statements not found')
    units_mentions_index = any(isinstance(n, ast.Name) and n.id == 'i' for n in ast.walk(units_if.test))
    # after the loop: `if len(params_table) > 0 and not isinstance(image, u.Quantity): value = model(x0, y0); if Quantity: image <<= unit`
    after = fn.body[fn.body.index(loop) + 1:]
    post_units = False
    for st in after:
        if isinstance(st, ast.If):
            t = ast.unparse(st.test).replace(' ', '')
            attaches = any(isinstance(b, ast.AugAssign) and isinstance(b.op, ast.LShift) and ast.unparse(b.target) == 'image' for b in ast.walk(st))
            if attaches and 'len(params_table)>0' in t and 'notisinstance(image,u.Quantity)' in t:
                post_units = True
    rhs = ast.unparse(accum.value)
    adds_bkg = 'local_bkg' in rhs and 'subimg' in rhs
    trim = any(isinstance(c, ast.Call) and getattr(c.func, 'id', '') == 'overlap_slices'
               and any(k.arg == 'mode' and isinstance(k.value, ast.Constant) and k.value.value == 'trim' for k in c.keywords)
               for c in ast.walk(loop))
    model_copied = any(isinstance(st, ast.Assign) and isinstance(st.value, ast.Call) and isinstance(st.value.func, ast.Attribute)
                       and st.value.func.attr == 'copy' and isinstance(st.targets[0], ast.Name) and st.targets[0].id == 'model'
                       for st in fn.body)
    b = lambda v: 'true' if v else 'false'
    out = ('/- GENERATED by tools/extract_tables.py from photutils/datasets/images.py (make_model_image loop) '
           f'(sha256/16 {sha(src)}). DO NOT EDIT. -/\n'
           'import PhotVerif.Model.Prelude\nnamespace PhotVerif.Gen.RenderTable\n\n'
           f'/-- the statement attaching units is conditioned on the row index -/\n'
           f'def unitsDependOnRowIndex : Bool := {b(units_mentions_index)}\n'
           f'/-- after the loop a non-empty table whose rows all missed the image still attaches the unit of the model value -/\n'
           f'def attachesUnitAfterLoop : Bool := {b(post_units)}\n'
           f'/-- `image[slc] += subimg + local_bkg[i]` -/\n'
           f'def accumulatesStampPlusBkg : Bool := {b(adds_bkg)}\n'
           f'/-- rows raising NoOverlapError are skipped with `continue` -/\n'
           f'def skipsNoOverlap : Bool := {b(skips)}\n'
           f'def usesTrimMode : Bool := {b(trim)}\n'
           f'/-- the input model is copied before its parameters are set -/\n'
           f'def modelCopied : Bool := {b(model_copied)}\n\n'
           'end PhotVerif.Gen.RenderTable\n')
    return 'RenderTable.lean', src, out


def _ratlit(x):
    from fractions import Fraction
    f = Fraction(str(x))
    return f'({f.numerator} : Rat) / {f.denominator}'


def gen_bkg_consts():
    """constants and comparison operators of the mesh statistics (SExtractorBackground, box exclusion, interpolator clip)"""
    p1 = os.path.join(REPO, 'photutils/background/core.py')
    p2 = os.path.join(REPO, 'photutils/background/background_2d.py')
    p3 = os.path.join(REPO, 'photutils/background/interpolators.py')
    s1, s2, s3 = open(p1).read(), open(p2).read(), open(p3).read()
    t1, t2, t3 = ast.parse(s1), ast.parse(s2), ast.parse(s3)
    calc = _cls_method(t1, 'SExtractorBackground', 'calc_background')
    if calc is None:
        raise Unsupported('SExtractorBackground.calc_background not found')
    med_f = mean_f = ratio = None
    ratio_op = zero_std_to_mean = None
    for n in ast.walk(calc):
        if isinstance(n, ast.Assign) and isinstance(n.targets[0], ast.Name) and n.targets[0].id == 'bkg' \
                and isinstance(n.value, ast.BinOp) and isinstance(n.value.op, ast.Sub):
            l, r = n.value.left, n.value.right
            if isinstance(l, ast.BinOp) and isinstance(l.left, ast.Constant) and '_median' in ast.unparse(l.right):
                med_f = l.left.value
            if isinstance(r, ast.BinOp) and isinstance(r.left, ast.Constant) and '_mean' in ast.unparse(r.right):
                mean_f = r.left.value
        if isinstance(n, ast.Assign) and isinstance(n.targets[0], ast.Name) and n.targets[0].id == 'med_mask' \
                and isinstance(n.value, ast.Compare) and isinstance(n.value.comparators[0], ast.Constant):
            ratio = n.value.comparators[0].value
            ratio_op = type(n.value.ops[0]).__name__
            lhs = ast.unparse(n.value.left).replace(' ', '')
            if lhs != '(np.abs(_mean-_median)/_std)' and lhs != 'np.abs(_mean-_median)/_std':
                raise Unsupported(f'SExtractor med_mask expression changed: {lhs}')
        if isinstance(n, ast.Assign) and isinstance(n.targets[0], ast.Name) and n.targets[0].id == 'mean_mask':
            zero_std_to_mean = ast.unparse(n.value).replace(' ', '') == '_std==0'
    if None in (med_f, mean_f, ratio, ratio_op, zero_std_to_mean):
        raise Unsupported('SExtractorBackground.calc_background: expected statements not found')
    # order of the two overrides: mean (std == 0) first, then median where ratio >= 0.3 and std != 0
    src_calc = ast.unparse(calc)
    mean_first = src_calc.index('bkg[mean_mask]') < src_calc.index('bkg[mask]')
    med_guarded = 'np.logical_and(med_mask,np.logical_not(mean_mask))' in src_calc.replace(' ', '')
    thr = _cls_method(t2, 'Background2D', '_good_npixels_threshold')
    thr_expr = ast.unparse(next(n for n in ast.walk(thr) if isinstance(n, ast.Return)).value).replace(' ', '')
    # both spellings denote (1 - p/100) * npix exactly; the second one is also exact in floating point whenever the value is an integer
    thr_ok = thr_expr in ('(1-self.exclude_percentile/100.0)*self._box_npixels', '(100.0-self.exclude_percentile)*self._box_npixels/100.0')
    thr_exact = thr_expr == '(100.0-self.exclude_percentile)*self._box_npixels/100.0'
    stats = _cls_method(t2, 'Background2D', '_compute_box_statistics')
    cmp_ = next((n for n in ast.walk(stats) if isinstance(n, ast.Assign) and isinstance(n.targets[0], ast.Name)
                 and n.targets[0].id == 'box_mask'), None)
    if cmp_ is None:
        raise Unsupported('box_mask comparison not found')
    ex = ast.unparse(cmp_.value).replace(' ', '')
    if ex == 'ngood<=self._good_npixels_threshold':
        excl_op = 'le'
    elif ex == 'np.logical_or(ngood<self._good_npixels_threshold,ngood==0)':
        excl_op = 'lt-or-zero'
    else:
        raise Unsupported(f'box exclusion rule changed: {ex}')
    excl_ok = True
    ngood_ok = any(isinstance(n, ast.Assign) and isinstance(n.targets[0], ast.Name) and n.targets[0].id == 'ngood'
                   and ast.unparse(n.value).replace(' ', '') == 'np.count_nonzero(~np.isnan(data),axis=axis)' for n in ast.walk(stats))
    npix = any(isinstance(n, ast.Assign) and ast.unparse(n.targets[0]) == 'self._box_npixels'
               and ast.unparse(n.value).replace(' ', '') == 'np.prod(self.box_size)'
               for n in ast.walk(_cls_method(t2, 'Background2D', '_calculate_stats')))
    zcall = _cls_method(t3, 'BkgZoomInterpolator', '__call__')
    clip_ok = any(isinstance(n, ast.Call) and ast.unparse(n.func) == 'np.clip'
                  and [ast.unparse(a) for a in n.args] == ['result', 'minval', 'maxval'] for n in ast.walk(zcall))
    minmax_ok = all(any(isinstance(n, ast.Assign) and ast.unparse(n.targets[0]) == nm and ast.unparse(n.value) == f'np.{fn}(data)'
                        for n in ast.walk(zcall)) for nm, fn in (('minval', 'min'), ('maxval', 'max')))
    img = _cls_method(t2, 'Background2D', '_calculate_image')
    fill_ok = any(isinstance(n, ast.Assign) and ast.unparse(n.targets[0]) == 'data[self.coverage_mask]'
                  and ast.unparse(n.value) == 'self.fill_value' for n in ast.walk(img))
    b = lambda v: 'true' if v else 'false'
    src = s1 + s2 + s3
    out = ('/- GENERATED by tools/extract_tables.py from photutils/background/{core,background_2d,interpolators}.py '
           f'(sha256/16 {sha(src)}). DO NOT EDIT. -/\n'
           'import PhotVerif.Model.Prelude\nnamespace PhotVerif.Gen.BkgConsts\n\n'
           f'/-- `bkg = ({med_f} * _median) - ({mean_f} * _mean)` -/\n'
           f'def sexMedianFactor : Rat := {_ratlit(med_f)}\n'
           f'def sexMeanFactor : Rat := {_ratlit(mean_f)}\n'
           f'/-- `med_mask = (np.abs(_mean - _median) / _std) {ratio_op} {ratio}` -/\n'
           f'def sexRatio : Rat := {_ratlit(ratio)}\n'
           f'def sexRatioOp : String := {lean_str(ratio_op)}\n'
           f'def sexZeroStdGivesMean : Bool := {b(zero_std_to_mean)}\n'
           f'def sexMeanOverrideFirst : Bool := {b(mean_first)}\n'
           f'def sexMedianOverrideGuarded : Bool := {b(med_guarded)}\n'
           f'/-- `_good_npixels_threshold = (1 - exclude_percentile / 100.0) * _box_npixels` with `_box_npixels = prod(box_size)` -/\n'
           f'def thresholdIsFractionOfFullBox : Bool := {b(thr_ok and npix)}\n'
           f'/-- the formula is written as `(100 - p) * npix / 100`: one rounding, exact whenever the threshold is an integer -/\n'
           f'def thresholdExactWhenInteger : Bool := {b(thr_exact)}\n'
           f'/-- box exclusion: "le" = `ngood <= threshold`; "lt-or-zero" = `(ngood < threshold) | (ngood == 0)`; `ngood` counts the clipped box -/\n'
           f'def exclusionRule : String := {lean_str(excl_op)}\n'
           f'def exclusionComparesNgood : Bool := {b(excl_ok and ngood_ok)}\n'
           f'/-- BkgZoomInterpolator clips to [min(mesh), max(mesh)] -/\n'
           f'def zoomClipsToMeshRange : Bool := {b(clip_ok and minmax_ok)}\n'
           f'/-- `data[coverage_mask] = fill_value` -/\n'
           f'def coverageGetsFill : Bool := {b(fill_ok)}\n\n'
           'end PhotVerif.Gen.BkgConsts\n')
    return 'BkgConsts.lean', src, out


def _func(tree, name):
    return next((n for n in ast.walk(tree) if isinstance(n, ast.FunctionDef) and n.name == name), None)


def _floaty(rhs):
    t = ast.unparse(rhs).replace(' ', '')
    return any(m in t for m in ('astype(float', 'astype(np.float', 'dtype=float', 'dtype=np.float', 'astype(np.result_type(self._data.dtype,np.float32))'))


def gen_float_guards():
    """float conversion before in-place arithmetic, and the skeleton of process_quantities (C15)"""
    files = ['photutils/utils/errors.py', 'photutils/utils/_convolution.py', 'photutils/background/background_2d.py',
             'photutils/segmentation/catalog.py', 'photutils/aperture/stats.py', 'photutils/centroids/core.py',
             'photutils/utils/_quantity_helpers.py']
    srcs = {f: open(os.path.join(REPO, f)).read() for f in files}
    trees = {f: ast.parse(s) for f, s in srcs.items()}
    # calc_total_error: the array divided in place is defined by a float conversion
    cte = _func(trees[files[0]], 'calc_total_error')
    if cte is None:
        raise Unsupported('calc_total_error not found')
    inplace = [n for n in ast.walk(cte) if isinstance(n, ast.AugAssign) and isinstance(n.op, ast.Div)]
    if len(inplace) != 1:
        raise Unsupported(f'calc_total_error: expected one in-place division, found {len(inplace)}')
    var = inplace[0].target
    while isinstance(var, ast.Subscript):
        var = var.value
    vname = ast.unparse(var)
    defs = [n for n in ast.walk(cte) if isinstance(n, ast.Assign) and ast.unparse(n.targets[0]) == vname and n.lineno < inplace[0].lineno]
    sv_float = bool(defs) and _floaty(defs[-1].value)
    # _filter_data: integer -> float
    fd = _func(trees[files[1]], '_filter_data')
    fd_ok = fd is not None and any(isinstance(n, ast.If) and 'np.issubdtype(data.dtype,np.integer)' in ast.unparse(n.test).replace(' ', '')
                                   and any(isinstance(b, ast.Assign) and _floaty(b.value) for b in n.body) for n in ast.walk(fd))
    # Background2D._calculate_stats: non-float -> float32
    cs = _cls_method(trees[files[2]], 'Background2D', '_calculate_stats')
    b2d_ok = cs is not None and any(isinstance(n, ast.If) and "dtype.kind!='f'" in ast.unparse(n.test).replace(' ', '')
                                    and any(isinstance(b, ast.Assign) and _floaty(b.value) for b in n.body) for n in ast.walk(cs))
    # SourceCatalog: data cut-outs are float copies
    cat_ok = all(any(isinstance(c, ast.Call) and getattr(c.func, 'attr', '') == '_prepare_cutouts'
                     and any(k.arg == 'dtype' and ast.unparse(k.value) == 'float' for k in c.keywords)
                     for c in ast.walk(_cls_method(trees[files[3]], 'SourceCatalog', nm) or ast.Pass()))
                 for nm in ('data', 'data_ma', 'convdata', 'convdata_ma'))
    pc = _cls_method(trees[files[3]], 'SourceCatalog', '_prepare_cutouts')
    cat_ok = cat_ok and pc is not None and 'astype(dtype,copy=True)' in ast.unparse(pc).replace(' ', '')
    # ApertureStats cut-outs
    ap_ok = any(isinstance(n, ast.Assign) and ast.unparse(n.targets[0]) == 'cutout' and 'astype(float,copy=True)' in ast.unparse(n.value).replace(' ', '')
                for n in ast.walk(trees[files[4]]))
    # centroid_quadratic works on a float copy
    cq = _func(trees[files[5]], 'centroid_quadratic')
    cq_ok = cq is not None and any(isinstance(n, ast.Assign) and ast.unparse(n.targets[0]) == 'data' and _floaty(n.value) and '.copy()' in ast.unparse(n.value)
                                   for n in ast.walk(cq))
    # process_quantities skeleton
    pq = _func(trees[files[6]], 'process_quantities')
    if pq is None:
        raise Unsupported('process_quantities not found')
    t = ast.unparse(pq).replace(' ', '')
    skips_none = "getattr(arr,'unit',None)" in t and 'ifarrisnotNone' in t
    rejects = 'iflen(unit)>1:' in t and 'raiseValueError' in t
    strips = 'ifunitisnotNone:' in t and '[val.valueifvalisnotNoneelsevalforvalinvalues]' in t
    b = lambda v: 'true' if v else 'false'
    src = ''.join(srcs[f] for f in files)
    out = ('/- GENERATED by tools/extract_tables.py (float conversion before in-place arithmetic; process_quantities skeleton) '
           f'(sha256/16 {sha(src)}). DO NOT EDIT. -/\n'
           'import PhotVerif.Model.Prelude\nnamespace PhotVerif.Gen.FloatGuards\n\n'
           f'/-- calc_total_error: `{vname}` (divided in place by the gain) is defined by a float conversion of the data -/\n'
           f'def totalErrorSourceVarianceIsFloat : Bool := {b(sv_float)}\n'
           f'/-- _filter_data: integer data are converted with astype(float) before convolution -/\n'
           f'def filterDataIntToFloat : Bool := {b(fd_ok)}\n'
           f'/-- Background2D._calculate_stats: non-float data are converted to a float dtype (float32, or float64 for integers wider than 16 bits) before NaNs are inserted -/\n'
           f'def background2dNonFloatToFloat32 : Bool := {b(b2d_ok)}\n'
           f'/-- SourceCatalog data / convdata cut-outs are float copies -/\n'
           f'def catalogCutoutsFloat : Bool := {b(cat_ok)}\n'
           f'/-- ApertureStats data cut-outs are float copies -/\n'
           f'def apertureStatsCutoutFloat : Bool := {b(ap_ok)}\n'
           f'/-- centroid_quadratic works on a float copy of its input -/\n'
           f'def centroidSourcesFloat : Bool := {b(cq_ok)}\n'
           f'/-- process_quantities: inputs that are None are ignored; unit = getattr(arr, "unit", None) -/\n'
           f'def processQuantitiesSkipsNone : Bool := {b(skips_none)}\n'
           f'/-- more than one distinct unit (None counts as a unit) raises ValueError -/\n'
           f'def processQuantitiesRejectsMixed : Bool := {b(rejects)}\n'
           f'/-- units are removed with `.value` only -/\n'
           f'def processQuantitiesStripsValue : Bool := {b(strips)}\n\n'
           'end PhotVerif.Gen.FloatGuards\n')
    return 'FloatGuards.lean', src, out


def gen_effects_table():
    """effect programs of every public function / class in scope (C10), via tools/effects.py + tools/effects_scan.py"""
    import effects as EF
    import effects_scan as ES
    ents, summ = ES.scan()
    srcs = ''.join(open(os.path.join(REPO, f)).read() for f in ES.SCOPE if os.path.exists(os.path.join(REPO, f)))
    out = ('/- GENERATED by tools/extract_tables.py (tools/effects.py: effect programs of the public functions and classes) '
           f'(sha256/16 {sha(srcs)}). DO NOT EDIT. -/\n'
           'import PhotVerif.Model.Effects\nnamespace PhotVerif.Gen.EffectsTable\nopen PhotVerif.Model.Effects\n\n'
           f'def fuel : Nat := {ES.FUEL}\n\n'
           'structure Unit where\n  name : String\n  k : Nat\n  nv : Nat\n  prog : Stmt\n\n')
    names = []
    for i, e in enumerate(ents):
        nm = f'u{i}'
        names.append(nm)
        out += (f'/-- {e["name"]} ({e["kind"]}); inputs: {", ".join(e["params"]) or "-"} -/\n'
                f'def {nm} : Unit := ⟨{lean_str(e["name"])}, {e["k"]}, {e["nv"]},\n  {EF.to_lean(e["prog"])}⟩\n\n')
    out += 'def units : List Unit := [' + ', '.join(names) + ']\n\nend PhotVerif.Gen.EffectsTable\n'
    return 'EffectsTable.lean', srcs, out


def gen_isophote_table():
    """skeleton of Ellipse.fit_image (growth loops) and of the corrector selection in EllipseFitter.fit (C20)"""
    p1 = os.path.join(REPO, 'photutils/isophote/ellipse.py')
    p2 = os.path.join(REPO, 'photutils/isophote/fitter.py')
    p3 = os.path.join(REPO, 'photutils/isophote/geometry.py')
    s1, s2, s3 = open(p1).read(), open(p2).read(), open(p3).read()
    fit_image = _cls_method(ast.parse(s1), 'Ellipse', 'fit_image')
    if fit_image is None:
        raise Unsupported('Ellipse.fit_image not found')
    loops = [n for n in fit_image.body if isinstance(n, ast.While)]
    if len(loops) != 2:
        raise Unsupported(f'fit_image: expected the outward and inward while-loops, found {len(loops)}')
    out_loop, in_loop = loops
    norm = lambda e: ast.unparse(e).replace(' ', '')
    breaks = lambda loop: [norm(n.test) for n in ast.walk(loop) if isinstance(n, ast.If) and any(isinstance(b, ast.Break) for b in n.body)]
    out_ok = norm(out_loop.test) == 'True' and 'maxsmaandsma>=maxsma' in breaks(out_loop)
    in_guard = norm(in_loop.test) == 'sma>max(minsma,0.5)'
    in_ok = 'sma<=max(minsma,0.5)' in breaks(in_loop) and 'isophote.stop_code==3' in breaks(in_loop)
    upd = lambda loop: any(isinstance(n, ast.Assign) and norm(n.targets[0]) == 'sma' and norm(n.value) == 'isophote.sample.geometry.update_sma(step)'
                           for n in ast.walk(loop))
    reset = any(isinstance(n, ast.Assign) and norm(n.value) == 'first_isophote.sample.geometry.reset_sma(step)' for n in fit_image.body)
    sorts = any(isinstance(n, ast.Expr) and norm(n.value) == 'isophote_list.sort()' for n in fit_image.body)
    central = any(isinstance(n, ast.If) and norm(n.test) == 'minsma==0.0' for n in fit_image.body)
    fixvec = 'np.array([fix_center,fix_center,fix_pa,fix_eps])' in norm(fit_image)
    ginit = _cls_method(ast.parse(s3), 'EllipseGeometry', '__init__')
    fixvec = fixvec and ginit is not None and 'self.fix=np.array([fix_center,fix_center,fix_pa,fix_eps])' in norm(ginit)
    fit = _cls_method(ast.parse(s2), 'EllipseFitter', 'fit')
    t = norm(fit) if fit is not None else ''
    masked = ('free_coeffs=np.ma.masked_array(coeffs[1:],mask=fixed_parameters)' in t and 'largest_harmonic_index=np.argmax(np.abs(free_coeffs))' in t
              and 'corrector=_CORRECTORS[largest_harmonic_index]' in t)
    correctors = '_CORRECTORS=[_PositionCorrector0(),_PositionCorrector1(),_AngleCorrector(),_EllipticityCorrector()]' in s2.replace(' ', '').replace('\n', '')
    geo = ast.parse(s3)
    us, rs = _cls_method(geo, 'EllipseGeometry', 'update_sma'), _cls_method(geo, 'EllipseGeometry', 'reset_sma')
    tu, trs = norm(us), norm(rs)
    upd_ok = 'sma=self.sma+step' in tu and 'sma=self.sma*(1.0+step)' in tu
    rst_ok = 'sma=self.sma-step' in trs and 'step=-step' in trs and 'aux=1.0/(1.0+step)' in trs and 'sma=self.sma*aux' in trs and 'step=aux-1.0' in trs
    b = lambda v: 'true' if v else 'false'
    src = s1 + s2 + s3
    out = ('/- GENERATED by tools/extract_tables.py from photutils/isophote/{ellipse,fitter,geometry}.py '
           f'(sha256/16 {sha(src)}). DO NOT EDIT. -/\n'
           'import PhotVerif.Model.Prelude\nnamespace PhotVerif.Gen.IsophoteTable\n\n'
           f'/-- the inward loop runs only while `sma > max(minsma, 0.5)` (also for the first inward value) -/\n'
           f'def guardsFirstInward : Bool := {b(in_guard)}\n'
           f'/-- outward loop: `if maxsma and sma >= maxsma: break` after `sma = update_sma(step)` -/\n'
           f'def outwardBreaksAtMaxsma : Bool := {b(out_ok and upd(out_loop))}\n'
           f'/-- inward loop: break on stop code 3 and when `sma <= max(minsma, 0.5)`; starts from `reset_sma(step)` of the first isophote -/\n'
           f'def inwardBreaksAtMinsma : Bool := {b(in_ok and upd(in_loop) and reset)}\n'
           f'/-- `isophote_list.sort()` before returning; the central pixel is added for `minsma == 0.0` -/\n'
           f'def sortsResult : Bool := {b(sorts and central)}\n'
           f'/-- `fix = [fix_center, fix_center, fix_pa, fix_eps]` (in fit_image and in EllipseGeometry.__init__), correctors [position0, position1, angle, ellipticity] -/\n'
           f'def fixVectorOrder : Bool := {b(fixvec and correctors)}\n'
           f'/-- the corrector is chosen by argmax |coeffs[1:]| over the parameters that are not fixed -/\n'
           f'def freeCoeffsMaskedByFix : Bool := {b(masked)}\n'
           f'/-- update_sma / reset_sma formulas as modelled -/\n'
           f'def growthFormulas : Bool := {b(upd_ok and rst_ok)}\n\n'
           'end PhotVerif.Gen.IsophoteTable\n')
    return 'IsophoteTable.lean', src, out

# ------------------------------------------------------------------ PSFPhotometry: per-source results leave the group order
def gen_psf_table():
    """which reads of `self._group_results[...]` (lists in group-fitting order) are passed through `self._ungroup`, and the
    shape of `_ungroup` / `_order_by_id` themselves (C12: output rows are in input order)"""
    path = os.path.join(REPO, 'photutils/psf/photometry.py')
    src = open(path).read()
    tree = ast.parse(src)
    cls = next((n for n in tree.body if isinstance(n, ast.ClassDef) and n.name == 'PSFPhotometry'), None)
    if cls is None:
        raise Unsupported('class PSFPhotometry not found')
    rows = []
    for fn in cls.body:
        if not isinstance(fn, ast.FunctionDef):
            continue
        parents = {}
        for node in ast.walk(fn):
            for ch in ast.iter_child_nodes(node):
                parents[ch] = node
        for node in ast.walk(fn):
            if isinstance(node, ast.Subscript) and isinstance(node.value, ast.Attribute) and node.value.attr == '_group_results' \
                    and isinstance(node.slice, ast.Constant) and isinstance(node.ctx, ast.Load):
                par = parents.get(node)
                if isinstance(par, ast.Attribute) and par.attr == 'append':
                    continue                                    # a write
                wrapped = isinstance(par, ast.Call) and isinstance(par.func, ast.Attribute) and par.func.attr == '_ungroup' and node in par.args
                rows.append((fn.name, node.slice.value, wrapped))
    norm = lambda n: ast.unparse(n).replace(' ', '').replace('\n', ';') if n is not None else ''
    ung = _cls_method(tree, 'PSFPhotometry', '_ungroup')
    obi = _cls_method(tree, 'PSFPhotometry', '_order_by_id')
    body = lambda f: ';'.join(ast.unparse(st).replace(' ', '') for st in f.body if not (isinstance(st, ast.Expr) and isinstance(st.value, ast.Constant))) if f is not None else ''
    ung_ok = body(ung) == 'iterable=_flatten(iterable);returnself._order_by_id(iterable)'
    obi_ok = body(obi) == "return[iterable[i]foriinself._group_results['ungroup_indices']]"
    b = lambda v: 'true' if v else 'false'
    # _prepare_init_params: the grouper is consulted only when the table has no group_id column
    pip = _cls_method(tree, 'PSFPhotometry', '_prepare_init_params')
    supplied_wins = False
    for x in (ast.walk(pip) if pip is not None else ()):
        if isinstance(x, ast.If) and ast.unparse(x.test).replace('"', "'") == "'group_id' not in init_params.colnames":
            inside = {id(c) for c in ast.walk(x)}
            gcalls = [c for c in ast.walk(pip) if isinstance(c, ast.Call) and ast.unparse(c.func) == 'self.grouper']
            sets = [a for a in ast.walk(pip) if isinstance(a, ast.Assign) and any(ast.unparse(tg).replace('"', "'") == "init_params['group_id']" for tg in a.targets)]
            supplied_wins = bool(gcalls) and all(id(c) in inside for c in gcalls) and bool(sets) and all(id(a) in inside for a in sets)
    out = ('/- GENERATED by tools/extract_tables.py from photutils/psf/photometry.py (reads of _group_results in PSFPhotometry) '
           f'(sha256/16 {sha(src)}). DO NOT EDIT. -/\n'
           'import PhotVerif.Model.Prelude\nnamespace PhotVerif.Gen.PsfTable\n\n'
           '/-- (method, key, passed through `self._ungroup`) for every read of `self._group_results[key]` -/\n'
           'def groupResultReads : List (String × String × Bool) :=\n  ['
           + ',\n   '.join(f'("{m}", "{k}", {b(w)})' for m, k, w in rows) + ']\n\n'
           '/-- `_ungroup(x) = _order_by_id(_flatten(x))` -/\n'
           f'def ungroupFlattensThenOrders : Bool := {b(ung_ok)}\n'
           "/-- `_order_by_id(x) = [x[i] for i in ungroup_indices]` -/\n"
           f'def orderByIdIndexesWithUngroupIndices : Bool := {b(obi_ok)}\n'
           "/-- `_prepare_init_params`: every call of the grouper and every assignment of the group_id column sits under the test that the table has no group_id column -/\n"
           f'def suppliedGroupIdWins : Bool := {b(supplied_wins)}\n\n'
           'end PhotVerif.Gen.PsfTable\n')
    return 'PsfTable.lean', src, out

# ------------------------------------------------------------------ delegation completeness (dropped keyword arguments)
FORWARD_SCOPE = {'C02': ['aperture/core.py', 'aperture/photometry.py', 'aperture/mask.py'],
                 'C04': ['segmentation/detect.py', 'segmentation/finder.py'],
                 'C12': ['psf/photometry.py', 'psf/groupers.py'],
                 'C14': ['detection/peakfinder.py', 'detection/core.py', 'detection/daofinder.py', 'detection/irafstarfinder.py', 'detection/starfinder.py'],
                 'C17': ['centroids/core.py', 'centroids/gaussian.py'],
                 'C15': ['aperture/photometry.py', 'aperture/stats.py', 'psf/photometry.py', 'background/background_2d.py', 'utils/errors.py'],
                 'C16': ['aperture/stats.py'],
                 'C18': ['datasets/images.py', 'psf/photometry.py', 'psf/utils.py'],
                 'C19': ['profiles/core.py', 'profiles/radial_profile.py', 'profiles/curve_of_growth.py'],
                 'C20': ['isophote/ellipse.py', 'isophote/fitter.py', 'isophote/sample.py', 'isophote/geometry.py', 'isophote/isophote.py',
                         'isophote/model.py', 'isophote/harmonics.py', 'isophote/integrator.py']}


def _forward_rows():
    """rows (file, owner, callee, missing parameter): a call that delegates to another photutils function / method / constructor
    (resolved by its unique name) while NOT passing on a value the caller holds under the callee's own parameter name -
    either one of the caller's parameters (when the call forwards at least two of them), a local variable assigned in the caller,
    or a `self.<name>` attribute set in `__init__`.  Calls with `**kwargs` are not analysed."""
    import glob
    root = os.path.join(REPO, 'photutils')
    files = sorted(f for f in glob.glob(root + '/**/*.py', recursive=True) if '/tests/' not in f and '/extern/' not in f)

    def params(fn):
        a = fn.args
        return [x.arg for x in a.posonlyargs + a.args + a.kwonlyargs if x.arg not in ('self', 'cls')]
    sigs, trees, src_all = {}, {}, ''
    for f in files:
        txt = open(f).read()
        try:
            t = ast.parse(txt)
        except SyntaxError:
            continue
        trees[f] = t
        src_all += txt
        for n in t.body:
            if isinstance(n, ast.FunctionDef):
                sigs.setdefault(n.name, []).append(n)
            elif isinstance(n, ast.ClassDef):
                for m in n.body:
                    if isinstance(m, ast.FunctionDef):
                        sigs.setdefault(m.name, []).append(m)
                        if m.name == '__init__':
                            sigs.setdefault(n.name, []).append(m)

    def callee_of(c):
        name = c.func.attr if isinstance(c.func, ast.Attribute) else (c.func.id if isinstance(c.func, ast.Name) else None)
        if name in sigs and not any(k.arg is None for k in c.keywords):
            cands = {tuple(params(g_)) for g_ in sigs[name]}
            if len(cands) == 1:                                 # one definition, or several with the same parameter names
                return name, list(next(iter(cands)))
        return None, None
    rows = []
    for f, t in trees.items():
        rel = os.path.relpath(f, root)
        for n in ast.walk(t):
            if isinstance(n, ast.FunctionDef):
                P = params(n)
                if len(P) < 2:
                    continue
                for c in ast.walk(n):
                    if isinstance(c, ast.Call):
                        name, Q = callee_of(c)
                        if name is None:
                            continue
                        fwd = set(Q[:len(c.args)]) | {k.arg for k in c.keywords}
                        shared = [p_ for p_ in P if p_ in Q]
                        if len([p_ for p_ in shared if p_ in fwd]) >= 2:
                            rows += [(rel, n.name, name, p_) for p_ in shared if p_ not in fwd]
        # a LOCAL variable of the caller that carries the callee's own parameter name and is not passed on
        # (seed C20-r7: `minimum_amplitude_sample.update()` without the local `fixed_parameters`)
        for n in ast.walk(t):
            if isinstance(n, ast.FunctionDef):
                loc = {tg.id for x in ast.walk(n) if isinstance(x, ast.Assign) for tg in x.targets if isinstance(tg, ast.Name)}
                if not loc:
                    continue
                for c in ast.walk(n):
                    if isinstance(c, ast.Call):
                        name, Q = callee_of(c)
                        if name is None:
                            continue
                        fwd = set(Q[:len(c.args)]) | {k.arg for k in c.keywords}
                        rows += [(rel, n.name, name, q_) for q_ in Q if q_ in loc and q_ not in fwd]
        for cls in [n for n in t.body if isinstance(n, ast.ClassDef)]:
            attrs = set()
            for m in cls.body:
                if isinstance(m, ast.FunctionDef) and m.name == '__init__':
                    for x in ast.walk(m):
                        if isinstance(x, ast.Assign):
                            for tg in x.targets:
                                if isinstance(tg, ast.Attribute) and isinstance(tg.value, ast.Name) and tg.value.id == 'self':
                                    attrs.add(tg.attr)
            for m in cls.body:
                if isinstance(m, ast.FunctionDef):
                    for c in ast.walk(m):
                        if isinstance(c, ast.Call):
                            name, Q = callee_of(c)
                            if name is None:
                                continue
                            fwd = set(Q[:len(c.args)]) | {k.arg for k in c.keywords}
                            rows += [(rel, f'{cls.name}.{m.name}', name, q_) for q_ in Q if q_ in attrs and q_ not in fwd]
    return sorted(set(rows)), src_all


def gen_forward_table():
    rows, src = _forward_rows()
    out = ('/- GENERATED by tools/extract_tables.py from every module of photutils (delegating calls that drop an argument) '
           f'(sha256/16 {sha(src)}). DO NOT EDIT. -/\n'
           'import PhotVerif.Model.Prelude\nnamespace PhotVerif.Gen.ForwardTable\n\n'
           '/-- (file, caller, callee, parameter the caller holds under the same name but does not pass on) -/\n'
           'def dropped : List (String × String × String × String) :=\n  ['
           + ',\n   '.join(f'("{a}", "{b_}", "{c}", "{d}")' for a, b_, c, d in rows) + ']\n\n'
           + ''.join(f'/-- files whose delegating calls belong to {k} -/\ndef scope{k} : List String := [' + ', '.join(f'"{x}"' for x in v) + ']\n' for k, v in sorted(FORWARD_SCOPE.items())) + '\n'
           '/-- the rows whose file is one of `files` -/\n'
           'def droppedIn (files : List String) : List (String × String × String × String) := dropped.filter fun r => files.contains r.1\n\n'
           'end PhotVerif.Gen.ForwardTable\n')
    return 'ForwardTable.lean', src, out

# ---------------------------------------------------------------- shared mutable state (C09)

_MUTATORS = {'append', 'extend', 'insert', 'pop', 'remove', 'clear', 'add', 'update', 'setdefault', 'popitem', 'sort', 'reverse', 'discard'}


def _mutable_literal(v):
    if isinstance(v, (ast.List, ast.Dict, ast.Set, ast.ListComp, ast.DictComp, ast.SetComp)):
        return True
    return (isinstance(v, ast.Call) and isinstance(v.func, ast.Name)
            and v.func.id in ('list', 'dict', 'set', 'defaultdict', 'OrderedDict', 'bytearray', 'deque'))


def _mutations(fn, is_target):
    """names / attributes `a` (as classified by is_target(expr) -> key or None) that the function mutates in place"""
    hit = []
    for x in ast.walk(fn):
        if isinstance(x, ast.Call) and isinstance(x.func, ast.Attribute) and x.func.attr in _MUTATORS:
            a = is_target(x.func.value)
            if a:
                hit.append(a)
        if isinstance(x, (ast.Assign, ast.AugAssign)):
            for tg in (x.targets if isinstance(x, ast.Assign) else [x.target]):
                if isinstance(tg, ast.Subscript):
                    a = is_target(tg.value)
                    if a:
                        hit.append(a)
                elif isinstance(x, ast.AugAssign):
                    a = is_target(tg)
                    if a:
                        hit.append(a)
        if isinstance(x, ast.Delete):
            for tg in x.targets:
                if isinstance(tg, ast.Subscript):
                    a = is_target(tg.value)
                    if a:
                        hit.append(a)
    return hit


def gen_shared_state_table():
    """State shared between objects: (a) class attributes bound to a mutable literal in the class body and mutated in place by a method
    (through self / cls / the class name / type(self), or through a local alias of one of these), (b) module-level names bound to a mutable
    literal and mutated in place by a function or method (directly, after `global`, or through an attribute / local alias bound to the bare
    name).  Either makes what one object reports depend on what other objects did before (seed C09-r8)."""
    import glob
    root = os.path.join(REPO, 'photutils')
    cls_rows, mod_rows, src_all = [], [], ''
    for f in sorted(glob.glob(root + '/**/*.py', recursive=True)):
        if '/tests/' in f or '/extern/' in f:
            continue
        txt = open(f).read()
        src_all += txt
        t = ast.parse(txt)
        rel = os.path.relpath(f, root)
        # (a) class level
        for c in ast.walk(t):
            if not isinstance(c, ast.ClassDef):
                continue
            attrs = set()
            for st in c.body:
                if isinstance(st, ast.Assign) and _mutable_literal(st.value):
                    attrs |= {tg.id for tg in st.targets if isinstance(tg, ast.Name)}
                if isinstance(st, ast.AnnAssign) and st.value is not None and _mutable_literal(st.value) and isinstance(st.target, ast.Name):
                    attrs.add(st.target.id)
            if not attrs:
                continue
            for m in c.body:
                if not isinstance(m, (ast.FunctionDef, ast.AsyncFunctionDef)):
                    continue

                def is_attr(e, attrs=attrs, c=c):
                    if not (isinstance(e, ast.Attribute) and e.attr in attrs):
                        return None
                    v = e.value
                    if isinstance(v, ast.Name) and v.id in ('self', 'cls', c.name):
                        return e.attr
                    if isinstance(v, ast.Attribute) and v.attr == '__class__':
                        return e.attr
                    if isinstance(v, ast.Call) and isinstance(v.func, ast.Name) and v.func.id == 'type':
                        return e.attr
                    return None
                alias = {x.targets[0].id: is_attr(x.value) for x in ast.walk(m)
                         if isinstance(x, ast.Assign) and len(x.targets) == 1 and isinstance(x.targets[0], ast.Name) and is_attr(x.value)}
                # an instance that first rebinds `self.<attr> = <fresh>` owns its object; such classes are not listed
                rebinds = {tg.attr for x in ast.walk(c) if isinstance(x, ast.Assign) for tg in x.targets
                           if isinstance(tg, ast.Attribute) and isinstance(tg.value, ast.Name) and tg.value.id == 'self' and tg.attr in attrs}

                def target(e, is_attr=is_attr, alias=alias):
                    return is_attr(e) or (alias.get(e.id) if isinstance(e, ast.Name) else None)
                for a in _mutations(m, target):
                    if a not in rebinds:
                        cls_rows.append((rel, c.name, a, m.name))
        # (a') a method that ASSIGNS a class attribute (`Class.attr = ...`, `cls.attr = ...` outside classmethod constructors, `type(self).attr = ...`,
        # `self.__class__.attr = ...`): state shared by every instance (and, on a base class, by every subclass) - seed C01-r12
        class_names = {c.name for c in ast.walk(t) if isinstance(c, ast.ClassDef)}
        for c in ast.walk(t):
            if not isinstance(c, ast.ClassDef):
                continue
            for m in c.body:
                if not isinstance(m, (ast.FunctionDef, ast.AsyncFunctionDef)):
                    continue
                for x in ast.walk(m):
                    if isinstance(x, (ast.Assign, ast.AugAssign)):
                        for tg in (x.targets if isinstance(x, ast.Assign) else [x.target]):
                            if isinstance(tg, ast.Attribute):
                                v = tg.value
                                shared = (isinstance(v, ast.Name) and v.id in class_names) or \
                                         (isinstance(v, ast.Attribute) and v.attr == '__class__') or \
                                         (isinstance(v, ast.Call) and isinstance(v.func, ast.Name) and v.func.id == 'type')
                                if shared:
                                    cls_rows.append((rel, c.name, tg.attr, m.name))
        # (b) module level
        g = set()
        for st in t.body:
            if isinstance(st, ast.Assign) and _mutable_literal(st.value):
                g |= {tg.id for tg in st.targets if isinstance(tg, ast.Name) and not tg.id.startswith('__')}
        if not g:
            continue
        for fn in ast.walk(t):
            if not isinstance(fn, (ast.FunctionDef, ast.AsyncFunctionDef)):
                continue
            local = {a.arg for a in fn.args.args + fn.args.kwonlyargs + fn.args.posonlyargs}
            local |= {tg.id for x in ast.walk(fn) if isinstance(x, ast.Assign) for tg in x.targets if isinstance(tg, ast.Name)}
            local -= {n for x in ast.walk(fn) if isinstance(x, ast.Global) for n in x.names}
            alias = {}
            for x in ast.walk(fn):
                if isinstance(x, ast.Assign) and isinstance(x.value, ast.Name) and x.value.id in g and x.value.id not in local:
                    for tg in x.targets:
                        alias[ast.unparse(tg)] = x.value.id

            def target(e, g=g, local=local, alias=alias):
                if isinstance(e, ast.Name) and e.id in g and e.id not in local:
                    return e.id
                return alias.get(ast.unparse(e)) if isinstance(e, (ast.Name, ast.Attribute)) else None
            for a in _mutations(fn, target):
                mod_rows.append((rel, fn.name, a))
            for x in ast.walk(fn):
                if isinstance(x, ast.Global):
                    mod_rows += [(rel, fn.name, n) for n in x.names if n in g]
    # attribute aliases of a module-level mutable (self.x = G) mutated in another method of the same file
    cls_rows, mod_rows = sorted(set(cls_rows)), sorted(set(mod_rows))
    out = ('/- GENERATED by tools/extract_tables.py from every module of photutils (mutable state shared between objects) '
           f'(sha256/16 {sha(src_all)}). DO NOT EDIT. -/\n'
           'import PhotVerif.Model.Prelude\nnamespace PhotVerif.Gen.SharedState\n\n'
           '/-- (file, class, class attribute bound to a mutable literal in the class body, method that mutates it in place) -/\n'
           'def classLevel : List (String × String × String × String) :=\n  ['
           + ',\n   '.join(f'("{a}", "{b_}", "{c}", "{d}")' for a, b_, c, d in cls_rows) + ']\n\n'
           '/-- (file, function, module-level name bound to a mutable literal that the function mutates in place or rebinds via `global`) -/\n'
           'def moduleLevel : List (String × String × String) :=\n  ['
           + ',\n   '.join(f'("{a}", "{b_}", "{c}")' for a, b_, c in mod_rows) + ']\n\n'
           'end PhotVerif.Gen.SharedState\n')
    return 'SharedState.lean', src_all, out

# ---------------------------------------------------------------- default origin of the image-based PSF models (C13)

def gen_psf_origin():
    """the index placed at (x_0, y_0) when no origin is given: `(np.array(self.data.shape) - c) / d`, flipped to (x, y) order, in
    GriddedPSFModel.origin and in the ImagePSF.origin setter"""
    p1 = os.path.join(REPO, 'photutils/psf/gridded_models.py')
    p2 = os.path.join(REPO, 'photutils/psf/image_models.py')
    src1, src2 = open(p1).read(), open(p2).read()

    def shape_expr(v, where):
        # (np.array(self.data.shape) - c) / d
        ok = (isinstance(v, ast.BinOp) and isinstance(v.op, ast.Div) and isinstance(v.right, ast.Constant) and isinstance(v.left, ast.BinOp)
              and isinstance(v.left.op, ast.Sub) and isinstance(v.left.right, ast.Constant)
              and ast.unparse(v.left.left) in ('np.array(self.data.shape)', 'np.asarray(self.data.shape)'))
        if not ok:
            raise Unsupported(f'{where}: unexpected default origin expression: {ast.unparse(v)}')
        c, d = v.left.right.value, v.right.value
        if float(c) != int(c) or float(d) != int(d) or int(d) <= 0:
            raise Unsupported(f'{where}: non-integer constants in {ast.unparse(v)}')
        return int(c), int(d)

    def flipped(fn, name, where):
        fl = [x for x in ast.walk(fn) if isinstance(x, ast.Subscript) and isinstance(x.value, ast.Name) and x.value.id == name
              and ast.unparse(x.slice) == '::-1']
        if len(fl) != 1:
            raise Unsupported(f'{where}: the (y, x) -> (x, y) flip `{name}[::-1]` was not found exactly once')
    g = _cls_method(ast.parse(src1), 'GriddedPSFModel', 'origin')
    asg = [x for x in ast.walk(g) if isinstance(x, ast.Assign) and len(x.targets) == 1 and isinstance(x.targets[0], ast.Name)]
    if len(asg) != 1:
        raise Unsupported('GriddedPSFModel.origin: expected one assignment')
    gc, gd = shape_expr(asg[0].value, 'GriddedPSFModel.origin')
    flipped(g, asg[0].targets[0].id, 'GriddedPSFModel.origin')
    rets = [x for x in ast.walk(g) if isinstance(x, ast.Return)]
    if len(rets) != 1 or ast.unparse(rets[0].value) != asg[0].targets[0].id + '[::-1]':
        raise Unsupported(f'GriddedPSFModel.origin: unexpected return {ast.unparse(rets[0].value) if rets else None}')
    t2 = ast.parse(src2)
    setter = None
    for c in t2.body:
        if isinstance(c, ast.ClassDef) and c.name == 'ImagePSF':
            for m in c.body:
                if isinstance(m, ast.FunctionDef) and m.name == 'origin' and any(ast.unparse(d) == 'origin.setter' for d in m.decorator_list):
                    setter = m
    if setter is None:
        raise Unsupported('ImagePSF.origin setter not found')
    iff = [x for x in setter.body if isinstance(x, ast.If) and ast.unparse(x.test) == 'origin is None']
    if len(iff) != 1:
        raise Unsupported('ImagePSF.origin setter: `if origin is None` branch not found')
    a2 = [x for x in iff[0].body if isinstance(x, ast.Assign)]
    if len(a2) != 2 or ast.unparse(a2[1].value) != 'origin[::-1]':
        raise Unsupported('ImagePSF.origin setter: expected the default expression followed by the flip')
    ic, idn = shape_expr(a2[0].value, 'ImagePSF.origin setter')
    out = ('/- GENERATED by tools/extract_tables.py from photutils/psf/{gridded_models,image_models}.py '
           f'(sha256/16 {sha(src1 + src2)}). DO NOT EDIT. -/\n'
           'import PhotVerif.Model.Prelude\nnamespace PhotVerif.Gen.PsfOrigin\n\n'
           '/-- default origin along an axis of n samples = (n - sub) / den, for GriddedPSFModel and for ImagePSF(origin=None) -/\n'
           f'def griddedSub : Int := {gc}\ndef griddedDen : Nat := {gd}\ndef imageSub : Int := {ic}\ndef imageDen : Nat := {idn}\n\n'
           'end PhotVerif.Gen.PsfOrigin\n')
    return 'PsfOrigin.lean', src1 + src2, out

# ---------------------------------------------------------------- units of the ApertureStats statistics (C15)

def gen_stats_unit_table():
    """for every ApertureStats property computed by `_calculate_stats`: which power of the data unit it attaches (1, or 2 when the body
    squares `unit` and passes it on), and whether `_calculate_stats` honours its `unit` argument"""
    p = os.path.join(REPO, 'photutils/aperture/stats.py')
    src = open(p).read()
    t = ast.parse(src)
    cls = next(c for c in t.body if isinstance(c, ast.ClassDef) and c.name == 'ApertureStats')
    rows = []
    for m in cls.body:
        if not isinstance(m, ast.FunctionDef) or m.name == '_calculate_stats':
            continue
        calls = [c for c in ast.walk(m) if isinstance(c, ast.Call) and isinstance(c.func, ast.Attribute) and c.func.attr == '_calculate_stats']
        if not calls:
            continue
        power = 1
        for c in calls:
            kw = {k.arg: k.value for k in c.keywords}
            if 'unit' in kw or len(c.args) > 1:
                uexp = kw.get('unit', c.args[1] if len(c.args) > 1 else None)
                if not isinstance(uexp, ast.Name):
                    raise Unsupported(f'ApertureStats.{m.name}: unexpected unit argument {ast.unparse(uexp)}')
                nm = uexp.id
                init = [x for x in ast.walk(m) if isinstance(x, ast.Assign) and any(isinstance(tg, ast.Name) and tg.id == nm for tg in x.targets)]
                sq = [x for x in ast.walk(m) if isinstance(x, ast.AugAssign) and isinstance(x.op, ast.Pow) and isinstance(x.target, ast.Name)
                      and x.target.id == nm and isinstance(x.value, ast.Constant)]
                if len(init) != 1 or ast.unparse(init[0].value) != 'self._data_unit' or len(sq) != 1:
                    raise Unsupported(f'ApertureStats.{m.name}: the unit passed to _calculate_stats is not `self._data_unit ** k`')
                power = int(sq[0].value.value)
        rows.append((m.name, power))
    cs = next(m for m in cls.body if isinstance(m, ast.FunctionDef) and m.name == '_calculate_stats')
    txt = [ast.unparse(x) for x in cs.body if not (isinstance(x, ast.Expr) and isinstance(x.value, ast.Constant))]
    honours = (len(txt) == 4 and txt[1].replace('\n', ' ').replace('    ', ' ') == 'if unit is None:  unit = self._data_unit'
               and txt[2].replace('\n', ' ').replace('    ', ' ') == 'if unit is not None:  result <<= unit' and txt[3] == 'return result')
    out = ('/- GENERATED by tools/extract_tables.py from photutils/aperture/stats.py '
           f'(sha256/16 {sha(src)}). DO NOT EDIT. -/\n'
           'import PhotVerif.Model.Prelude\nnamespace PhotVerif.Gen.StatsUnits\n\n'
           '/-- (ApertureStats property computed through `_calculate_stats`, power of the data unit it asks for) -/\n'
           'def rows : List (String × Nat) := [' + ', '.join(f'("{a}", {b_})' for a, b_ in rows) + ']\n\n'
           '/-- `_calculate_stats(stat_func, unit=None)` attaches `unit` when given, the data unit otherwise, and nothing for unit-less data -/\n'
           f'def calculateStatsHonoursUnit : Bool := {"true" if honours else "false"}\n\n'
           'end PhotVerif.Gen.StatsUnits\n')
    return 'StatsUnits.lean', src, out

# ---------------------------------------------------------------- supplied positions -> pixels in the star finders (C03 / C14)

def gen_xycoords_rounding():
    '''the expression that turns `xycoords` into the pixel a measurement cut-out is centred on, in DAOStarFinder and IRAFStarFinder'''
    out_rows, src_all = [], ''
    for f, cls in (('photutils/detection/daofinder.py', 'DAOStarFinder'), ('photutils/detection/irafstarfinder.py', 'IRAFStarFinder')):
        src = open(os.path.join(REPO, f)).read()
        src_all += src
        m = _cls_method(ast.parse(src), cls, '_get_raw_catalog')
        asg = [x for x in ast.walk(m) if isinstance(x, ast.Assign) and len(x.targets) == 1 and isinstance(x.targets[0], ast.Name)
               and x.targets[0].id == 'xypos' and 'xycoords' in ast.unparse(x.value)]
        if len(asg) != 1:
            raise Unsupported(f'{cls}._get_raw_catalog: expected exactly one `xypos = <expression of self.xycoords>`')
        out_rows.append((cls, ast.unparse(asg[0].value)))
    out = ('/- GENERATED by tools/extract_tables.py from photutils/detection/{daofinder,irafstarfinder}.py '
           f'(sha256/16 {sha(src_all)}). DO NOT EDIT. -/\n'
           'import PhotVerif.Model.Prelude\nnamespace PhotVerif.Gen.XyRounding\n\n'
           '/-- (finder, expression that maps the supplied positions to pixel indices) -/\n'
           'def rows : List (String × String) := [' + ', '.join(f'("{a}", "{b_}")' for a, b_ in out_rows) + ']\n\n'
           'end PhotVerif.Gen.XyRounding\n')
    return 'XyRounding.lean', src_all, out

# ---------------------------------------------------------------- star finders: the finite-value filter covers the reported columns (C14)

FINDER_CATALOGS = (('photutils/detection/daofinder.py', 'DAOStarFinder', '_DAOStarFinderCatalog'),
                   ('photutils/detection/irafstarfinder.py', 'IRAFStarFinder', '_IRAFStarFinderCatalog'),
                   ('photutils/detection/starfinder.py', 'StarFinder', '_StarFinderCatalog'))


def gen_finder_table():
    """per star finder: the default columns of the returned table, the attributes `apply_filters` requires to be finite (the loop
    `for attr in attrs: mask &= np.isfinite(getattr(self, attr))`), the `continue` exemptions inside that loop, and - for reported columns
    that are NOT in the filter - the tested attributes defined from them and the columns that are pixel counts."""
    rows, exempt, links, counts, src_all = [], [], [], [], ''
    for f, finder, cat in FINDER_CATALOGS:
        src = open(os.path.join(REPO, f)).read()
        src_all += src
        tree = ast.parse(src)
        init = _cls_method(tree, cat, '__init__')
        cols = [x.value for x in ast.walk(init) if isinstance(x, ast.Assign) and len(x.targets) == 1
                and ast.unparse(x.targets[0]) == 'self.default_columns']
        if len(cols) != 1 or not isinstance(cols[0], ast.Tuple) or not all(isinstance(e, ast.Constant) and isinstance(e.value, str) for e in cols[0].elts):
            raise Unsupported(f'{cat}.__init__: expected exactly one `self.default_columns = (<string literals>)`')
        cols = [e.value for e in cols[0].elts]
        flt = _cls_method(tree, cat, 'apply_filters')
        asg = [x.value for x in flt.body if isinstance(x, ast.Assign) and len(x.targets) == 1 and ast.unparse(x.targets[0]) == 'attrs']
        loops = [x for x in flt.body if isinstance(x, ast.For) and ast.unparse(x.iter) == 'attrs' and isinstance(x.target, ast.Name)]
        if len(asg) != 1 or len(loops) != 1 or not isinstance(asg[0], ast.Tuple) or not all(isinstance(e, ast.Constant) for e in asg[0].elts):
            raise Unsupported(f'{cat}.apply_filters: expected `attrs = (<string literals>)` and one `for attr in attrs:` loop')
        attrs = [e.value for e in asg[0].elts]
        v = loops[0].target.id
        body = loops[0].body
        want = f'mask &= np.isfinite(getattr(self, {v}))'
        if not body or ast.unparse(body[-1]) != want:
            raise Unsupported(f'{cat}.apply_filters: the loop over attrs does not end with `{want}`')
        for st in body[:-1]:
            if isinstance(st, ast.If) and len(st.body) == 1 and isinstance(st.body[0], ast.Continue) and not st.orelse:
                exempt.append((finder, ast.unparse(st.test)))
            else:
                raise Unsupported(f'{cat}.apply_filters: unexpected statement in the loop over attrs: {ast.unparse(st)[:60]}')
        # the rows that go on to the bounds filter are exactly self[mask]
        after = [ast.unparse(x) for x in flt.body if isinstance(x, ast.Assign) and ast.unparse(x.targets[0]) == 'newcat']
        if not after or after[0] != 'newcat = self[mask]':
            raise Unsupported(f'{cat}.apply_filters: the finite mask is not applied first (`newcat = self[mask]`)')
        rows.append((finder, cols, attrs))

        def ret_expr(name):
            m = _cls_method(tree, cat, name)
            return ' || '.join(ast.unparse(x.value) for x in ast.walk(m) if isinstance(x, ast.Return) and x.value is not None)
        for c in cols:
            if c in attrs or c == 'id':
                continue
            e = ret_expr(c)
            if e.startswith(('np.full(len(self), fill_value=', 'np.count_nonzero(')) and ' || ' not in e:
                counts.append((finder, c, e))                       # an integer count: always finite
            for a in attrs:
                try:
                    ea = ret_expr(a)
                except Unsupported:
                    continue
                if f'self.{c}' in ea:
                    links.append((finder, c, a, ea))
    def lst(xs):
        return '[' + ', '.join('"' + x.replace('\\', '\\\\').replace('"', '\\"') + '"' for x in xs) + ']'
    out = ('/- GENERATED by tools/extract_tables.py from photutils/detection/{daofinder,irafstarfinder,starfinder}.py '
           f'(sha256/16 {sha(src_all)}). DO NOT EDIT. -/\n'
           'import PhotVerif.Model.Prelude\nnamespace PhotVerif.Gen.FinderTable\n\n'
           '/-- (finder, default columns of the returned table, attributes the finite-value filter of `apply_filters` tests) -/\n'
           'def rows : List (String × List String × List String) := [\n  '
           + ',\n  '.join(f'("{a}", {lst(c)}, {lst(t)})' for a, c, t in rows) + ']\n\n'
           '/-- (finder, condition) of every `if <condition>: continue` inside the finite-value loop -/\n'
           'def exemptions : List (String × String) := [' + ', '.join(f'("{a}", {lst([c])[1:-1]})' for a, c in exempt) + ']\n\n'
           '/-- (finder, reported column the filter does not test, tested attribute defined from it, the defining expression of that attribute) -/\n'
           'def links : List (String × String × String × String) := ['
           + ', '.join(f'("{a}", "{c}", "{t}", {lst([e])[1:-1]})' for a, c, t, e in links) + ']\n\n'
           '/-- (finder, reported column the filter does not test, its defining expression) when that expression is a pixel count -/\n'
           'def integerColumns : List (String × String × String) := ['
           + ', '.join(f'("{a}", "{c}", {lst([e])[1:-1]})' for a, c, e in counts) + ']\n\n'
           'end PhotVerif.Gen.FinderTable\n')
    return 'FinderTable.lean', src_all, out

# ---------------------------------------------------------------- squares of error maps are taken on float values (C15, C02, C07, C19)

SQUARE_SCOPE = ['aperture/core.py', 'aperture/stats.py', 'segmentation/catalog.py', 'centroids/gaussian.py', 'utils/errors.py', 'profiles/core.py',
                'profiles/radial_profile.py', 'profiles/curve_of_growth.py', 'psf/photometry.py', 'segmentation/detect.py']


def gen_square_sites_table():
    """every `X ** 2` whose operand is an error / uncertainty array handed in by the caller (text mentions err), with the way the operand
    was made float beforehand: 'cast' = `X` is itself `<e>.astype(float)` (or float64) or a local name bound in the same function to an
    expression containing such a cast; 'uncast' otherwise.  Squaring an integer-dtype error map in its own dtype wraps around."""
    rows, src_all = [], ''
    root = os.path.join(REPO, 'photutils')

    def has_cast(e):
        t = ast.unparse(e).replace(' ', '')
        return any(m in t for m in ('astype(float)', 'astype(np.float64)', 'dtype=float)', 'dtype=np.float64)', 'np.float64('))
    for rel in SQUARE_SCOPE:
        f = os.path.join(root, rel)
        if not os.path.exists(f):
            continue
        src = open(f).read()
        src_all += src
        t = ast.parse(src)
        for fn in [n for n in ast.walk(t) if isinstance(n, (ast.FunctionDef, ast.AsyncFunctionDef))]:
            binds = {}
            for x in ast.walk(fn):
                if isinstance(x, ast.Assign):
                    for tg in x.targets:
                        if isinstance(tg, ast.Name):
                            binds.setdefault(tg.id, []).append(x.value)
                        elif isinstance(tg, (ast.Tuple, ast.List)):
                            for el in tg.elts:
                                if isinstance(el, ast.Name):
                                    binds.setdefault(el.id, []).append(x.value)
            comp_iters = {g.target.id: ast.unparse(g.iter) for c_ in ast.walk(fn) if isinstance(c_, (ast.ListComp, ast.GeneratorExp, ast.SetComp))
                          for g in c_.generators if isinstance(g.target, ast.Name)}
            for x in ast.walk(fn):
                if isinstance(x, ast.BinOp) and isinstance(x.op, ast.Pow) and isinstance(x.right, ast.Constant) and x.right.value == 2:
                    base = x.left
                    txt = ast.unparse(base)
                    # an element of an error collection: `for arr in self._error_values` ... `arr ** 2`
                    root_ = base
                    while isinstance(root_, (ast.Call, ast.Attribute, ast.Subscript)):
                        root_ = root_.func if isinstance(root_, ast.Call) else root_.value
                    if isinstance(root_, ast.Name) and root_.id in comp_iters and 'err' in comp_iters[root_.id].lower():
                        txt = f'{txt} for {root_.id} in {comp_iters[root_.id]}'
                    if 'err' not in txt.lower() or 'gradient' in txt or any(w in txt for w in ('stddev', 'sigma')):
                        continue
                    if isinstance(base, ast.Constant) or txt.replace('_', '').replace('.', '').isdigit():
                        continue
                    cast = has_cast(base)
                    if not cast and isinstance(base, ast.Name) and base.id in binds:
                        cast = all(has_cast(v) for v in binds[base.id])
                    rows.append((rel, fn.name, txt, cast))
    rows = sorted(set(rows))
    out = ('/- GENERATED by tools/extract_tables.py (squares of error arrays) '
           f'(sha256/16 {sha(src_all)}). DO NOT EDIT. -/\n'
           'import PhotVerif.Model.Prelude\nnamespace PhotVerif.Gen.SquareSites\n\n'
           '/-- (file, function, squared operand, operand known to be a float64 copy) -/\n'
           'def sites : List (String × String × String × Bool) :=\n  ['
           + ',\n   '.join(f'("{a}", "{b_}", "{c}", {"true" if d else "false"})' for a, b_, c, d in rows) + ']\n\n'
           '/-- the sites whose operand is not visibly cast in the same function -/\n'
           'def uncast : List (String × String × String) := (sites.filter fun r => !r.2.2.2).map fun r => (r.1, r.2.1, r.2.2.1)\n\n'
           'end PhotVerif.Gen.SquareSites\n')
    return 'SquareSites.lean', src_all, out
