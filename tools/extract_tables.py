"""
T-tab: extract finite tables from method bodies of /repo by AST patterns and render them as Lean data.
Each extractor fails loudly (Unsupported) if the method's shape is not the one it knows.
"""
import ast
import os

from translate import Unsupported, sha

REPO = os.environ.get('PHOTVERIF_REPO', '/repo')


def _cls_method(tree, cls, name, setter=False):
    for n in tree.body:
        if isinstance(n, ast.ClassDef) and n.name == cls:
            for m in n.body:
                if isinstance(m, ast.FunctionDef) and m.name == name:
                    is_setter = any(isinstance(d, ast.Attribute) and d.attr == 'setter' for d in m.decorator_list)
                    if is_setter == setter:
                        return m
    raise Unsupported(f'{cls}.{name} not found')


def _is_self_call(node, name):
    return (isinstance(node, ast.Expr) and isinstance(node.value, ast.Call)
            and isinstance(node.value.func, ast.Attribute) and node.value.func.attr == name
            and isinstance(node.value.func.value, ast.Name) and node.value.func.value.id == 'self')


def mutator_row(m):
    """order-sensitive skeleton of a SegmentationImage mutator:
    resets (reset call present, before the _data assignment), seeds [(key, rhs-source)] after the reset,
    update_dmap / clear_dmap"""
    events = []
    for st in ast.walk(m):
        pass
    # walk top-level and one level of `if` bodies in statement order
    def visit(stmts, cond):
        for st in stmts:
            if _is_self_call(st, '_reset_lazyproperties'):
                events.append(('reset', cond))
            elif _is_self_call(st, '_update_deblend_label_map'):
                events.append(('update_dmap', ast.unparse(st.value.args[0])))
            elif isinstance(st, ast.Assign) and len(st.targets) == 1:
                t = st.targets[0]
                if isinstance(t, ast.Attribute) and isinstance(t.value, ast.Name) and t.value.id == 'self' \
                        and t.attr == '_data':
                    events.append(('set_data', ast.unparse(st.value)))
                elif isinstance(t, ast.Attribute) and isinstance(t.value, ast.Name) and t.value.id == 'self' \
                        and t.attr == '_deblend_label_map':
                    events.append(('clear_dmap', ast.unparse(st.value)))
                elif isinstance(t, ast.Subscript) and isinstance(t.value, ast.Attribute) \
                        and t.value.attr == '__dict__' and isinstance(t.slice, ast.Constant):
                    if t.slice.value == '_deblend_label_map':
                        events.append(('clear_dmap', ast.unparse(st.value)))
                    else:
                        events.append(('seed', t.slice.value, ast.unparse(st.value), cond))
            elif isinstance(st, ast.If):
                visit(st.body, ast.unparse(st.test))
                visit(st.orelse, 'not ' + ast.unparse(st.test))
    visit(m.body, '')
    kinds = [e[0] for e in events]
    if 'set_data' not in kinds:
        raise Unsupported(f'{m.name}: no assignment to self._data')
    i_set = kinds.index('set_data')
    resets = 'reset' in kinds[:i_set]
    late_reset = 'reset' in kinds[i_set + 1:]
    seeds = [(e[1], e[2], e[3]) for e in events if e[0] == 'seed']
    seeds_before_reset = False
    if 'reset' in kinds:
        i_r = kinds.index('reset')
        seeds_before_reset = any(k == 'seed' for k in kinds[:i_r])
    return {
        'resets': resets and not late_reset and not seeds_before_reset,
        'reset_cond': next((e[1] for e in events if e[0] == 'reset'), ''),
        'seeds': seeds,
        'update_dmap': [e[1] for e in events if e[0] == 'update_dmap'],
        'clear_dmap': [e[1] for e in events if e[0] == 'clear_dmap'],
        'data_expr': events[i_set][1],
    }


def lean_str(s):
    return '"' + s.replace('\\', '\\\\').replace('"', '\\"') + '"'


def gen_segm_table():
    path = os.path.join(REPO, 'photutils/segmentation/core.py')
    src = open(path).read()
    tree = ast.parse(src)
    rows = {
        'reassign': mutator_row(_cls_method(tree, 'SegmentationImage', 'reassign_labels')),
        'relabel': mutator_row(_cls_method(tree, 'SegmentationImage', 'relabel_consecutive')),
        'setter': mutator_row(_cls_method(tree, 'SegmentationImage', 'data', setter=True)),
    }
    # delegation skeleton: which public mutators funnel into reassign_labels
    deleg = {}
    for name in ['reassign_label', 'keep_label', 'keep_labels', 'remove_label', 'remove_labels',
                 'remove_border_labels', 'remove_masked_labels']:
        m = _cls_method(tree, 'SegmentationImage', name)
        calls = [c.func.attr for c in ast.walk(m) if isinstance(c, ast.Call) and isinstance(c.func, ast.Attribute)
                 and isinstance(c.func.value, ast.Name) and c.func.value.id == 'self']
        writes = [t for a in ast.walk(m) if isinstance(a, ast.Assign) for t in a.targets
                  if isinstance(t, ast.Attribute) and isinstance(t.value, ast.Name) and t.value.id == 'self']
        deleg[name] = {'calls': calls, 'writes_self': [ast.unparse(w) for w in writes]}
    # labels property: does it read _raw_slices when cached?
    lab = _cls_method(tree, 'SegmentationImage', 'labels')
    labels_uses_raw = any(isinstance(c, ast.Compare) and isinstance(c.left, ast.Constant)
                          and c.left.value == '_raw_slices' for c in ast.walk(lab))
    out = ('/- GENERATED by tools/extract_tables.py from photutils/segmentation/core.py '
           f'(sha256/16 {sha(src)}). DO NOT EDIT. -/\n'
           'import PhotVerif.Model.Prelude\nnamespace PhotVerif.Gen.SegmTable\n\n'
           'structure MutRow where\n  resets : Bool\n  resetCond : String\n'
           '  seeds : List (String × String × String)\n  updateDmap : List String\n'
           '  clearDmap : List String\n  dataExpr : String\nderiving DecidableEq, Repr\n\n')
    for k, r in rows.items():
        seeds = ', '.join(f'({lean_str(a)}, {lean_str(b)}, {lean_str(c)})' for a, b, c in r['seeds'])
        out += (f'def {k}Row : MutRow := {{ resets := {"true" if r["resets"] else "false"}, '
                f'resetCond := {lean_str(r["reset_cond"])}, seeds := [{seeds}], '
                f'updateDmap := [{", ".join(lean_str(x) for x in r["update_dmap"])}], '
                f'clearDmap := [{", ".join(lean_str(x) for x in r["clear_dmap"])}], '
                f'dataExpr := {lean_str(r["data_expr"])} }}\n\n')
    out += 'def delegation : List (String × List String × List String) := [\n'
    out += ',\n'.join(f'  ({lean_str(k)}, [{", ".join(lean_str(c) for c in v["calls"])}], '
                      f'[{", ".join(lean_str(c) for c in v["writes_self"])}])' for k, v in deleg.items())
    out += ']\n\n'
    out += f'def labelsReadsRawWhenCached : Bool := {"true" if labels_uses_raw else "false"}\n\n'
    # _update_deblend_label_map: are removed (0) children dropped, and parents left without children?
    upd = _cls_method(tree, 'SegmentationImage', '_update_deblend_label_map')
    drops_zero = any(isinstance(c, ast.Compare) and len(c.ops) == 1 and isinstance(c.ops[0], ast.NotEq)
                     and isinstance(c.comparators[0], ast.Constant) and c.comparators[0].value == 0
                     for c in ast.walk(upd))
    drops_empty = any(isinstance(i, ast.If) and isinstance(i.test, ast.Compare)
                      and isinstance(i.test.left, ast.Call) and getattr(i.test.left.func, 'id', '') == 'len'
                      and isinstance(i.test.ops[0], ast.Gt) for i in ast.walk(upd))
    indexes_relabel = any(isinstance(sub, ast.Subscript) and isinstance(sub.value, ast.Name)
                          and sub.value.id == 'relabel_map' for sub in ast.walk(upd))
    out += f'def dmapDropsZero : Bool := {"true" if drops_zero else "false"}\n'
    out += f'def dmapDropsEmpty : Bool := {"true" if drops_empty else "false"}\n'
    out += f'def dmapUsesRelabelMap : Bool := {"true" if indexes_relabel else "false"}\n\n'
    out += 'end PhotVerif.Gen.SegmTable\n'
    return 'SegmTable.lean', src, out
