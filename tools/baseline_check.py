"""Run /repo's pinned test suite and compare with /root/.vp/BASELINE.json stable_pass.
usage: /venv/bin/python tools/baseline_check.py [pytest path args]"""
import json, subprocess, sys, tempfile, os, xml.etree.ElementTree as ET
base = json.load(open('/root/.vp/BASELINE.json'))
stable = set(base['stable_pass'])
out = tempfile.mktemp(suffix='.xml', dir='/tmp')
cmd = base['cmd'].replace('--junitxml=<file>', f'--junitxml={out}')
p = subprocess.run(cmd, shell=True, capture_output=True, text=True)
root = ET.parse(out).getroot()
passed = set()
failed = set()
for tc in root.iter('testcase'):
    name = f"{tc.get('classname')}::{tc.get('name')}"
    bad = any(ch.tag in ('failure', 'error') for ch in tc)
    skipped = any(ch.tag == 'skipped' for ch in tc)
    (failed if bad else passed).add(name) if not skipped else None
os.unlink(out)
missing = sorted(t for t in stable if t not in passed)
print(f'passed {len(passed)} failed {len(failed)}; stable_pass {len(stable)}; stable tests not passing now: {len(missing)}')
for m in missing[:30]:
    print('  NOT PASSING:', m)
sys.exit(1 if missing else 0)
