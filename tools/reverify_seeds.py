"""Re-run the kept seeded changes (seeded/<name>/patch.diff) against the current checks.

    /venv/bin/python tools/reverify_seeds.py C12 C14          # every seeded change of these properties (all rounds)
    /venv/bin/python tools/reverify_seeds.py                  # all of them (about 240 quick checks)

For each patch: `git -C /repo apply` (falling back to --3way: later fix: commits may have moved the context), the quick check of the
property (or of another property that caught it, meta.json 'checks'), `git -C /repo checkout -- .`.  Prints one line per patch: caught
(exit 1 with a VIOLATION line), MISSED (exit 0), or not-applicable-any-more (the patch no longer applies to the repaired tree).  Never run
it while another check is running: it modifies /repo's working tree.  Evidence files and generated Lean files are restored at the end."""
import json
import os
import re
import subprocess
import sys

ROOT = os.path.dirname(os.path.dirname(os.path.abspath(__file__)))
REPO = os.environ.get('PHOTVERIF_REPO', '/repo')


def sh(*a, **k):
    return subprocess.run(a, capture_output=True, text=True, **k)


def main():
    want = sys.argv[1:]
    names = sorted(os.listdir(os.path.join(ROOT, 'seeded')))
    if want:
        names = [n for n in names if n.split('-')[0] in want]
    if sh('git', '-C', REPO, 'status', '--porcelain').stdout.strip():
        print('the working tree of', REPO, 'is not clean')
        return 2
    missed = 0
    for n in names:
        d = os.path.join(ROOT, 'seeded', n)
        patch = os.path.join(d, 'patch.diff')
        if not os.path.exists(patch):
            continue
        meta = json.load(open(os.path.join(d, 'meta.json'))) if os.path.exists(os.path.join(d, 'meta.json')) else {}
        props = [n.split('-')[0]]
        for extra, res_ in (meta.get('checks') or {}).items():               # the checks that caught it when it was evaluated
            if re.fullmatch(r'C\d\d', extra) and extra not in props and isinstance(res_, dict) and res_.get('exit') == 1:
                props.append(extra)
        ok = sh('git', '-C', REPO, 'apply', patch).returncode == 0 or sh('git', '-C', REPO, 'apply', '--3way', patch).returncode == 0
        if not ok:
            sh('git', '-C', REPO, 'checkout', '--', '.')
            print(f'{n}: not-applicable-any-more')
            continue
        res = []
        try:
            for p in props:
                r = sh('/venv/bin/python', os.path.join(ROOT, 'tools', 'check.py'), p, '--tier', 'quick', cwd=ROOT)
                res.append((p, r.returncode, 'VIOLATION property=' in r.stdout))
                if r.returncode == 1:
                    break
        finally:
            sh('git', '-C', REPO, 'reset', '-q', '--', '.')
            sh('git', '-C', REPO, 'checkout', '--', '.')
        caught = any(rc == 1 and v for _, rc, v in res)
        missed += not caught
        print(f'{n}: ' + ('caught by ' + res[-1][0] if caught else 'MISSED ' + str(res)), flush=True)
    sh('git', '-C', ROOT, 'checkout', '--', 'evidence', 'lean/PhotVerif/Gen')
    sh('python3', os.path.join(ROOT, 'tools', 'gen_lean.py'), cwd=ROOT)
    print('missed:', missed)
    return 1 if missed else 0


if __name__ == '__main__':
    sys.exit(main())
