"""Regenerate MANIFEST.json from tools/manifest_data.py (keeps the file valid at all times)."""
import json, os, sys
HERE = os.path.dirname(os.path.abspath(__file__))
sys.path.insert(0, HERE)
from manifest_data import CLAIMS, NOT_APPLICABLE, FIX_COMMITS

BASE = json.load(open('/root/.vp/BASELINE.json'))
checks = []
for pid, c in sorted(CLAIMS.items()):
    checks.append({
        'property_id': pid,
        'quick_cmd': f'/venv/bin/python tools/check.py {pid} --tier quick',
        'thorough_cmd': f'/venv/bin/python tools/check.py {pid} --tier thorough',
        'evidence_file': f'evidence/{pid}.json',
        'replay_cmd_template': f'/venv/bin/python tools/check.py {pid} --replay {{path}}',
        'engine': 'photverif-lean',
        'level_claimed': {'category': 'proof', 'text': c['text'], 'design_ref': c['design_ref']},
        'level_note': c['note'],
        'technique': c['technique'],
    })
man = {
    'version': 1,
    'setup_cmd': 'cd lean && lake build PhotVerif photdriver',
    'hooks': {
        'guard': 'PHOTUTILS_VERIF',
        'enable': 'no hooks are compiled into /repo: the checks import the editable install of /repo under '
                  '/venv/bin/python and instrument it by monkey-patching from the harness process '
                  '(tools/check.py sets PHOTUTILS_VERIF=1 for its own bookkeeping only)',
        'baseline_off_cmd': BASE['cmd'].replace('--junitxml=<file>', '').strip(),
        'source_commits': [],
        'add_only': True,
    },
    'engines': [{
        'name': 'photverif-lean', 'path': 'lean/ + tools/',
        'serves_properties': sorted(CLAIMS),
        'kind_free_text': 'Lean 4 models + theorems (lean/PhotVerif), regenerated from /repo by Python-ast '
                          'translators (tools/translate.py, tools/gen_lean.py) and tied to the implementation by a '
                          'line-protocol correspondence check (lean/Driver.lean <-> tools/props/cXX.py); '
                          'implementation-side oracles search for failing inputs.',
    }],
    'checks': checks,
    'notes': 'fix: commits in /repo: ' + (', '.join(FIX_COMMITS) or 'none yet') +
             '. Known findings: known_findings.json. Exit codes: 0 held, 1 violation, 2 infrastructure failure.',
    'not_applicable': [{'property_id': k, 'reason': v} for k, v in sorted(NOT_APPLICABLE.items())],
}
json.dump(man, open(os.path.join(HERE, '..', 'MANIFEST.json'), 'w'), indent=1)
print('claimed', sorted(CLAIMS), 'not claimed', sorted(NOT_APPLICABLE))
