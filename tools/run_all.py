"""Run every claimed check (quick by default) on the current /repo and summarise; used before committing evidence."""
import json, subprocess, sys, time, os
HERE = os.path.dirname(os.path.abspath(__file__))
man = json.load(open(os.path.join(HERE, '..', 'MANIFEST.json')))
tier = sys.argv[1] if len(sys.argv) > 1 else 'quick'
only = sys.argv[2:]
bad = 0
for c in man['checks']:
    pid = c['property_id']
    if only and pid not in only:
        continue
    cmd = c['quick_cmd'] if tier == 'quick' else c['thorough_cmd']
    t0 = time.time()
    p = subprocess.run(cmd, shell=True, cwd=os.path.join(HERE, '..'), capture_output=True, text=True)
    ev = json.load(open(os.path.join(HERE, '..', c['evidence_file'])))
    cov = ev['coverage']
    lines = [l for l in p.stdout.split('\n') if l.startswith(('VIOLATION', 'KNOWN-FINDING', 'INFRA'))]
    print(f'{pid} exit={p.returncode} {time.time()-t0:.0f}s obligations={cov.get("obligations")}/{cov.get("discharged")} '
          f'evals={cov.get("evaluations")} nontrivial={cov.get("distinct_nontrivial")} traces={cov.get("traces_validated_against_impl")} '
          + ' | '.join(l[:90] for l in lines))
    if p.returncode != 0 or cov.get('obligations', 0) < 1 or cov.get('lean_problems'):
        bad += 1
        print(p.stdout[-1500:], p.stderr[-1500:])
sys.exit(1 if bad else 0)
