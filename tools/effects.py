"""T-eff: translate Python functions / classes of photutils into effect programs of Model/Effects.lean (C10).

Every function becomes a `Stmt` over numbered variables; its parameters are the caller's buffers 0..k-1.
A class becomes `init ; loop (m1 | m2 | ...)` over the union of all method parameters (any call sequence after construction),
with `self.X` shared between the methods.  The translation is an over-approximation of aliasing with these assumptions
(part of the trusted base, validated by the dynamic snapshot sweep of tools/props/c10.py):
  * a call to an unknown function returns a new object and does not modify its arguments, except the numpy / astropy
    view-returning functions and in-place functions listed below and photutils functions for which a summary was computed;
  * attribute access `obj.attr` and subscripts `obj[...]` may alias `obj`;
  * `try` bodies are either executed or skipped as a whole.
"""
import ast
import copy
import os

REPO = os.environ.get('PHOTUTILS_REPO', '/repo')

ALIAS_FUNCS = {'asanyarray', 'asarray', 'atleast_1d', 'atleast_2d', 'atleast_3d', 'squeeze', 'ravel', 'reshape', 'transpose', 'swapaxes',
               'getdata', 'getmaskarray', 'getmask', 'broadcast_to', 'masked_array', 'MaskedArray', 'NDData', 'moveaxis',
               'reshape_as_blocks', 'diagonal', 'rollaxis', 'expand_dims', 'as_strided', 'view_as_blocks'}
ALIAS_METHODS = {'view', 'reshape', 'ravel', 'squeeze', 'transpose', 'swapaxes', 'get', 'pop', 'setdefault', 'to_value', 'diagonal', 'values', 'items', 'popitem'}
COPY_IF_KW = {'array': ('copy', False), 'Quantity': ('copy', False), 'astype': ('copy', False), 'masked_invalid': ('copy', False),
              'masked_where': ('copy', False), 'masked_equal': ('copy', False), 'masked_less': ('copy', False), 'masked_greater': ('copy', False)}   # alias only with copy=False
SCALAR_ATTRS = {'fit_params', '_param_maps', 'fit_results', 'fit_info', 'max_label', 'n_apertures', 'xradius', 'yradius', 'npixels', 'shape', 'size', 'ndim', 'dtype', 'unit', 'name', 'names', 'colnames', 'nlabels', 'labels', 'itemsize', 'nbytes', 'isscalar',
                'param_names', 'n_models', 'fixed', 'bounds', 'tied', 'meta', '__class__', '__name__', 'n_inputs', 'n_outputs', 'kind', 'str'}
INPLACE_FUNCS = {'copyto', 'putmask', 'place', 'put', 'fill_diagonal', 'put_along_axis', 'shuffle'}
INPLACE_METHODS = {'__iadd__', '__isub__', '__imul__', '__itruediv__', '__ifloordiv__', '__ipow__', '__imod__', '__iand__', '__ior__', '__ixor__', '__setitem__',
                   'sort', 'fill', 'resize', 'partition', 'itemset', 'setfield', 'setflags', 'put', 'rename_column', 'rename_columns', 'remove_column',
                   'remove_columns', 'add_column', 'add_columns', 'add_row', 'remove_row', 'remove_rows', 'keep_columns', 'replace_column',
                   'reverse', 'add_index', 'remove_indices', 'insert_row', 'update', 'clear', 'append', 'extend', 'insert', 'remove', 'at'}
# list.append etc. on a parameter mutate the caller's list; on a local list they are harmless (the local is fresh)


# numpy ufuncs: a positional argument after the inputs is `out`
UFUNC_UNARY = {'negative', 'positive', 'absolute', 'abs', 'fabs', 'rint', 'sign', 'conj', 'conjugate', 'exp', 'exp2', 'log', 'log2', 'log10', 'expm1', 'log1p',
               'sqrt', 'square', 'cbrt', 'reciprocal', 'sin', 'cos', 'tan', 'arcsin', 'arccos', 'arctan', 'sinh', 'cosh', 'tanh', 'arcsinh', 'arccosh', 'arctanh',
               'degrees', 'radians', 'deg2rad', 'rad2deg', 'floor', 'ceil', 'trunc', 'isfinite', 'isinf', 'isnan', 'signbit', 'logical_not', 'invert', 'bitwise_not',
               'spacing'}
UFUNC_BINARY = {'add', 'subtract', 'multiply', 'divide', 'true_divide', 'floor_divide', 'power', 'float_power', 'remainder', 'mod', 'fmod', 'maximum', 'minimum',
                'fmax', 'fmin', 'hypot', 'arctan2', 'copysign', 'nextafter', 'ldexp', 'logaddexp', 'logaddexp2', 'greater', 'greater_equal', 'less', 'less_equal',
                'not_equal', 'equal', 'logical_and', 'logical_or', 'logical_xor', 'bitwise_and', 'bitwise_or', 'bitwise_xor', 'left_shift', 'right_shift', 'heaviside'}
# other numpy functions with a positional `out`: name -> its position
POSITIONAL_OUT = {'clip': 3, 'round': 2, 'around': 2, 'cumsum': 3, 'cumprod': 3, 'take': 3, 'choose': 2, 'compress': 3, 'dot': 2, 'matmul': 2, 'outer': 2,
                  'sum': 3, 'prod': 3, 'mean': 3, 'std': 3, 'var': 3, 'min': 2, 'max': 2, 'amin': 2, 'amax': 2, 'nansum': 3, 'nanmean': 3, 'nanmin': 2, 'nanmax': 2,
                  'median': 2, 'nanmedian': 2, 'percentile': 3, 'nanpercentile': 3, 'quantile': 3, 'nanquantile': 3, 'all': 2, 'any': 2, 'argmax': 2, 'argmin': 2,
                  'concatenate': 2, 'stack': 2, 'vstack': None, 'einsum': None, 'multiply': 2}
SHALLOW_COPY_CALLS = {'dict', 'list', 'tuple', 'set', 'frozenset', 'sorted', 'OrderedDict'}     # a new container holding references to the elements
CONTAINER_CALLS = {'dict', 'list', 'tuple', 'OrderedDict', 'set', 'frozenset', 'zip', 'enumerate', 'reversed', 'sorted', 'iter', 'next'}
ALL_ARG_ALIAS_FUNCS = {'broadcast_arrays', 'meshgrid', 'atleast_1d', 'atleast_2d', 'atleast_3d', 'broadcast_to', 'ix_'}


class Ctx:
    def __init__(self, inputs):
        self.vars = {}
        for n in inputs:
            self.var(n)
        self.k = len(inputs)

    def var(self, name):
        if name not in self.vars:
            self.vars[name] = len(self.vars)
        return self.vars[name]


def dotted(e):
    """'a', 'self.x', 'a.b' for Name / Attribute chains; None otherwise"""
    if isinstance(e, ast.Name):
        return e.id
    if isinstance(e, ast.Attribute):
        b = dotted(e.value)
        if b is None:
            return None
        if b == 'self':
            return 'self.' + e.attr
        return b                      # obj.attr aliases obj (conservative)
    return None


def base_of(e):
    """variable through which a subscript / attribute target writes"""
    while isinstance(e, (ast.Subscript, ast.Starred)):
        e = e.value
    return dotted(e)


class Translator:
    def __init__(self, summaries=None, arrayish=None):
        self.summaries = summaries or {}        # function name -> (returns_alias_of_param_indices, writes_param_indices)
        self.returns = []
        self.private_params = {}                # private methods of the class being translated -> parameter names
        self.cls_name = None                    # class being translated: self.m(...) resolves to the summary 'Class.m'
        self.current_property = None            # 'self.<name>' while the body of a (lazy)property of that class is translated
        self.shadowed = set()                   # variables bound to a shallow copy of a container: `<name>@` stands for its elements
        self.class_methods = set()              # names of the methods of the class being translated
        self.current_method_ret = None          # 'self.<name>()' while the body of a method of that class is translated

    def summary_of(self, f, fname):
        if self.cls_name and isinstance(f, ast.Attribute) and isinstance(f.value, ast.Name) and f.value.id == 'self':
            q = f'{self.cls_name}.{fname}'
            if q in self.summaries:
                return self.summaries[q]
        return self.summaries.get(fname)

    # ---------------- expressions: which variables may the value alias
    def sources(self, e):
        if e is None:
            return []
        if isinstance(e, ast.Name):
            return [e.id]
        if isinstance(e, ast.Attribute):
            if e.attr in SCALAR_ATTRS:
                return []
            d = dotted(e)
            return [d] if d else self.sources(e.value)
        if isinstance(e, ast.Subscript):
            base = self.sources(e.value)
            return base + [b + '@' for b in base if b in self.shadowed]
        if isinstance(e, ast.Starred):
            return self.sources(e.value)
        if isinstance(e, ast.IfExp):
            return self.sources(e.body) + self.sources(e.orelse)
        if isinstance(e, ast.BoolOp):
            return [s for v in e.values for s in self.sources(v)]
        if isinstance(e, ast.NamedExpr):
            return self.sources(e.value)
        if isinstance(e, ast.BinOp) and isinstance(e.op, ast.LShift):
            return self.sources(e.left)                          # ndarray << unit is a view
        if isinstance(e, (ast.Tuple, ast.List)):
            return [s for v in e.elts for s in self.sources(v)]  # containers hold references
        if isinstance(e, ast.Call):
            f = e.func
            fname = f.attr if isinstance(f, ast.Attribute) else (getattr(f, 'id', None) or '').split('/')[-1]
            kws = {k.arg: k.value for k in e.keywords if k.arg}
            own = []
            if (isinstance(f, ast.Attribute) and isinstance(f.value, ast.Name) and f.value.id == 'self' and fname in self.class_methods):
                own = [f'self.{fname}()']                        # a method of the same class: whatever its return statements alias
            if own and fname not in ALIAS_METHODS and self.summary_of(f, fname) is None:
                return own
            if fname == 'getattr' and len(e.args) >= 2:
                return self.sources(e.args[0]) + (self.sources(e.args[2]) if len(e.args) > 2 else [])
            if fname in COPY_IF_KW:
                kw, val = COPY_IF_KW[fname]
                v = kws.get(kw)
                if isinstance(v, ast.Constant) and v.value is val:
                    return self.sources(f.value) if (isinstance(f, ast.Attribute) and fname == 'astype') else [s for a in e.args[:2] for s in self.sources(a)]
                return []
            is_module_call = (not isinstance(f, ast.Attribute)) or ast.unparse(f.value).split('/')[-1] in ('np', 'numpy', 'np.ma', 'ma', 'u', 'np.lib.stride_tricks')   # (class programs prefix every name with `<method>/`)
            if isinstance(f, ast.Attribute) and not is_module_call and fname in ALIAS_METHODS:
                base = self.sources(f.value)                     # x.reshape(...), x.view(), d.values() ...: the receiver (and its elements)
                return base + [b + '@' for b in base if b in self.shadowed]
            if fname in CONTAINER_CALLS and not isinstance(f, ast.Attribute):
                # dict(k=x), list((x, y)), zip(x, y) ...: the container / iterator holds references to its arguments
                return [s for a in e.args for s in self.sources(a)] + [s for v in kws.values() for s in self.sources(v)]
            if fname in ALL_ARG_ALIAS_FUNCS and is_module_call:
                return [s for a in e.args for s in self.sources(a)]
            if fname in ALIAS_FUNCS and is_module_call:
                out = [s for a in e.args[:1] for s in self.sources(a)]
                if fname in ('masked_array', 'MaskedArray', 'NDData'):
                    out += [s for a in e.args[1:2] for s in self.sources(a)] + [s for k in ('mask', 'data') if k in kws for s in self.sources(kws[k])]
                return out
            if isinstance(f, ast.Attribute) and fname in ALIAS_METHODS:
                base = self.sources(f.value)
                return base + [b + '@' for b in base if b in self.shadowed]
            if self.summary_of(f, fname) is not None:
                ret, _ = self.summary_of(f, fname)
                args = list(e.args)
                off = 0
                out = list(own)
                for i in ret:
                    j = i - off
                    if 0 <= j < len(args):
                        out += self.sources(args[j])
                return out
            return []
        return []

    @staticmethod
    def is_shallow(v):
        if isinstance(v, ast.IfExp):
            return Translator.is_shallow(v.body) and Translator.is_shallow(v.orelse)
        if isinstance(v, ast.Dict) and not v.keys and not v.values:
            return True                                          # {} as the other branch of `dict(x) if ... else {}`
        return (isinstance(v, ast.Call) and isinstance(v.func, ast.Name) and v.func.id.split('/')[-1] in SHALLOW_COPY_CALLS
                and len(v.args) <= 1 and not any(k.arg is None for k in v.keywords))

    def shallow_elems(self, v):
        """None unless `v` builds a new container from an existing one; otherwise the variables its ELEMENTS may alias"""
        if v is None or not self.is_shallow(v) or (isinstance(v, ast.Dict)):
            return None
        if isinstance(v, ast.IfExp):
            a, b = (self.shallow_elems(x) or [] for x in (v.body, v.orelse))
            return a + b
        src = [s_ for a in v.args for s_ in self.sources(a)]
        return src + [s_ + '@' for s_ in src if s_ in self.shadowed] + [s_ for k in v.keywords for s_ in self.sources(k.value)]

    def write_bases(self, e, element=True):
        """variables through which a store into `e[...]`, an in-place operator on `e` or an `out=e` writes: the dotted base when there
        is one, otherwise everything the expression may alias (`x.ravel()[0] = v`, `np.asarray(x)[...] = v`, `(a if c else b)[0] = v`).
        `element`: the operation works IN PLACE on the selected element (`c[i] += 1`, `c[i].sort()`, `out=c[i]`) rather than storing into
        the container (`c[i] = v`): for a shallow copy of a container that reaches the shared elements `c@`."""
        depth = 0
        while isinstance(e, (ast.Subscript, ast.Starred)):
            depth += isinstance(e, ast.Subscript)
            e = e.value
        d = dotted(e)
        if d:
            return [d] + ([d + '@'] if element and depth and d in self.shadowed else [])
        return list(dict.fromkeys(self.sources(e)))

    # ---------------- statements
    def emit_assign(self, ctx, target, srcs):
        d = ctx.var(target)
        srcs = [s for s in dict.fromkeys(srcs) if s != target or True]
        if not srcs:
            return ('fresh', d)
        st = None
        for s in srcs:
            a = ('assign', d, ctx.var(s))
            st = a if st is None else ('ite', st, a)
        return st

    def call_effects(self, ctx, e, out):
        """writes performed by a call expression (in-place numpy functions, out=, mutating methods, summarised callees)"""
        for c in ast.walk(e):
            if not isinstance(c, ast.Call):
                continue
            f = c.func
            fname = f.attr if isinstance(f, ast.Attribute) else (getattr(f, 'id', None) or '').split('/')[-1]
            # call of a private method of the same class: bind the callee's parameter variables (its body runs inside the class loop)
            if isinstance(f, ast.Attribute) and isinstance(f.value, ast.Name) and f.value.id == 'self' and fname in self.private_params:
                ps = self.private_params[fname]
                for i, a in enumerate(c.args):
                    if i < len(ps):
                        for src in self.sources(a):
                            out.append(('assign', ctx.var(f'{fname}/{ps[i]}'), ctx.var(src)))
                for k in c.keywords:
                    if k.arg in ps:
                        for src in self.sources(k.value):
                            out.append(('assign', ctx.var(f'{fname}/{k.arg}'), ctx.var(src)))
            for k in c.keywords:
                if k.arg == 'out':
                    for b in self.write_bases(k.value):
                        out.append(('write', ctx.var(b), c.lineno))
            np_call = isinstance(f, ast.Attribute) and ast.unparse(f.value).split('/')[-1] in ('np', 'numpy', 'np.ma', 'ma')
            if np_call:
                # a positional `out`
                pos = 1 if fname in UFUNC_UNARY else 2 if fname in UFUNC_BINARY else POSITIONAL_OUT.get(fname)
                if pos is not None and len(c.args) > pos:
                    for b in self.write_bases(c.args[pos]):
                        out.append(('write', ctx.var(b), c.lineno))
            if fname in INPLACE_FUNCS and c.args:
                for b in self.write_bases(c.args[0]):
                    out.append(('write', ctx.var(b), c.lineno))
            if isinstance(f, ast.Attribute) and fname in INPLACE_METHODS:
                if fname == 'at' and isinstance(f.value, ast.Attribute) and c.args:      # np.add.at(x, ...)
                    bs = self.write_bases(c.args[0])
                else:
                    bs = self.write_bases(f.value)
                for b in bs:
                    if b and b != 'self' and not (b.startswith('self.') and fname in ('append', 'extend', 'update', 'clear', 'pop', 'insert', 'remove', 'get', 'setdefault')):
                        out.append(('write', ctx.var(b), c.lineno))
            if self.summary_of(f, fname) is not None:
                _, wr = self.summary_of(f, fname)
                for i in wr:
                    if i < len(c.args):
                        for s in self.sources(c.args[i]):
                            out.append(('write', ctx.var(s), c.lineno))

    def stmt(self, ctx, s, arrayish):
        out = []
        if isinstance(s, (ast.Assign, ast.AnnAssign)):
            value = s.value
            targets = s.targets if isinstance(s, ast.Assign) else [s.target]
            if value is not None:
                self.call_effects(ctx, value, out)
            for t in targets:
                self.assign_target(ctx, t, value, out)
        elif isinstance(s, ast.AugAssign):
            self.call_effects(ctx, s.value, out)
            if isinstance(s.op, ast.LShift):
                pass                                             # x <<= unit rebinds x to a view
            else:
                for b in self.write_bases(s.target):
                    if b and (isinstance(s.target, ast.Subscript) or b not in arrayish):
                        out.append(('write', ctx.var(b), s.lineno))
        elif isinstance(s, ast.Expr):
            self.call_effects(ctx, s.value, out)
        elif isinstance(s, ast.Return):
            if s.value is not None:
                self.call_effects(ctx, s.value, out)
                self.returns.append(self.sources(s.value))
                for src in self.sources(s.value):
                    # weak update: the return variable accumulates everything any return statement may alias
                    out.append(('ite', ('assign', ctx.var('<return>'), ctx.var(src)), ('skip',)))
                    if self.current_method_ret:
                        # what `self.<name>(...)` returns when called from another method of the class
                        out.append(('ite', ('assign', ctx.var(self.current_method_ret), ctx.var(src)), ('skip',)))
                    if self.current_property:
                        # a property of the class being translated: reading `self.<name>` elsewhere yields what it returns
                        out.append(('ite', ('assign', ctx.var(self.current_property), ctx.var(src)), ('skip',)))
        elif isinstance(s, ast.With):
            for it in s.items:
                self.call_effects(ctx, it.context_expr, out)
            out.append(self.block(ctx, s.body, arrayish))
        elif isinstance(s, (ast.For, ast.AsyncFor)):
            self.call_effects(ctx, s.iter, out)
            pre = []
            self.assign_target(ctx, s.target, s.iter, pre, iterate=True)
            body = self.seq(pre + [self.block(ctx, s.body, arrayish)])
            out.append(('loop', body))
            if s.orelse:
                out.append(self.block(ctx, s.orelse, arrayish))
        elif isinstance(s, ast.While):
            self.call_effects(ctx, s.test, out)
            out.append(('loop', self.block(ctx, s.body, arrayish)))
            if s.orelse:
                out.append(self.block(ctx, s.orelse, arrayish))
        elif isinstance(s, ast.Try):
            body = self.block(ctx, s.body + s.orelse, arrayish)
            hs = [self.block(ctx, h.body, arrayish) for h in s.handlers]
            alt = ('skip',)
            for h in hs:
                alt = ('ite', alt, h)
            out.append(('ite', body, ('skip',)))
            out.append(alt)
            if s.finalbody:
                out.append(self.block(ctx, s.finalbody, arrayish))
        elif isinstance(s, ast.Delete):
            for t in s.targets:
                if isinstance(t, ast.Subscript):
                    b = base_of(t)
                    if b and not b.startswith('self'):
                        out.append(('write', ctx.var(b), s.lineno))
        return self.seq(out)

    def assign_target(self, ctx, t, value, out, iterate=False):
        if isinstance(t, (ast.Tuple, ast.List)):
            if isinstance(value, (ast.Tuple, ast.List)) and len(value.elts) == len(t.elts):
                for tt, vv in zip(t.elts, value.elts):
                    self.assign_target(ctx, tt, vv, out, iterate)
            else:
                for tt in t.elts:
                    self.assign_target(ctx, tt, value, out, iterate)      # each element may alias what the iterable aliases
            return
        if isinstance(t, ast.Starred):
            t = t.value
        tname = t.id if isinstance(t, ast.Name) else (dotted(t) if isinstance(t, ast.Attribute) and (dotted(t) or '').startswith('self.') else None)
        sh = self.shallow_elems(value) if tname else None
        if tname and sh is not None:
            # a NEW container (dict(x), list(x), sorted(x) ...): stores into it stay local, its elements are shared
            out.append(('fresh', ctx.var(tname)))
            out.append(self.emit_assign(ctx, tname + '@', sh))
            return
        if tname and tname in self.shadowed:
            srcs = self.sources(value)
            out.append(self.emit_assign(ctx, tname, srcs))
            out.append(self.emit_assign(ctx, tname + '@', [s_ + '@' for s_ in srcs if s_ in self.shadowed]))
            return
        if isinstance(t, ast.Name):
            srcs = self.sources(value)
            if iterate:                                          # `for a in c`: a is an element of c
                srcs = srcs + [s_ + '@' for s_ in srcs if s_ in self.shadowed]
            out.append(self.emit_assign(ctx, t.id, srcs))
        elif isinstance(t, ast.Attribute):
            d = dotted(t)
            if d and d.startswith('self.'):
                out.append(self.emit_assign(ctx, d, self.sources(value)))
            elif d and d != 'self':
                out.append(('write', ctx.var(d), getattr(t, 'lineno', 0)))               # obj.attr = v mutates obj
        elif isinstance(t, ast.Subscript):
            for b in self.write_bases(t, element=isinstance(t.value, ast.Subscript)):
                out.append(('write', ctx.var(b), getattr(t, 'lineno', 0)))
                # storing a reference: the container now aliases the value (x[i] = data keeps data reachable)

    def seq(self, items):
        items = [i for i in items if i and i != ('skip',)]
        if not items:
            return ('skip',)
        st = items[-1]
        for i in reversed(items[:-1]):
            st = ('seq', i, st)
        return st

    def none_test(self, t):
        if isinstance(t, ast.Compare) and len(t.ops) == 1 and isinstance(t.comparators[0], ast.Constant) and t.comparators[0].value is None:
            d = t.left
            if isinstance(d, ast.Name) or (isinstance(d, ast.Attribute) and isinstance(d.value, ast.Name) and d.value.id == 'self'):
                if isinstance(t.ops[0], ast.Is):
                    return d, True
                if isinstance(t.ops[0], ast.IsNot):
                    return d, False
        return None

    def terminates(self, stmts):
        return bool(stmts) and isinstance(stmts[-1], (ast.Return, ast.Raise, ast.Continue, ast.Break))

    def block(self, ctx, stmts, arrayish):
        out = []
        for i, s in enumerate(stmts):
            if isinstance(s, ast.If):
                self.call_effects(ctx, s.test, out)
                rest = stmts[i + 1:]
                tb, eb = list(s.body), list(s.orelse)
                # `if x is None:` - inside that branch x is None, not the caller's object
                nn = self.none_test(s.test)
                if nn:
                    node, is_none = nn
                    mark = ast.Assign(targets=[node], value=ast.Constant(value=None), lineno=s.lineno)
                    if is_none:
                        tb = [mark] + tb
                    else:
                        eb = [mark] + eb if eb else ([mark] if False else eb)
                if self.terminates(tb) and not self.terminates(eb) and rest:
                    out.append(('ite', self.block(ctx, tb, arrayish), self.block(ctx, eb + rest, arrayish)))
                    return self.seq(out)
                if self.terminates(eb) and not self.terminates(tb) and rest and eb:
                    out.append(('ite', self.block(ctx, tb + rest, arrayish), self.block(ctx, eb, arrayish)))
                    return self.seq(out)
                out.append(('ite', self.block(ctx, tb, arrayish), self.block(ctx, eb, arrayish)))
                continue
            if isinstance(s, (ast.Return, ast.Raise)):
                out.append(self.stmt(ctx, s, arrayish))
                break
            if isinstance(s, (ast.FunctionDef, ast.ClassDef, ast.Import, ast.ImportFrom, ast.Pass, ast.Global, ast.Nonlocal, ast.Assert)):
                continue
            out.append(self.stmt(ctx, s, arrayish))
        return self.seq(out)


# local names that always hold Python / numpy scalars or immutable objects (augmented assignment rebinds them)
SCALAR_NAMES = {'unit', 'phi', 'radius', 'angle', 'sma', 'step'}
SCALAR_CALLS = {'len', 'int', 'float', 'round', 'max', 'min', 'sum', 'abs', 'bool', 'str', 'range', 'enumerate', 'py2intround', 'ceil', 'floor',
                'sqrt', 'count_nonzero', 'prod', 'median', 'mean', 'nanmedian', 'nanmean', 'time', 'index', 'hypot', 'log', 'log10', 'exp'}


def arrayish_names(fn):
    """names that are evidently NOT arrays (augmented assignment on them rebinds a scalar): every binding in the function is a
    number, a scalar-valued call, arithmetic, or a loop counter"""
    binds = {}

    def note(t, v):
        if isinstance(t, ast.Name):
            binds.setdefault(t.id, []).append(v)
        elif isinstance(t, (ast.Tuple, ast.List)):
            for tt in t.elts:
                note(tt, None)
    for n in ast.walk(fn):
        if isinstance(n, ast.Assign):
            for t in n.targets:
                note(t, n.value)
        elif isinstance(n, ast.AnnAssign) and n.value is not None:
            note(n.target, n.value)
        elif isinstance(n, (ast.For,)):
            note(n.target, None)

    visiting = set()

    def scalar(v):
        if v is None:
            return False
        if isinstance(v, ast.Constant):
            return isinstance(v.value, (int, float, str, bool, type(None)))
        if isinstance(v, ast.UnaryOp):
            return scalar(v.operand)
        if isinstance(v, ast.BinOp):
            return scalar(v.left) and scalar(v.right)
        if isinstance(v, ast.Call):
            f = v.func
            nm = f.attr if isinstance(f, ast.Attribute) else getattr(f, 'id', '')
            return nm in SCALAR_CALLS
        if isinstance(v, ast.Attribute):
            return v.attr in SCALAR_ATTRS
        if isinstance(v, ast.Subscript):
            return isinstance(v.value, ast.Attribute) and v.value.attr in ('shape',)
        if isinstance(v, ast.Name):
            if v.id in visiting:
                return True                                  # x = x + 1: decided by the other bindings of x
            if v.id not in binds or v.id in params:
                return False
            visiting.add(v.id)
            try:
                return all(scalar(x) for x in binds[v.id])
            finally:
                visiting.discard(v.id)
        return False
    params = set(params_of(fn))
    return {nm for nm, vs in binds.items() if nm not in params and vs and all(scalar(v) for v in vs)} | SCALAR_NAMES


def params_of(fn):
    """positional / keyword parameters; *args and **kwargs are containers created by the call itself (fresh)"""
    a = fn.args
    ps = [x.arg for x in a.posonlyargs + a.args + a.kwonlyargs]
    return [p for p in ps if p not in ('self', 'cls')]


def is_private(name):
    return name.startswith('_') and not (name.startswith('__') and name.endswith('__'))


def shallow_targets(node):
    """names (or self.<attr>) assigned from a shallow container copy in this unit, closed under plain `a = b` copies"""
    names = set()
    changed = True
    while changed:
        changed = False
        for x in ast.walk(node):
            if isinstance(x, ast.Assign):
                v = x.value
                hit = Translator.is_shallow(v) and not isinstance(v, ast.Dict)
                if not hit:
                    d = dotted(v) if isinstance(v, (ast.Name, ast.Attribute)) else None
                    hit = d in names
                if hit:
                    for t in x.targets:
                        d = t.id if isinstance(t, ast.Name) else (dotted(t) if isinstance(t, ast.Attribute) else None)
                        if d and d not in names and (isinstance(t, ast.Name) or d.startswith('self.')):
                            names.add(d)
                            changed = True
    return names


def translate_function(fn, summaries, cls_name=None):
    tr = Translator(summaries)
    tr.cls_name = cls_name
    tr.shadowed = shallow_targets(fn)
    ps = params_of(fn)
    ctx = Ctx(ps)
    prog = tr.block(ctx, fn.body, arrayish_names(fn))
    return ps, ctx, prog, tr


def translate_class(cls, summaries):
    """inputs = parameters of the non-private methods; private methods run inside the loop with their parameters bound at the
    call sites (self._m(args)); returns (inputs, ctx, prog, init_param_names)"""
    methods = [m for m in cls.body if isinstance(m, ast.FunctionDef)]
    inputs = []
    for m in methods:
        if not is_private(m.name):
            for p in params_of(m):
                inputs.append(f'{m.name}::{p}')
    ctx = Ctx(inputs)
    tr = Translator(summaries)
    tr.cls_name = cls.name
    tr.private_params = {m.name: params_of(m) for m in methods if is_private(m.name)}
    tr.class_methods = {m.name for m in methods}

    def body_of(m):
        pre = []
        if not is_private(m.name):
            pre = [('assign', ctx.var(f'{m.name}/{p}'), ctx.var(f'{m.name}::{p}')) for p in params_of(m)]
        ren = Renamer(m.name, set(params_of(m)))
        mm = ren.visit(copy.deepcopy(m))
        tr.shadowed |= shallow_targets(mm)
        decos = {(d.attr if isinstance(d, ast.Attribute) else getattr(d, 'id', None)) for d in m.decorator_list}
        tr.current_property = f'self.{m.name}' if decos & {'property', 'lazyproperty', 'cached_property'} else None
        tr.current_method_ret = f'self.{m.name}()'
        try:
            return tr.seq(pre + [tr.block(ctx, mm.body, {ren.rename(n) for n in arrayish_names(m)})])
        finally:
            tr.current_property = None
            tr.current_method_ret = None
    init = next((m for m in methods if m.name == '__init__'), None)
    others = [m for m in methods if m.name != '__init__']
    alt = None
    for m in others:
        b = body_of(m)
        alt = b if alt is None else ('ite', alt, b)
    prog = tr.seq([body_of(init) if init else ('skip',), ('loop', alt) if alt else ('skip',)])
    return inputs, ctx, prog, ([f'__init__::{p}' for p in params_of(init)] if init else [])


class Renamer(ast.NodeTransformer):
    """method-local names get a method prefix so that locals of different methods do not collide; `self.X` stays shared"""

    def __init__(self, prefix, params):
        self.prefix = prefix

    def rename(self, n):
        if n == 'self' or n.startswith('self.'):
            return n
        head, _, tail = n.partition('.')
        return f'{self.prefix}/{head}' + (('.' + tail) if tail else '')

    def visit_Name(self, node):
        if node.id != 'self':
            node.id = f'{self.prefix}/{node.id}'
        return node

    def visit_arg(self, node):
        return node


def to_lean(st):
    k = st[0]
    if k == 'skip':
        return '.skip'
    if k == 'assign':
        return f'(.assign {st[1]} {st[2]})'
    if k == 'fresh':
        return f'(.fresh {st[1]})'
    if k == 'write':
        return f'(.write {st[1]})'
    return f'(.{k} {" ".join(to_lean(x) for x in st[1:] if isinstance(x, tuple))})'


def to_prefix(st):
    k = st[0]
    if k == 'skip':
        return 'k'
    if k in ('assign',):
        return f'a {st[1]} {st[2]}'
    if k == 'fresh':
        return f'f {st[1]}'
    if k == 'write':
        return f'w {st[1]}'
    return {'seq': 's', 'ite': 'i', 'loop': 'l'}[k] + ' ' + ' '.join(to_prefix(x) for x in st[1:])


def size(st):
    return 1 + sum(size(x) for x in st[1:] if isinstance(x, tuple))


def writes_through(st, acc=None):
    acc = set() if acc is None else acc
    if st[0] == 'write':
        acc.add(st[1])
    for x in st[1:]:
        if isinstance(x, tuple):
            writes_through(x, acc)
    return acc


def maxvar(st):
    vs = st[1:2] if st[0] == 'write' else st[1:]
    m = max([x for x in vs if isinstance(x, int)] + [-1])
    for x in st[1:]:
        if isinstance(x, tuple):
            m = max(m, maxvar(x))
    return m


def nvars(prog, k, ret=0):
    return max(maxvar(prog), k - 1, ret) + 1


def only_write(st, target):
    """the program with every write except `target` (an object identity) turned into skip"""
    if st is target:
        return st
    if st[0] == 'write':
        return ('skip',)
    return (st[0],) + tuple(only_write(x, target) if isinstance(x, tuple) else x for x in st[1:])


def all_writes(st, acc=None):
    acc = [] if acc is None else acc
    if st[0] == 'write':
        acc.append(st)
    for x in st[1:]:
        if isinstance(x, tuple):
            all_writes(x, acc)
    return acc


def slice_program(prog, k, keep=()):
    """drop assignments to variables that can never reach a write (or a variable in `keep`), then renumber the variables;
    inputs keep their numbers 0..k-1.  Returns (program, old->new variable map)."""
    assigns, writes = [], set(keep)

    def walk(st):
        if st[0] == 'assign':
            assigns.append((st[1], st[2]))
        elif st[0] == 'write':
            writes.add(st[1])
        for x in st[1:]:
            if isinstance(x, tuple):
                walk(x)
    walk(prog)
    rel = set(writes)
    changed = True
    while changed:
        changed = False
        for d, s_ in assigns:
            if d in rel and s_ not in rel:
                rel.add(s_)
                changed = True
    order = list(range(k)) + sorted(v for v in rel if v >= k)
    ren = {v: i for i, v in enumerate(order)}

    def rebuild(st):
        t = st[0]
        if t == 'assign':
            if st[1] not in rel:
                return ('skip',)
            return ('assign', ren[st[1]], ren[st[2]])
        if t == 'fresh':
            return ('fresh', ren[st[1]]) if st[1] in rel else ('skip',)
        if t == 'write':
            return ('write', ren[st[1]]) + tuple(st[2:])
        if t == 'skip':
            return st
        parts = [rebuild(x) for x in st[1:]]
        if t == 'seq':
            a, b = parts
            if a == ('skip',):
                return b
            if b == ('skip',):
                return a
            return ('seq', a, b)
        if t == 'ite':
            a, b = parts
            if a == b:
                return a
            return ('ite', a, b)
        if t == 'loop':
            return ('skip',) if parts[0] == ('skip',) else ('loop', parts[0])
        return (t,) + tuple(parts)
    return rebuild(prog), ren
