"""Shared input generators (dyadic-safe images, masks, label maps, scenes)."""
import math

import numpy as np


def size(r, lo=1, hi=12):
    """image side, skewed to small"""
    if r.random() < 0.5:
        return r.randint(lo, min(hi, max(lo, 6)))
    return r.randint(lo, hi)


def dy(r, m=3, span=8):
    return r.randint(-span * 2 ** m, span * 2 ** m) / 2 ** m


def image(r, ny, nx, special=0.2, palette=0.5, nonneg=False):
    """dyadic pixel values; with probability `palette` drawn from <= 4 levels (ties/plateaus);
    NaN/inf injected with probability `special`"""
    if r.random() < palette:
        levels = [dy(r, 2, 6) for _ in range(r.randint(1, 4))]
        a = np.array([[r.choice(levels) for _ in range(nx)] for _ in range(ny)], dtype=float)
    else:
        a = np.array([[dy(r, 3, 8) for _ in range(nx)] for _ in range(ny)], dtype=float)
    if nonneg:
        a = np.abs(a)
    if r.random() < special:
        for _ in range(r.randint(1, 3)):
            a[r.randrange(ny), r.randrange(nx)] = r.choice([np.nan, np.inf, -np.inf, np.nan])
    return a


def mask(r, ny, nx):
    t = r.random()
    if t < 0.25:
        return None
    if t < 0.35:
        return np.zeros((ny, nx), bool)
    if t < 0.42:
        return np.ones((ny, nx), bool)
    if t < 0.6:
        m = np.zeros((ny, nx), bool)
        m[:, r.randrange(nx)] = True
        if r.random() < 0.5:
            m[r.randrange(ny), :] = True
        return m
    p = r.choice([0.1, 0.3, 0.6])
    return np.array([[r.random() < p for _ in range(nx)] for _ in range(ny)], dtype=bool)


def error_map(r, ny, nx):
    if r.random() < 0.3:
        return None
    return np.array([[r.randint(0, 32) / 8 for _ in range(nx)] for _ in range(ny)], dtype=float)


def vtok(x):
    """token of a float for the V parser (exact rational, nan, inf, -inf)"""
    from common import q
    x = float(x)
    if math.isnan(x):
        return 'nan'
    if math.isinf(x):
        return 'inf' if x > 0 else '-inf'
    return q(x)


def arr_tokens(a):
    return ' '.join(vtok(v) for v in np.asarray(a, dtype=float).ravel())


def mask_tokens(m):
    if m is None:
        return '-'
    return ' '.join('1' if v else '0' for v in np.asarray(m).ravel())


def label_map(r, ny, nx, maxlabels=5, gaps=True, background=True):
    """random blobs by region growing; touching/nested labels, label gaps, non-connected labels"""
    a = np.zeros((ny, nx), dtype=int)
    nl = r.randint(0, maxlabels)
    labels = []
    nxt = 1
    for _ in range(nl):
        if gaps and r.random() < 0.3:
            nxt += r.randint(1, 3)
        labels.append(nxt)
        nxt += 1
    for lab in labels:
        seeds = 1 if r.random() < 0.8 else 2      # 2 seeds -> possibly non-connected label
        for _ in range(seeds):
            y, x = r.randrange(ny), r.randrange(nx)
            for _ in range(r.randint(1, max(1, ny * nx // 3))):
                a[y, x] = lab
                dy_, dx_ = r.choice([(0, 1), (1, 0), (0, -1), (-1, 0)])
                y = min(max(y + dy_, 0), ny - 1)
                x = min(max(x + dx_, 0), nx - 1)
    if not background and ny * nx > 0:
        a[a == 0] = labels[0] if labels else 1
    return a


def gaussian_scene(r, ny, nx, nsrc=3, noise=0.0, pad=4):
    """asymmetric elliptical Gaussians; returns (image, list of (x, y))"""
    yy, xx = np.mgrid[0:ny, 0:nx]
    img = np.zeros((ny, nx))
    pos = []
    for _ in range(nsrc):
        x0 = r.uniform(pad, nx - 1 - pad)
        y0 = r.uniform(pad, ny - 1 - pad)
        sx = r.uniform(0.9, 2.2)
        sy = r.uniform(0.9, 2.2)
        th = r.uniform(0, math.pi)
        amp = r.uniform(20, 100)
        c, s = math.cos(th), math.sin(th)
        xr = (xx - x0) * c + (yy - y0) * s
        yr = -(xx - x0) * s + (yy - y0) * c
        img += amp * np.exp(-0.5 * ((xr / sx) ** 2 + (yr / sy) ** 2))
        pos.append((x0, y0))
    if noise:
        rs = np.random.RandomState(r.randrange(2 ** 31))
        img += np.round(rs.normal(0, noise, img.shape) * 64) / 64
    return img, pos
