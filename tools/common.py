"""
Shared machinery for the PhotVerif checks: Lean build/audit, driver process,
PRNG + dyadic generators, evidence writer, violation / known-finding reporting.
Run with /venv/bin/python (photutils importable, editable install of /repo).
"""
import fcntl
import hashlib
import json
import os
import random
import re
import struct
import subprocess
import sys
import time
from fractions import Fraction

HERE = os.path.dirname(os.path.abspath(__file__))
VERIF = os.path.abspath(os.path.join(HERE, '..'))
LEAN = os.path.join(VERIF, 'lean')
REPO = os.environ.get('PHOTVERIF_REPO', '/repo')
ALLOWED_AXIOMS = {'propext', 'Classical.choice', 'Quot.sound'}
BAD_TOKENS = re.compile(r'\b(sorry|admit|native_decide|bv_decide|implemented_by|unsafe)\b'
                        r'|^\s*axiom\s|maxHeartbeats\s+0\b', re.M)

TRUSTED_BASE = [
    'Lean 4.33.0 kernel (+ Mathlib v4.33.0 modules imported by the proof files)',
    'axioms admitted: propext, Classical.choice, Quot.sound only (audited by #print axioms each run)',
    'translators tools/translate.py + tools/gen_lean.py / table extractors (Python ast -> Lean)',
    'correspondence harness (generators, canonicalisation, comparators) - differential testing',
    'real-number semantics: theorems are over exact arithmetic, not IEEE binary64',
]


# --------------------------------------------------------------------------- util
def seed():
    try:
        return int(os.environ.get('VERIF_SEED', '0'))
    except ValueError:
        return 0


def rng(tag=''):
    return random.Random(f'{seed()}:{tag}')


def q(x):
    """exact rational text of a python float / int / Fraction"""
    if isinstance(x, bool):
        x = int(x)
    if isinstance(x, int):
        return str(x)
    if isinstance(x, Fraction):
        return str(x.numerator) if x.denominator == 1 else f'{x.numerator}/{x.denominator}'
    fr = Fraction(float(x))
    return str(fr.numerator) if fr.denominator == 1 else f'{fr.numerator}/{fr.denominator}'


def parse_q(s):
    return Fraction(s)


def fbits(x):
    return str(struct.unpack('<Q', struct.pack('<d', float(x)))[0])


def bits_to_float(s):
    return struct.unpack('<d', struct.pack('<Q', int(s)))[0]


def dyadic(r, m=3, span=8):
    """k / 2^m uniform in [-span, span]"""
    return r.randint(-span * 2 ** m, span * 2 ** m) / 2 ** m


def sha(s):
    if not isinstance(s, bytes):
        s = s.encode()
    return hashlib.sha256(s).hexdigest()[:16]


# --------------------------------------------------------------------------- Lean
class LeanResult:
    def __init__(self):
        self.ok = True
        self.problems = []     # list of str
        self.theorems = []     # names audited
        self.axioms = {}       # theorem -> [axioms]
        self.build_s = 0.0
        self.gen = {}


def _lock():
    fh = open(os.path.join(LEAN, '.build.lock'), 'w')
    fcntl.flock(fh, fcntl.LOCK_EX)
    return fh


def lake_build(targets, timeout=3000):
    """build modules (dotted names) under a file lock; returns (ok, output)"""
    lk = _lock()
    try:
        t0 = time.time()
        p = subprocess.run(['lake', 'build'] + list(targets), cwd=LEAN, capture_output=True,
                           text=True, timeout=timeout)
        return p.returncode == 0, p.stdout + p.stderr, time.time() - t0
    finally:
        lk.close()


def strip_comments(text):
    text = re.sub(r'/-.*?-/', '', text, flags=re.S)
    text = re.sub(r'--.*', '', text)
    return text


def theorem_names(path):
    """fully qualified names of theorems in a Props file (single namespace per file)"""
    text = strip_comments(open(path).read())
    ns = re.findall(r'^namespace\s+(\S+)', text, flags=re.M)
    prefix = (ns[0] + '.') if ns else ''
    return [prefix + n for n in re.findall(r'^theorem\s+([\w.\'?!]+)', text, flags=re.M)]


def module_deps(mod, seen=None):
    """PhotVerif.* modules transitively imported by mod (by reading sources)"""
    if seen is None:
        seen = []
    path = os.path.join(LEAN, mod.replace('.', '/') + '.lean')
    if mod in seen or not os.path.exists(path):
        return seen
    seen.append(mod)
    for m in re.findall(r'^import\s+(PhotVerif\.\S+)', open(path).read(), flags=re.M):
        module_deps(m, seen)
    return seen


def prove(prop_modules):
    """(P): regenerate Gen, build the property modules, token-grep, axiom audit."""
    import gen_lean
    res = LeanResult()
    # regenerate the Gen/ files the property's modules (transitively) import - the tie for THIS property
    deps = []
    for m in prop_modules:
        module_deps(m, deps)
    needed = {m.split('.')[-1] + '.lean' for m in deps if m.startswith('PhotVerif.Gen.')}
    res.gen = gen_lean.regenerate(only_files=needed)
    for k, v in res.gen.items():
        if not v['ok']:
            res.ok = False
            res.problems.append(f'translator failed for {k}: {v["error"]}')
    ok, out, dt = lake_build(prop_modules)
    res.build_s = dt
    if not ok:
        res.ok = False
        errs = [ln for ln in out.split('\n') if 'error' in ln][:12]
        res.problems.append('lake build failed: ' + ' | '.join(errs))
        res.build_log = out
        return res
    # token grep over every PhotVerif source the property modules depend on
    mods = []
    for m in prop_modules:
        module_deps(m, mods)
    for m in mods:
        path = os.path.join(LEAN, m.replace('.', '/') + '.lean')
        hit = BAD_TOKENS.search(strip_comments(open(path).read()))
        if hit:
            res.ok = False
            res.problems.append(f'forbidden token {hit.group(0).strip()!r} in {m}')
    # axiom audit
    names = []
    for m in prop_modules:
        names += theorem_names(os.path.join(LEAN, m.replace('.', '/') + '.lean'))
    res.theorems = names
    if names:
        audit = ''.join(f'import {m}\n' for m in prop_modules) + \
            ''.join(f'#print axioms {n}\n' for n in names)
        apath = os.path.join(LEAN, f'.audit_{os.getpid()}.lean')
        with open(apath, 'w') as fh:
            fh.write(audit)
        try:
            p = subprocess.run(['lake', 'env', 'lean', apath], cwd=LEAN, capture_output=True,
                               text=True, timeout=1200)
        finally:
            os.unlink(apath)
        txt = p.stdout + p.stderr
        if p.returncode != 0:
            res.ok = False
            res.problems.append('axiom audit failed to run: ' + txt[:400])
        for n in names:
            m = re.search(r"'" + re.escape(n) + r"' depends on axioms: \[([^\]]*)\]", txt, flags=re.S)
            if m:
                ax = [a.strip() for a in m.group(1).replace('\n', ' ').split(',') if a.strip()]
            elif re.search(r"'" + re.escape(n) + r"' does not depend on any axioms", txt):
                ax = []
            else:
                res.ok = False
                res.problems.append(f'no axiom report for {n}')
                continue
            res.axioms[n] = ax
            bad = [a for a in ax if a not in ALLOWED_AXIOMS]
            if bad:
                res.ok = False
                res.problems.append(f'theorem {n} depends on non-admitted axioms {bad}')
    return res


def leanchecker(mods, timeout=3000):
    p = subprocess.run(['lake', 'env', 'leanchecker'] + list(mods), cwd=LEAN, capture_output=True,
                       text=True, timeout=timeout)
    return p.returncode == 0, (p.stdout + p.stderr)[-2000:]


class Driver:
    """batch interface to the Lean model driver"""

    def __init__(self):
        self.ok = True
        self.error = None

    def run(self, lines, timeout=3000):
        if not lines:
            return []
        ok, out, _ = lake_build(['photdriver'])
        exe = os.path.join(LEAN, '.lake', 'build', 'bin', 'photdriver')
        inp = '\n'.join(lines) + '\n'
        if ok and os.path.exists(exe):
            p = subprocess.run([exe], cwd=LEAN, input=inp, capture_output=True, text=True, timeout=timeout)
        else:
            # fall back to the interpreter (slower) if the executable cannot be linked
            ok2, out2, _ = lake_build(['PhotVerif.Driver.All'])
            if not ok2:
                self.ok = False
                self.error = 'driver build failed: ' + ' | '.join(
                    ln for ln in (out + out2).split('\n') if 'error' in ln)[:1500]
                return None
            p = subprocess.run(['lake', 'env', 'lean', '--run', 'Driver.lean'], cwd=LEAN, input=inp,
                               capture_output=True, text=True, timeout=timeout)
        outl = p.stdout.split('\n')
        if outl and outl[-1] == '':
            outl.pop()
        if p.returncode != 0 or len(outl) != len(lines):
            self.ok = False
            self.error = (f'driver exit {p.returncode}, {len(outl)} replies for {len(lines)} '
                          f'requests: {p.stderr[:1500]}')
            return None
        return outl


# --------------------------------------------------------------------------- reporting
class Report:
    """collects everything one check run found and writes evidence / replays"""

    def __init__(self, pid, tier):
        self.pid = pid
        self.tier = tier
        self.t0 = time.time()
        self.violations = []       # dicts: {sig, what, replay{...}}
        self.evaluations = 0
        self.nontrivial = set()
        self.samples = []
        self.traces = 0
        self.probe_only = 0
        self.hist = {}
        self.notes = []
        self.lean = None
        self.tie_problems = []     # proof / translator / correspondence breaks w/o failing input
        self.assumptions = []
        self.rule = ''
        self.extra = {}

    # -- counting
    def case(self, key, nontrivial=True, sample=None, kind=None):
        self.evaluations += 1
        if nontrivial:
            self.nontrivial.add(sha(repr(key)))
        if sample is not None and len(self.samples) < 5:
            self.samples.append(sample)
        if kind:
            self.hist[kind] = self.hist.get(kind, 0) + 1

    def count(self, kind, n=1):
        self.hist[kind] = self.hist.get(kind, 0) + n

    # -- violations
    def violation(self, sig, what, replay):
        """sig: stable signature string used to match known findings"""
        self.violations.append({'sig': sig, 'what': what, 'replay': replay})

    def tie_broken(self, what, detail=None):
        self.tie_problems.append({'what': what, 'detail': detail})

    def finish(self):
        known = load_known()
        fails = []
        seen_known = set()
        for v in self.violations:
            kf = match_known(known, self.pid, v['sig'])
            if kf is not None:
                if kf['id'] not in seen_known:
                    seen_known.add(kf['id'])
                    print(f'KNOWN-FINDING: property={self.pid} {kf["what"]}')
                continue
            fails.append(v)
        exit_code = 0
        os.makedirs(os.path.join(VERIF, 'replays', self.pid), exist_ok=True)
        reported = set()
        for v in fails:
            if v['sig'] in reported:
                continue
            reported.add(v['sig'])
            rp = os.path.join('replays', self.pid, sha(v['sig'] + json.dumps(v['replay'], sort_keys=True,
                                                                              default=str)) + '.json')
            with open(os.path.join(VERIF, rp), 'w') as fh:
                json.dump({'property': self.pid, 'signature': v['sig'], 'what': v['what'],
                           'seed': seed(), 'replay': v['replay'],
                           'replay_cmd': f'/venv/bin/python tools/check.py {self.pid} --replay {rp}'},
                          fh, indent=1, default=str)
            print(f'VIOLATION property={self.pid} replay={rp}')
            print(f'  {v["what"]}')
            exit_code = 1
        if self.tie_problems and not fails:
            # proof or correspondence no longer checks and the search found no failing input
            rp = os.path.join('replays', self.pid, 'tie_' + sha(json.dumps(self.tie_problems, default=str)) + '.json')
            with open(os.path.join(VERIF, rp), 'w') as fh:
                json.dump({'property': self.pid, 'seed': seed(),
                           'no_longer_checks': self.tie_problems,
                           'note': 'the proof / translator / correspondence listed here no longer '
                                   'checks against the current /repo; the failing-input search '
                                   'found no concrete input on which the property fails'},
                          fh, indent=1, default=str)
            print(f'VIOLATION property={self.pid} replay={rp} no-failing-input-found')
            for t in self.tie_problems[:5]:
                print(f'  no longer checks: {t["what"]}')
            exit_code = 1
        self.write_evidence(len(fails) + (1 if (self.tie_problems and not fails) else 0),
                            sorted(seen_known))
        return exit_code

    def write_evidence(self, nviol, known_ids):
        lean = self.lean
        cov = {
            'evaluations': int(self.evaluations),
            'distinct_nontrivial': len(self.nontrivial),
            'rule': self.rule,
            'samples': self.samples[:5] or ['(no generated cases in this run)'],
            'traces_validated_against_impl': int(self.traces),
            'probe_only_cases': int(self.probe_only),
            'input_distribution': self.hist,
            'checker_cmd': 'cd lean && lake build <Props modules> && lake env lean <audit: #print axioms '
                           'for every theorem>  (tools/common.py: prove)',
            'trusted_base': TRUSTED_BASE + self.assumptions,
            'known_findings_seen': known_ids,
            'notes': self.notes,
        }
        if lean is not None:
            cov['obligations'] = len(lean.theorems)
            cov['discharged'] = len([n for n in lean.theorems if n in lean.axioms and
                                     all(a in ALLOWED_AXIOMS for a in lean.axioms[n])]) if lean.ok or lean.axioms else 0
            cov['theorems'] = lean.theorems
            cov['axioms_used'] = sorted({a for ax in lean.axioms.values() for a in ax})
            cov['lean_problems'] = lean.problems
            cov['generated_sources'] = lean.gen
            cov['lean_build_s'] = round(lean.build_s, 2)
        cov.update(self.extra)
        ev = {
            'property_id': self.pid,
            'tier': self.tier,
            'seed': seed(),
            'level': 'proof',
            'coverage': cov,
            'assumptions': TRUSTED_BASE + self.assumptions,
            'wall_s': round(time.time() - self.t0, 2),
            'violations': int(nviol),
        }
        os.makedirs(os.path.join(VERIF, 'evidence'), exist_ok=True)
        with open(os.path.join(VERIF, 'evidence', f'{self.pid}.json'), 'w') as fh:
            json.dump(ev, fh, indent=1, default=str)


def load_known():
    p = os.path.join(VERIF, 'known_findings.json')
    if not os.path.exists(p):
        return []
    return json.load(open(p)).get('findings', [])


def match_known(known, pid, sig):
    for k in known:
        if k.get('status', 'open') != 'open':
            continue
        if k['property'] == pid and re.search(k['signature'], sig):
            return k
    return None


def tier_from_args(argv):
    t = os.environ.get('VERIF_TIER')
    if '--tier' in argv:
        t = argv[argv.index('--tier') + 1]
    return t if t in ('quick', 'thorough') else 'quick'
