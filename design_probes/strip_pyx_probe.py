import re, ast, sys
def strip(src):
    out=[]
    skip_extern=False
    for line in src.splitlines():
        s=line.strip()
        if skip_extern:
            if s=='' or line.startswith(' ') : 
                continue
            skip_extern=False
        if s.startswith('cdef extern'): skip_extern=True; continue
        if s.startswith('cimport') or s.startswith('from') and 'cimport' in s: continue
        if s.startswith('ctypedef'): 
            # struct typedefs: skip following indented lines
            if 'struct' in s: skip_extern=True
            continue
        # function defs
        m=re.match(r'^(\s*)(cdef|def)\s+(?:[\w\.]+\s+)?(\w+)\s*\((.*)$', line)
        if m and (s.startswith('cdef ') and '(' in s and not '=' in s.split('(')[0] or s.startswith('def ')):
            indent,kind,name,rest=m.groups()
            out.append(('DEF',indent,name,rest)); continue
        # local declarations
        if re.match(r'^\s*cdef\s', line):
            # keep initialisers: "cdef double frac = 0.0" -> "frac = 0.0"; "cdef int c = 0"
            m2=re.match(r'^(\s*)cdef\s+(?:unsigned\s+)?[\w\.\[\], =]*?\b(\w+)\s*=\s*(.+)$', line)
            if m2 and ',' not in line.split('=')[0]:
                out.append(('LINE', f'{m2.group(1)}{m2.group(2)} = {m2.group(3)}'))
            continue
        out.append(('LINE',line))
    # join, handling multi-line def signatures
    text=[]
    i=0
    res=[]
    for item in out:
        if item[0]=='DEF':
            _,indent,name,rest=item
            res.append(f'{indent}def {name}({rest}')
        else: res.append(item[1])
    txt='\n'.join(res)
    # strip C types in parameter lists: "double x" -> "x", "int nx", "unsigned int"
    txt=re.sub(r'\b(?:unsigned\s+)?(?:double|int|bool|DTYPE_t)\s+(\w+)', r'\1', txt)
    return txt
for f in sys.argv[1:]:
    t=strip(open(f).read())
    try:
        tree=ast.parse(t)
        fns=[n.name for n in ast.walk(tree) if isinstance(n,ast.FunctionDef)]
        print(f, 'OK', fns)
    except SyntaxError as e:
        print(f,'FAIL',e); 
        lines=t.splitlines(); 
        for k in range(max(0,e.lineno-3), min(len(lines), e.lineno+2)): print(k+1, lines[k])
