def floorSqrt (x : Float) : Float := if x > 0 then Float.sqrt x else 0
def distance (x1 y1 x2 y2 : Float) : Float := Float.sqrt ((x2 - x1)^2 + (y2 - y1)^2)
def areaArc (x1 y1 x2 y2 r : Float) : Float :=
  let a := distance x1 y1 x2 y2
  let theta := 2.0 * Float.asin (0.5 * a / r)
  0.5 * r * r * (theta - Float.sin theta)
def areaTriangle (x1 y1 x2 y2 x3 y3 : Float) : Float :=
  0.5 * Float.abs (x1 * (y2 - y3) + x2 * (y3 - y1) + x3 * (y1 - y2))
def core (xmin ymin xmax ymax r : Float) : Float :=
  if xmin * xmin + ymin * ymin > r * r then 0.0
  else if xmax * xmax + ymax * ymax < r * r then (xmax - xmin) * (ymax - ymin)
  else
    let d1 := floorSqrt (xmax * xmax + ymin * ymin)
    let d2 := floorSqrt (xmin * xmin + ymax * ymax)
    if d1 < r && d2 < r then
      let x1 := floorSqrt (r * r - ymax * ymax); let y1 := ymax
      let x2 := xmax; let y2 := floorSqrt (r * r - xmax * xmax)
      ((xmax - xmin) * (ymax - ymin) - areaTriangle x1 y1 x2 y2 xmax ymax + areaArc x1 y1 x2 y2 r)
    else if d1 < r then
      let x1 := xmin; let y1 := floorSqrt (r * r - xmin * xmin)
      let x2 := xmax; let y2 := floorSqrt (r * r - xmax * xmax)
      (areaArc x1 y1 x2 y2 r + areaTriangle x1 y1 x1 ymin xmax ymin + areaTriangle x1 y1 x2 ymin x2 y2)
    else if d2 < r then
      let x1 := floorSqrt (r * r - ymin * ymin); let y1 := ymin
      let x2 := floorSqrt (r * r - ymax * ymax); let y2 := ymax
      (areaArc x1 y1 x2 y2 r + areaTriangle x1 y1 xmin y1 xmin ymax + areaTriangle x1 y1 xmin y2 x2 y2)
    else
      let x1 := floorSqrt (r * r - ymin * ymin); let y1 := ymin
      let x2 := xmin; let y2 := floorSqrt (r * r - xmin * xmin)
      (areaArc x1 y1 x2 y2 r + areaTriangle x1 y1 x2 y2 xmin ymin)
def main : IO Unit := do
  for (a,b,c,d,r) in [(1.5,1.5,2.5,2.5,3.0),(0.5,2.5,1.5,3.5,3.0),(2.5,0.5,3.5,1.5,3.0),(1.5,2.5,2.5,3.5,3.3),(0.25,2.75,1.25,3.75,3.1)] do
    IO.println s!"{(core a b c d r).toBits}"
