-- Probe D: schedule independence of result placement, and permutation invariance of accumulation
def setAt (a : List (Option Nat)) (iv : Nat × Nat) : List (Option Nat) := a.set iv.1 (some iv.2)

theorem setAt_comm (a : List (Option Nat)) (x y : Nat × Nat) (h : x.1 ≠ y.1) :
    setAt (setAt a x) y = setAt (setAt a y) x := by
  unfold setAt
  exact List.set_comm _ _ h

/-- completions = (index, result) pairs with pairwise distinct indices; any two orders give the same array -/
theorem schedule_independent (l₁ l₂ : List (Nat × Nat)) (hp : l₁.Perm l₂)
    (hnd : (l₁.map Prod.fst).Nodup) (a : List (Option Nat)) :
    l₁.foldl setAt a = l₂.foldl setAt a := by
  induction hp generalizing a with
  | nil => rfl
  | cons x _ ih =>
    simp only [List.foldl_cons]
    exact ih (List.nodup_cons.mp (by simpa using hnd)).2 _
  | swap x y l =>
    simp only [List.foldl_cons]
    have hne : y.1 ≠ x.1 := by
      simp only [List.map_cons, List.nodup_cons, List.mem_cons, not_or] at hnd
      exact hnd.1.1
    rw [setAt_comm a y x hne]
  | trans h₁ _ ih₁ ih₂ =>
    rw [ih₁ hnd a]
    exact ih₂ ((h₁.map Prod.fst).nodup_iff.mp hnd) a

-- accumulation over rows: adding windows commutes (values in a commutative monoid; here Int images as functions)
def addStamp (img : Int → Int → Int) (s : Int → Int → Int) : Int → Int → Int := fun y x => img y x + s y x

theorem render_perm (l₁ l₂ : List (Int → Int → Int)) (hp : l₁.Perm l₂) (img : Int → Int → Int) :
    l₁.foldl addStamp img = l₂.foldl addStamp img := by
  induction hp generalizing img with
  | nil => rfl
  | cons x _ ih => simp only [List.foldl_cons]; exact ih _
  | swap x y l =>
    simp only [List.foldl_cons]
    congr 1
    funext a b; simp only [addStamp]; omega
  | trans _ _ ih₁ ih₂ => rw [ih₁, ih₂]
#print axioms schedule_independent
#print axioms render_perm
