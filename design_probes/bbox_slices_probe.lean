import Mathlib.Algebra.Order.Floor.Ring
import Mathlib.Tactic.Linarith
import Mathlib.Tactic.Ring
import Mathlib.Tactic.NormNum

structure BBox where
  ixmin : Int
  ixmax : Int
  iymin : Int
  iymax : Int
deriving DecidableEq, Repr

-- as the translator would emit (floor/ceil passed as ops so Float can instantiate too)
class FloorOps (α : Type) where
  floorI : α → Int
  ceilI : α → Int

def BBox.fromFloat {α} [Add α] [OfScientific α] [FloorOps α] (xmin xmax ymin ymax : α) : BBox :=
  { ixmin := FloorOps.floorI (xmin + 0.5), ixmax := FloorOps.ceilI (xmax + 0.5),
    iymin := FloorOps.floorI (ymin + 0.5), iymax := FloorOps.ceilI (ymax + 0.5) }

section
variable {α : Type} [Field α] [LinearOrder α] [IsStrictOrderedRing α] [FloorRing α]
instance : FloorOps α := ⟨Int.floor, Int.ceil⟩

/-- 1-D: the pixel span [lo-1/2, hi-1/2] of index interval [lo,hi) contains [a,b] -/
def Covers1 (lo hi : Int) (a b : α) : Prop := (lo : α) - 1/2 ≤ a ∧ b ≤ (hi : α) - 1/2

theorem fromFloat_covers_x (a b c d : α) :
    Covers1 (BBox.fromFloat a b c d).ixmin (BBox.fromFloat a b c d).ixmax a b := by
  unfold Covers1 BBox.fromFloat
  simp only [FloorOps.floorI, FloorOps.ceilI]
  have h1 := Int.floor_le (a + 0.5)
  have h2 := Int.le_ceil (b + 0.5)
  constructor <;> norm_num at * <;> linarith

theorem fromFloat_minimal_x (a b c d : α) (lo hi : Int) (h : Covers1 lo hi a b) :
    lo ≤ (BBox.fromFloat a b c d).ixmin ∧ (BBox.fromFloat a b c d).ixmax ≤ hi := by
  unfold Covers1 at h
  unfold BBox.fromFloat
  simp only [FloorOps.floorI, FloorOps.ceilI]
  constructor
  · apply Int.le_floor.mpr; norm_num; linarith [h.1]
  · apply Int.ceil_le.mpr; norm_num; linarith [h.2]
end

-- overlap slices, as translated from get_overlap_slices
structure Slc where
  start : Int
  stop : Int
deriving DecidableEq, Repr

def overlap (b : BBox) (ny nx : Int) : Option ((Slc × Slc) × (Slc × Slc)) :=
  if b.ixmin ≥ nx ∨ b.iymin ≥ ny ∨ b.ixmax ≤ 0 ∨ b.iymax ≤ 0 then none
  else some ((⟨max b.iymin 0, min b.iymax ny⟩, ⟨max b.ixmin 0, min b.ixmax nx⟩),
             (⟨max (-b.iymin) 0, min (b.iymax - b.iymin) (ny - b.iymin)⟩,
              ⟨max (-b.ixmin) 0, min (b.ixmax - b.ixmin) (nx - b.ixmin)⟩))

def inBox (b : BBox) (y x : Int) : Prop := b.iymin ≤ y ∧ y < b.iymax ∧ b.ixmin ≤ x ∧ x < b.ixmax
def inImg (ny nx y x : Int) : Prop := 0 ≤ y ∧ y < ny ∧ 0 ≤ x ∧ x < nx
def inSl (s : Slc × Slc) (y x : Int) : Prop := s.1.start ≤ y ∧ y < s.1.stop ∧ s.2.start ≤ x ∧ x < s.2.stop

theorem overlap_none_iff (b : BBox) (ny nx : Int) (hx : b.ixmin < b.ixmax) (hy : b.iymin < b.iymax)
    (hny : 0 < ny) (hnx : 0 < nx) :
    overlap b ny nx = none ↔ ¬ ∃ y x, inBox b y x ∧ inImg ny nx y x := by
  unfold overlap inBox inImg
  constructor
  · intro h
    split at h
    · rintro ⟨y, x, h1, h2⟩; omega
    · cases h
  · intro h
    split
    · rfl
    · exfalso; apply h
      refine ⟨max b.iymin 0, max b.ixmin 0, ?_, ?_⟩ <;> omega

theorem overlap_some_exact (b : BBox) (ny nx : Int) (L S : Slc × Slc)
    (h : overlap b ny nx = some (L, S)) (y x : Int) :
    (inSl L y x ↔ inBox b y x ∧ inImg ny nx y x) ∧
    (inSl S (y - b.iymin) (x - b.ixmin) ↔ inSl L y x) := by
  unfold overlap at h
  split at h
  · cases h
  · injection h with h; injection h with hL hS; subst hL; subst hS
    unfold inSl inBox inImg; simp only; omega

#print axioms overlap_some_exact
#print axioms fromFloat_minimal_x
