-- Probe B: generic lazy-object theorem (resource lifetime), core Lean only
inductive Micro where
  | use (r : Nat)
  | drop (r : Nat) (guard : List Nat)   -- dropped iff every key in guard is cached
deriving DecidableEq, Repr

structure St where
  avail : Nat → Bool
  cached : Nat → Bool

def upd (f : Nat → Bool) (i : Nat) (b : Bool) : Nat → Bool := fun j => if j = i then b else f j

def runSteps : List Micro → St → Option St
  | [], s => some s
  | Micro.use r :: rest, s => if s.avail r then runSteps rest s else none
  | Micro.drop r g :: rest, s =>
      if g.all s.cached then runSteps rest { s with avail := upd s.avail r false }
      else runSteps rest s

def readKey (tbl : Nat → List Micro) (k : Nat) (s : St) : Option St :=
  if s.cached k then some s
  else match runSteps (tbl k) s with
    | none => none
    | some s' => some { s' with cached := upd s'.cached k true }

def W1 (steps : List Micro) : Prop :=
  ∀ pre r g post, steps = pre ++ Micro.drop r g :: post → Micro.use r ∉ post
def W2 (tbl : Nat → List Micro) : Prop :=
  ∀ k r g, Micro.drop r g ∈ tbl k → ∀ k', k' ≠ k → Micro.use r ∈ tbl k' → k' ∈ g

def LInv (tbl : Nat → List Micro) (s : St) : Prop :=
  ∀ r, s.avail r = false → ∀ k', Micro.use r ∈ tbl k' → s.cached k' = true

def InvDuring (tbl : Nat → List Micro) (k : Nat) (rest : List Micro) (s : St) : Prop :=
  ∀ r, s.avail r = false → ∀ k', Micro.use r ∈ tbl k' →
    (k' ≠ k ∧ s.cached k' = true) ∨ (k' = k ∧ Micro.use r ∉ rest)

theorem runSteps_ok (tbl : Nat → List Micro) (k : Nat) (hW2 : W2 tbl) (hW1 : W1 (tbl k)) :
    ∀ (rest pre : List Micro) (s : St), tbl k = pre ++ rest →
      InvDuring tbl k rest s →
      ∃ s', runSteps rest s = some s' ∧ s'.cached = s.cached ∧ InvDuring tbl k [] s' := by
  intro rest
  induction rest with
  | nil => intro pre s _ h; exact ⟨s, rfl, rfl, h⟩
  | cons m rest ih =>
    intro pre s hsplit hinv
    have hsplit' : tbl k = (pre ++ [m]) ++ rest := by simp [hsplit]
    cases m with
    | use r =>
      simp only [runSteps]
      have hav : s.avail r = true := by
        cases h : s.avail r with
        | true => rfl
        | false =>
          have hmem : Micro.use r ∈ tbl k := by rw [hsplit]; simp
          rcases hinv r h k hmem with ⟨hne, _⟩ | ⟨_, hn⟩
          · exact absurd rfl hne
          · exact absurd List.mem_cons_self hn
      rw [hav]; simp only [if_true]
      apply ih (pre ++ [Micro.use r]) s hsplit'
      intro r' h' k' hk'
      rcases hinv r' h' k' hk' with hc | ⟨he, hn⟩
      · exact Or.inl hc
      · exact Or.inr ⟨he, fun hm => hn (List.mem_cons_of_mem _ hm)⟩
    | drop r g =>
      simp only [runSteps]
      have hnouse : Micro.use r ∉ rest := hW1 pre r g rest hsplit
      by_cases hg : g.all s.cached = true
      · rw [if_pos hg]
        have := ih (pre ++ [Micro.drop r g]) { s with avail := upd s.avail r false } hsplit' (by
          intro r' h' k' hk'
          by_cases hrr : r' = r
          · subst hrr
            by_cases hk : k' = k
            · exact Or.inr ⟨hk, hnouse⟩
            · have hmemdrop : Micro.drop r' g ∈ tbl k := by rw [hsplit]; simp
              have hin : k' ∈ g := hW2 k r' g hmemdrop k' hk hk'
              have : s.cached k' = true := List.all_eq_true.mp hg k' hin
              exact Or.inl ⟨hk, this⟩
          · have h'' : s.avail r' = false := by
              simp only [upd, hrr, if_false] at h'; exact h'
            rcases hinv r' h'' k' hk' with hc | ⟨he, hn⟩
            · exact Or.inl hc
            · exact Or.inr ⟨he, fun hm => hn (List.mem_cons_of_mem _ hm)⟩)
        exact this
      · rw [if_neg hg]
        apply ih (pre ++ [Micro.drop r g]) s hsplit'
        intro r' h' k' hk'
        rcases hinv r' h' k' hk' with hc | ⟨he, hn⟩
        · exact Or.inl hc
        · exact Or.inr ⟨he, fun hm => hn (List.mem_cons_of_mem _ hm)⟩

theorem read_ok (tbl : Nat → List Micro) (hW2 : W2 tbl) (hW1 : ∀ k, W1 (tbl k))
    (k : Nat) (s : St) (hinv : LInv tbl s) :
    ∃ s', readKey tbl k s = some s' ∧ LInv tbl s' := by
  unfold readKey
  by_cases hc : s.cached k = true
  · rw [if_pos hc]; exact ⟨s, rfl, hinv⟩
  · rw [if_neg hc]
    have hcf : s.cached k = false := by cases h : s.cached k <;> simp_all
    obtain ⟨s', hrun, hcache, hd⟩ := runSteps_ok tbl k hW2 (hW1 k) (tbl k) [] s (by simp) (by
      intro r h k' hk'
      have := hinv r h k' hk'
      by_cases hk : k' = k
      · subst hk; rw [hcf] at this; cases this
      · exact Or.inl ⟨hk, this⟩)
    rw [hrun]
    refine ⟨_, rfl, ?_⟩
    intro r h k' hk'
    simp only [upd]
    by_cases hk : k' = k
    · simp [hk]
    · simp only [hk, if_false]
      rcases hd r h k' hk' with ⟨_, hc'⟩ | ⟨he, _⟩
      · exact hc'
      · exact absurd he hk

/-- every history of reads succeeds -/
theorem history_ok (tbl : Nat → List Micro) (hW2 : W2 tbl) (hW1 : ∀ k, W1 (tbl k)) :
    ∀ (hist : List Nat) (s : St), LInv tbl s →
      ∃ s', hist.foldlM (fun st k => readKey tbl k st) s = some s' ∧ LInv tbl s' := by
  intro hist
  induction hist with
  | nil => intro s h; exact ⟨s, rfl, h⟩
  | cons k ks ih =>
    intro s h
    obtain ⟨s1, h1, hi1⟩ := read_ok tbl hW2 hW1 k s h
    obtain ⟨s2, h2, hi2⟩ := ih s1 hi1
    exact ⟨s2, by simp [List.foldlM, h1, h2], hi2⟩

#print axioms history_ok
