-- Probe C2: termination of the relaxation by a decreasing Nat potential (function view)
def pot (n : Nat) (v : Nat → Nat) : Nat := ((List.range n).map v).sum

theorem pot_le (n : Nat) (v w : Nat → Nat) (h : ∀ p, p < n → w p ≤ v p) : pot n w ≤ pot n v := by
  induction n with
  | zero => simp [pot]
  | succ n ih =>
    simp only [pot, List.range_succ, List.map_append, List.sum_append, List.map_cons, List.map_nil,
      List.sum_cons, List.sum_nil] at *
    have := ih (fun p hp => h p (Nat.lt_succ_of_lt hp))
    have := h n (Nat.lt_succ_self n)
    omega

theorem pot_lt (n : Nat) (v w : Nat → Nat) (h : ∀ p, p < n → w p ≤ v p)
    (k : Nat) (hk : k < n) (hlt : w k < v k) : pot n w < pot n v := by
  induction n with
  | zero => omega
  | succ n ih =>
    simp only [pot, List.range_succ, List.map_append, List.sum_append, List.map_cons, List.map_nil,
      List.sum_cons, List.sum_nil] at *
    have hle := pot_le n v w (fun p hp => h p (Nat.lt_succ_of_lt hp))
    simp only [pot] at hle
    have hn := h n (Nat.lt_succ_self n)
    by_cases hkn : k = n
    · subst hkn; omega
    · have := ih (fun p hp => h p (Nat.lt_succ_of_lt hp)) (by omega)
      omega

/-- generic: iterate f until (decidable) fixpoint with fuel; if f is pointwise non-increasing and
    strictly decreases the potential when not at a fixpoint, fuel = pot + 1 reaches a fixpoint -/
def iter (f : (Nat → Nat) → (Nat → Nat)) (isFix : (Nat → Nat) → Bool) : Nat → (Nat → Nat) → (Nat → Nat)
  | 0, v => v
  | fuel+1, v => if isFix v then v else iter f isFix fuel (f v)

theorem iter_reaches_fix (n : Nat) (f : (Nat → Nat) → (Nat → Nat)) (isFix : (Nat → Nat) → Bool)
    (hdec : ∀ v, isFix v = false → pot n (f v) < pot n v) :
    ∀ fuel v, pot n v < fuel → isFix (iter f isFix fuel v) = true := by
  intro fuel
  induction fuel with
  | zero => intro v h; omega
  | succ fuel ih =>
    intro v h
    simp only [iter]
    by_cases hf : isFix v = true
    · simp [hf]
    · have hf' : isFix v = false := by cases h' : isFix v <;> simp_all
      simp only [hf', Bool.false_eq_true, if_false]
      exact ih (f v) (by have := hdec v hf'; omega)
#print axioms iter_reaches_fix
#print axioms pot_lt
