-- root of the PhotVerif library
import PhotVerif.Model.Prelude
import PhotVerif.Gen.BBox
import PhotVerif.Gen.Geom
import PhotVerif.Driver.All
