/-
  Model of catalogue indexing (SourceCatalog.__getitem__ / ApertureStats.__getitem__):
  index forms, per-source property values, the slicing rule for cached values, and a tiny heap so
  that *sharing* of the mutable extra-properties list between parent and slice is expressible.
  Core Lean only.
-/
import PhotVerif.Gen.CatSliceTable
namespace PhotVerif.Model.CatSlice
open PhotVerif PhotVerif.Gen.CatSliceTable

/-- the index expressions the API accepts -/
inductive Index where
  | int (i : Int)                          -- → scalar catalogue
  | slice (start stop step : Nat)          -- normalised non-negative slice, step ≥ 1
  | ints (is : List Int)
  | mask (m : List Bool)
deriving Repr, DecidableEq

def normIdx (n : Nat) (i : Int) : Option Nat :=
  if 0 ≤ i ∧ i < n then some i.toNat else if i < 0 ∧ -i ≤ n then some (n - (-i).toNat) else none

/-- positions (into a length-n sequence) selected by an index; `none` = IndexError -/
def positions (n : Nat) : Index → Option (List Nat)
  | .int i => (normIdx n i).map fun k => [k]
  | .slice a b st => if st = 0 then none else
      some ((List.range n).filter fun k => a ≤ k ∧ k < b ∧ (k - a) % st = 0)
  | .ints is => is.mapM (normIdx n)
  | .mask m => if m.length ≠ n then none else
      some ((List.range n).filter fun k => m.getD k false)

/-- `value[index]` for a per-source sequence -/
def sel {α : Type} [Inhabited α] (idx : Index) (l : List α) : Option (List α) :=
  (positions l.length idx).map fun ps => ps.map fun k => l.getD k default

/-- a catalogue: labels (one per source) and, for each property already evaluated, its cached per-source values -/
structure Cat (α : Type) where
  labels : List Nat
  cache : List (Nat × List α)       -- property id ↦ per-source values
  extras : Nat                      -- heap address of the `_extra_properties` list

/-- every public per-source property is `labels.map (f p)` for a per-source function f (C07 locality) -/
def compute {α : Type} (f : Nat → Nat → α) (p : Nat) (labels : List Nat) : List α := labels.map (f p)

def readProp {α : Type} (f : Nat → Nat → α) (c : Cat α) (p : Nat) : List α :=
  match c.cache.find? (·.1 == p) with
  | some (_, v) => v
  | none => compute f p c.labels

/-- heap of mutable lists of property names -/
abbrev Heap := List (List String)

/-- `cat[idx]`: labels sliced, cached per-source values sliced, the extras list copied (new heap cell)
    or shared according to the generated table -/
def getitem {α : Type} [Inhabited α] (row : Row) (h : Heap) (c : Cat α) (idx : Index) : Option (Cat α × Heap) :=
  match sel idx c.labels with
  | none => none
  | some labs =>
    let cache := c.cache.filterMap fun (p, v) => (sel idx v).map fun v' => (p, v')
    if row.copied.contains "_extra_properties" || !row.initAttr.contains "_extra_properties" then
      some (⟨labs, cache, h.length⟩, h ++ [h.getD c.extras []])
    else some (⟨labs, cache, c.extras⟩, h)

/-- `get_labels(ls)` / `get_ids(ls)`: positions of the requested labels in THIS catalogue, in request order;
    `none` = ValueError, raised when a requested label is not held by the catalogue -/
def labelPositions (labels : List Nat) : List Nat → Option (List Nat)
  | [] => some []
  | l :: ls => if labels.contains l then (labelPositions labels ls).map (labels.idxOf l :: ·) else none

def addExtra (h : Heap) (addr : Nat) (name : String) : Heap := h.set addr (h.getD addr [] ++ [name])
def removeExtra (h : Heap) (addr : Nat) (name : String) : Heap := h.set addr ((h.getD addr []).filter (· ≠ name))

end PhotVerif.Model.CatSlice
