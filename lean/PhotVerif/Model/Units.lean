/-
  Model of the unit-handling decision logic: photutils.utils._quantity_helpers.process_quantities and the
  unit / value rules of photutils.utils.errors.calc_total_error.  Core Lean only.
-/
import PhotVerif.Model.Prelude
namespace PhotVerif.Model.Units
open PhotVerif

/-- one input of `process_quantities`: `None`, a unit-less value, or a Quantity with unit id `u` -/
inductive Entry where
  | absent | plain | unit (u : Nat)
deriving DecidableEq, Repr

/-- `getattr(arr, 'unit', None)` for the inputs that are not `None` -/
def unitOf : Entry → Option (Option Nat)
  | .absent => none | .plain => some none | .unit u => some (some u)

/-- `process_quantities`: the set of units of the non-None inputs must be a singleton; that unit is returned
    (`none` = all unit-less).  No non-None input at all: `set().pop()` raises KeyError. -/
def processQuantities (es : List Entry) : Except Err (Option Nat) :=
  match es.filterMap unitOf with
  | [] => .error .KeyError
  | u :: rest => if rest.all (· == u) then .ok u else .error .ValueError

/-- the value returned for an input: numbers unchanged, unit stripped (`payload` is what the caller sees) -/
def stripped (e : Entry) (payload : List Rat) : Option (List Rat) :=
  match e with | .absent => none | _ => some payload

/-- unit rules of `calc_total_error(data, bkg_error, effective_gain)`: `d b g` = unit ids (none = unit-less),
    `countOk` = (data.unit · gain.unit) is electron or photon.  Returns the unit of the result. -/
def totalErrorUnit (d b g : Option Nat) (countOk : Bool) : Except Err (Option Nat) :=
  let has := [d.isSome, b.isSome, g.isSome]
  if has.any id && !has.all id then .error .ValueError
  else if has.all id then
    if d ≠ b then .error .ValueError
    else if !countOk then .error .Exception      -- astropy UnitsError
    else .ok d
  else .ok none

/-- squared total error of one pixel: bkg² + max(data / gain, 0), no source term where gain = 0;
    a negative gain anywhere is rejected -/
def totalError2 (d b g : Rat) : Except Err Rat :=
  if g < 0 then .error .ValueError
  else .ok (b * b + (if g ≠ 0 then max (d / g) 0 else 0))

/-- unit of a statistic of pixel values in data unit `u` (none = unit-less data): `u ^ power`, represented as (unit id, power) -/
def statUnit (dataUnit : Option Nat) (power : Nat) : Option (Nat × Nat) := dataUnit.map fun u => (u, power)

/-- how a statistic scales when every pixel value is multiplied by `c`: location / scale statistics by `c`, variances by `c²` -/
def scalesWith (power : Nat) (c : Rat) : Rat := c ^ power

end PhotVerif.Model.Units
