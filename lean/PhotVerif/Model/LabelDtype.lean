/-
  Integer dtypes of label arrays: value ranges, numpy's `min_scalar_type` / `promote_types` on integer dtypes, and the
  widening rule of `deblend._fit_label_dtype` (defects F21, F33, F43, F46 were all label arithmetic leaving the dtype range).
  Core Lean only.
-/
namespace PhotVerif.Model.LabelDtype

/-- an integer dtype: signedness and width (8, 16, 32, 64); `none` in results = not an integer dtype (float64) -/
structure IntDt where
  signed : Bool
  bits : Nat
deriving DecidableEq, Repr

def IntDt.max (d : IntDt) : Nat := if d.signed then 2 ^ (d.bits - 1) - 1 else 2 ^ d.bits - 1

/-- `np.min_scalar_type(v)` for a non-negative Python int -/
def minScalarType (v : Nat) : Option IntDt :=
  if v < 2 ^ 8 then some ⟨false, 8⟩ else if v < 2 ^ 16 then some ⟨false, 16⟩
  else if v < 2 ^ 32 then some ⟨false, 32⟩ else if v < 2 ^ 64 then some ⟨false, 64⟩ else none

/-- `np.promote_types` restricted to integer dtypes (`none` = float64, for int64 with uint64) -/
def promote (a b : IntDt) : Option IntDt :=
  if a.signed == b.signed then some ⟨a.signed, Nat.max a.bits b.bits⟩
  else
    let s := if a.signed then a else b
    let u := if a.signed then b else a
    if u.bits < s.bits then some ⟨true, s.bits⟩
    else if 2 * u.bits ≤ 64 then some ⟨true, 2 * u.bits⟩ else none

/-- `_fit_label_dtype(segm, max_value)`: the dtype of the array after making room for `max_value` -/
def fitDtype (d : IntDt) (v : Nat) : Option IntDt :=
  if v > d.max then (minScalarType v).bind (promote d) else some d

def wellFormed (d : IntDt) : Prop := d.bits = 8 ∨ d.bits = 16 ∨ d.bits = 32 ∨ d.bits = 64

end PhotVerif.Model.LabelDtype
