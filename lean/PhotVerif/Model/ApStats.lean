/-
  Model of photutils.aperture.ApertureStats (stats.py) for one aperture position:
  overlap slices of the centre-mask bounding box, data cut-out minus local background, data mask
  (non-finite or input mask), the centre-method pixel multiset, the sum-method weighted sum / variance /
  area, and the centroid in image coordinates.  The sigma-clip decision is a parameter (`clip`).
  Core Lean only.
-/
import PhotVerif.Model.ApSum
namespace PhotVerif.Model.ApStats
open PhotVerif PhotVerif.Gen PhotVerif.Model

structure Inp where
  ny : Int
  nx : Int
  bbox : BBox
  data : Int → Int → V
  mask : Int → Int → Bool
  lb : Rat                          -- local background of this position
  wc : Int → Int → Rat              -- 'center' weights (0 / 1), local (j, i)
  ws : Int → Int → Rat              -- weights of the sum method, local (j, i)
  err : Option (Int → Int → V)
  clipC : Int → Int → Bool          -- pixels rejected by the sigma clip (centre pixel set), image (y, x)
  clipS : Int → Int → Bool          -- same for the sum-method cut-out

def fin? : V → Option Rat
  | .fin q => some q | _ => none

/-- overlap pixels (image y, x, local j, i) or none when the box misses the image -/
def overlap (I : Inp) : Except Err (Option (List (Int × Int × Int × Int))) :=
  match I.bbox.getOverlapSlices (I.ny, I.nx) with
  | .error e => .error e
  | .ok none => .ok none
  | .ok (some ((ly, lx), (sy, sx))) => .ok (some (overlapPixels ly lx sy sx))

/-- the centre-method pixel multiset: (y, x, data − local_bkg) for unmasked finite pixels whose centre is in the aperture -/
def centreVals (I : Inp) (ov : List (Int × Int × Int × Int)) : List (Int × Int × Rat) :=
  ov.filterMap fun (y, x, j, i) =>
    match fin? (I.data y x) with
    | some v => if I.wc j i ≠ 0 ∧ I.mask y x = false ∧ I.clipC y x = false then some (y, x, v - I.lb) else none
    | none => none

def sumQ (l : List Rat) : Rat := l.foldl (· + ·) 0

/-- sum-method: Σ w·(data − lb) over unmasked finite pixels with non-zero weight -/
def sumMethod (I : Inp) (ov : List (Int × Int × Int × Int)) : Option Rat :=
  let terms := ov.filterMap fun (y, x, j, i) =>
    match fin? (I.data y x) with
    | some v => if I.ws j i ≠ 0 ∧ I.mask y x = false ∧ I.clipS y x = false then some (I.ws j i * (v - I.lb)) else none
    | none => none
  if terms.isEmpty then none else some (sumQ terms)

/-- `sum_aper_area`: Σ w over unmasked finite (unclipped) pixels; `none` = NaN when every pixel of the
    sum-method cut-out is masked (zero weight, input mask, non-finite or clipped) -/
def sumArea (I : Inp) (ov : List (Int × Int × Int × Int)) : Option Rat :=
  let ws := ov.filterMap fun (y, x, j, i) =>
    match fin? (I.data y x) with
    | some _ => if I.mask y x = false ∧ I.clipS y x = false then some (I.ws j i) else none
    | none => none
  if ws.all (· == 0) then none else some (sumQ ws)

structure Stats where
  n : Nat
  sum : Rat
  min : Rat
  max : Rat
  mean : Rat
  var : Rat
  median : Rat
deriving Repr

def median (l : List Rat) : Rat :=
  let s := l.mergeSort (fun a b => decide (a ≤ b))
  let n := s.length
  if n % 2 = 1 then s.getD (n / 2) 0 else (s.getD (n / 2 - 1) 0 + s.getD (n / 2) 0) / 2

def stats (vs : List Rat) : Option Stats :=
  match vs with
  | [] => none
  | v :: rest =>
    let n := vs.length
    let s := sumQ vs
    let mean := s / n
    some { n := n, sum := s, min := rest.foldl min v, max := rest.foldl max v, mean := mean,
           var := sumQ (vs.map fun x => (x - mean) * (x - mean)) / n, median := median vs }

/-- centroid (x, y) in image coordinates: moments of the centre cut-out (masked → 0) + start of the overlap slices -/
def centroid (I : Inp) (cv : List (Int × Int × Rat)) : Option (Rat × Rat) :=
  let m00 := sumQ (cv.map fun t => t.2.2)
  if m00 = 0 then none else
  some (sumQ (cv.map fun t => (t.2.1 : Rat) * t.2.2) / m00, sumQ (cv.map fun t => (t.1 : Rat) * t.2.2) / m00)

end PhotVerif.Model.ApStats
