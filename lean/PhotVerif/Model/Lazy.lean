/-
  Generic model of an object with lazily cached attributes whose computation *uses* internal
  resources and may *drop* them ("delete to save memory") — e.g. Background2D's `_bkg_stats`.
  A read of key k runs the micro-steps `tbl[k]` unless k is already cached.  Core Lean only.
-/
import PhotVerif.Model.Prelude
namespace PhotVerif.Model.Lazy

inductive Micro where
  | use (r : Nat)
  | drop (r : Nat) (guard : List Nat)   -- resource r is dropped iff every key in `guard` is cached
deriving DecidableEq, Repr

structure St where
  avail : Nat → Bool
  cached : Nat → Bool

def upd (f : Nat → Bool) (i : Nat) (b : Bool) : Nat → Bool := fun j => if j = i then b else f j

/-- run the micro-steps of one read; `none` = the read raises (a dropped resource is used) -/
def runSteps : List Micro → St → Option St
  | [], s => some s
  | Micro.use r :: rest, s => if s.avail r then runSteps rest s else none
  | Micro.drop r g :: rest, s =>
      if g.all s.cached then runSteps rest { s with avail := upd s.avail r false }
      else runSteps rest s

def readKey (tbl : Nat → List Micro) (k : Nat) (s : St) : Option St :=
  if s.cached k then some s
  else match runSteps (tbl k) s with
    | none => none
    | some s' => some { s' with cached := upd s'.cached k true }

def fresh : St := ⟨fun _ => true, fun _ => false⟩

def tblOf (rows : List (List Micro)) : Nat → List Micro := fun k => rows.getD k []

/-- run a history of reads; returns the index of the first failing read, if any -/
def runHistory (tbl : Nat → List Micro) : List Nat → St → Nat → Option Nat
  | [], _, _ => none
  | k :: ks, s, i => match readKey tbl k s with
    | none => some i
    | some s' => runHistory tbl ks s' (i + 1)

/-- (W1) inside one read no `use r` follows a `drop r` -/
def w1b : List Micro → Bool
  | [] => true
  | Micro.use _ :: rest => w1b rest
  | Micro.drop r _ :: rest => !(rest.contains (Micro.use r)) && w1b rest

/-- (W2) a `drop r g` in the read of key k requires every *other* key that uses r to be in the guard -/
def w2b (rows : List (List Micro)) : Bool :=
  (List.range rows.length).all fun k =>
    (rows.getD k []).all fun m => match m with
      | Micro.use _ => true
      | Micro.drop r g =>
        (List.range rows.length).all fun k' =>
          k' == k || !((rows.getD k' []).contains (Micro.use r)) || g.contains k'

end PhotVerif.Model.Lazy
