/-
  Model of the bookkeeping of photutils.segmentation.deblend_sources (deblend.py):
  label selection, result placement by worker index under an arbitrary completion order,
  the merge fold with its running `max_label`, the parent→children map and the final
  consecutive relabel.  The per-source deblender (multi-thresholding + watershed) is a
  PARAMETER `D : label → Option Child`.  Core Lean only.
-/
import PhotVerif.Model.Segm
namespace PhotVerif.Model.Deblend
open PhotVerif.Model.Segm

/-- child labelling of one parent, viewed on the whole image (0 outside the parent) -/
abbrev Child := Nat → Nat

/-- tabulate a function on pixel indices `< n` -/
def tabA (n : Nat) (f : Nat → Nat) : Array Nat := (Array.range n).map f

structure MState where
  segmA : Array Nat              -- the working copy `segm_deblended`
  maxLabel : Nat
  dmap : List (Nat × List Nat)

/-- function view of the working array -/
def MState.segm (st : MState) : Nat → Nat := fun p => st.segmA.getD p 0

/-- one iteration of the merge loop -/
def mergeOne (n : Nat) (st : MState) (label : Nat) (res : Option Child) : MState :=
  match res with
  | none => st
  | some c =>
    let newLabels := (dLabels n c).map (· + st.maxLabel)
    { segmA := tabA n (fun p => if c p > 0 then c p + st.maxLabel else st.segm p),
      maxLabel := st.maxLabel + newLabels.length,
      dmap := st.dmap ++ [(label, newLabels)] }

def initState (n : Nat) (seg : Nat → Nat) : MState := ⟨tabA n seg, (dLabels n seg).foldl max 0, []⟩

def merge (n : Nat) (seg : Nat → Nat) (work : List (Nat × Option Child)) : MState :=
  work.foldl (fun st lr => mergeOne n st lr.1 lr.2) (initState n seg)

/-- labels actually sent to the deblender: present, and with at least `2*npixels` pixels -/
def selectLabels (n : Nat) (seg : Nat → Nat) (labels : List Nat) (npixels : Nat) : List Nat :=
  labels.filter fun l => decide (2 * npixels ≤ (pix n seg l).length)

/-- serial branch (`nproc == 1`) -/
def serial (n : Nat) (seg : Nat → Nat) (labels : List Nat) (D : Nat → Option Child) : MState :=
  merge n seg (labels.map fun l => (l, D l))

/-- `results[idx] = future.result()` for futures completing in the order `order` -/
def fillResults (m : Nat) (order : List Nat) (vals : Nat → Option Child) : List (Option (Option Child)) :=
  order.foldl (fun res idx => res.set idx (some (vals idx))) (List.replicate m none)

/-- parallel branch: results placed by index in completion order, then the same merge loop -/
def parallel (n : Nat) (seg : Nat → Nat) (labels : List Nat) (D : Nat → Option Child) (order : List Nat) :
    MState :=
  let res := fillResults labels.length order (fun i => D (labels.getD i 0))
  merge n seg (labels.zip (res.map fun r => r.getD none))

/-- final step: consecutive relabelling of the array and of the map -/
def finalize (n : Nat) (st : MState) (relabel : Bool) : Array Nat × List (Nat × List Nat) :=
  if relabel then
    let labs := dLabels n st.segm
    let f := rankMap labs 1
    (tabA n (fun p => f (st.segm p)), st.dmap.map fun pc => (pc.1, pc.2.map f))
  else (st.segmA, st.dmap)

end PhotVerif.Model.Deblend
