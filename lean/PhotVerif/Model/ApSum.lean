/-
  Code-shaped model of ApertureMask._get_overlap_cutouts / get_values and
  PixelAperture.do_photometry / area_overlap (photutils/aperture/{mask,core}.py).
  Generic in the pixel-value type β (instantiated at V for execution, at a ring for theorems).
-/
import PhotVerif.Gen.BBox
import PhotVerif.Model.V
namespace PhotVerif.Model
open PhotVerif PhotVerif.Gen

/-- pixels of the overlap cut-out, raster order, as (image y, image x, local j, local i) -/
def overlapPixels (ly lx sy sx : Slc) : List (Int × Int × Int × Int) :=
  (List.range (ly.stop - ly.start).toNat).flatMap fun (dj : Nat) =>
    (List.range (lx.stop - lx.start).toNat).map fun (di : Nat) =>
      (ly.start + (dj : Int), lx.start + (di : Int), sy.start + (dj : Int), sx.start + (di : Int))

/-- `_get_overlap_cutouts`: the good pixels (`aper_weights > 0`, not masked) with their weights -/
def goodPixels (b : BBox) (w : Int → Int → Rat) (ny nx : Int) (mask : Int → Int → Bool) :
    Except Err (Option (List (Int × Int × Rat))) :=
  match b.getOverlapSlices (ny, nx) with
  | .error e => .error e
  | .ok none => .ok none
  | .ok (some ((ly, lx), (sy, sx))) =>
    .ok (some ((overlapPixels ly lx sy sx).filterMap fun (y, x, j, i) =>
      if w j i > 0 ∧ mask y x = false then some (y, x, w j i) else none))

/-- generic weighted sum over the good pixels: `(data[slc] * w)[pixel_mask].sum()` -/
def wsum {β : Type} [Add β] [OfNat β 0] (smul : Rat → β → β) (data : Int → Int → β)
    (px : List (Int × Int × Rat)) : β :=
  (px.map fun (y, x, wt) => smul wt (data y x)).foldl (· + ·) 0

/-- `do_photometry` for one position: `none` = NaN (no overlap) -/
def apSum {β : Type} [Add β] [OfNat β 0] (smul : Rat → β → β) (b : BBox) (w : Int → Int → Rat)
    (ny nx : Int) (data : Int → Int → β) (mask : Int → Int → Bool) : Except Err (Option β) :=
  match goodPixels b w ny nx mask with
  | .error e => .error e
  | .ok none => .ok none
  | .ok (some px) => .ok (some (wsum smul data px))

/-- `area_overlap` for one position: weights of masked pixels zeroed, then summed (all weights) -/
def areaOverlap (b : BBox) (w : Int → Int → Rat) (ny nx : Int) (mask : Int → Int → Bool) :
    Except Err (Option Rat) :=
  match b.getOverlapSlices (ny, nx) with
  | .error e => .error e
  | .ok none => .ok none
  | .ok (some ((ly, lx), (sy, sx))) =>
    .ok (some (((overlapPixels ly lx sy sx).map fun (y, x, j, i) =>
      if mask y x then 0 else w j i).foldl (· + ·) 0))

end PhotVerif.Model
