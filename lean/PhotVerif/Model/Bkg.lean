/-
  Model of the low-resolution mesh statistics of photutils.background.Background2D
  (background_2d.py: _calculate_stats / _compute_box_statistics; core.py estimators):
  box tiling with padded edge boxes, good-pixel threshold and exclusion, sigma clipping with decisions in
  squared form, mean / median / SExtractor background, variance.  Core Lean only.
-/
import PhotVerif.Model.V
import PhotVerif.Gen.BkgConsts
namespace PhotVerif.Model.Bkg
open PhotVerif.Model

structure Cfg where
  ny : Nat
  nx : Nat
  boxY : Nat
  boxX : Nat
  excludePct : Rat            -- exclude_percentile
  sigma : Option Rat          -- sigma of the SigmaClip (none = no clipping)
  maxiters : Nat

/-- number of mesh rows / columns: edge boxes are padded (`edge_method='pad'`) -/
def nboxY (c : Cfg) : Nat := (c.ny + c.boxY - 1) / c.boxY
def nboxX (c : Cfg) : Nat := (c.nx + c.boxX - 1) / c.boxX

/-- pixels (raster indices) of mesh box (i, j) -/
def boxPixels (c : Cfg) (i j : Nat) : List Nat :=
  (List.range (c.ny * c.nx)).filter fun p => (p / c.nx) / c.boxY == i && (p % c.nx) / c.boxX == j

/-- unmasked finite values of a box -/
def goodVals (data : Nat → V) (mask : Nat → Bool) (ps : List Nat) : List Rat :=
  ps.filterMap fun p => if mask p then none else match data p with | .fin q => some q | _ => none

def sumQ (l : List Rat) : Rat := l.foldl (· + ·) 0
def mean (l : List Rat) : Rat := sumQ l / l.length
def variance (l : List Rat) : Rat := sumQ (l.map fun x => (x - mean l) * (x - mean l)) / l.length

def median (l : List Rat) : Rat :=
  let s := l.mergeSort (fun a b => decide (a ≤ b))
  let n := s.length
  if n % 2 = 1 then s.getD (n / 2) 0 else (s.getD (n / 2 - 1) 0 + s.getD (n / 2) 0) / 2

/-- `lo ≤ x ≤ hi` for the bounds median ∓ sigma·std, decided in squared form (x − med)² ≤ sigma²·var -/
def inB (sigma : Rat) (b : Rat × Rat) (x : Rat) : Bool :=
  decide ((x - b.1) * (x - b.1) ≤ sigma * sigma * b.2)

/-- the (median, variance) that `astropy.stats.SigmaClip(sigma, maxiters, cenfunc='median', stdfunc='std')`
    (fast C path) settles on: each pass computes the bounds of the current sample and drops what is outside;
    it stops when nothing was dropped or after `maxiters` passes.  `none` = no (NaN) bounds: maxiters = 0 or the
    sample became empty. -/
def sigBounds (sigma : Rat) : Nat → List Rat → Option (Rat × Rat)
  | 0, _ => none
  | k + 1, l =>
    if l.isEmpty then none else
    let b := (median l, variance l)
    let l' := l.filter (inB sigma b)
    if l'.length = l.length then some b
    else if k = 0 then some b
    else sigBounds sigma k l'

/-- the values that survive: the FINAL bounds are applied to the original sample (astropy semantics: a value
    dropped in an early pass is kept if it lies inside the final bounds) -/
def sigclip (sigma : Rat) (maxiters : Nat) (l : List Rat) : List Rat :=
  match sigBounds sigma maxiters l with
  | none => l
  | some b => l.filter (inB sigma b)

def clipped (c : Cfg) (l : List Rat) : List Rat :=
  match c.sigma with
  | none => l
  | some s => sigclip s c.maxiters l

inductive Estimator where | mean | median | sextractor
deriving DecidableEq, Repr

/-- `SExtractorBackground`: 2.5·median − 1.5·mean; the mean if std = 0; the median if |mean − median|/std ≥ 0.3 -/
def sextractor (l : List Rat) : Rat :=
  let m := mean l
  let md := median l
  let v := variance l
  if v = 0 then m
  else if (m - md) * (m - md) ≥ (Gen.BkgConsts.sexRatio * Gen.BkgConsts.sexRatio) * v then md
  else Gen.BkgConsts.sexMedianFactor * md - Gen.BkgConsts.sexMeanFactor * m

def estimate (e : Estimator) (l : List Rat) : Rat :=
  match e with
  | .mean => mean l | .median => median l | .sextractor => sextractor l

/-- box exclusion (`box_mask` of `_compute_box_statistics`), rule taken from the regenerated source constants;
    threshold = (1 − exclude_percentile/100) · prod(box_size), the FULL box size also for padded edge boxes -/
def excluded (c : Cfg) (ngood : Nat) : Bool :=
  let thr : Rat := (1 - c.excludePct / 100) * (c.boxY * c.boxX : Nat)
  if Gen.BkgConsts.exclusionRule == "le" then decide ((ngood : Rat) ≤ thr)
  else decide ((ngood : Rat) < thr) || ngood == 0

/-- mesh entry (background, variance, ngood) of a box; `none` = excluded (NaN): too few good pixels -/
def meshBox (c : Cfg) (e : Estimator) (data : Nat → V) (mask : Nat → Bool) (i j : Nat) : Option (Rat × Rat) × Nat :=
  let vals := clipped c (goodVals data mask (boxPixels c i j))
  let ngood := vals.length
  if excluded c ngood then (none, ngood)
  else (some (estimate e vals, variance vals), ngood)

/-! ### filling / upscaling: Shepard inverse-distance weighting, clipping, coverage fill -/

/-- `ShepardIDWInterpolator.__call__` at one position: `dvs` = (distance**power, value) of the valid neighbours
    (nearest first), `conf` = confusion distance test already applied to the raw distance (`dk <= conf_dist`) -/
def idwPoint (dvs : List (Rat × Rat × Bool)) (reg : Rat) : Option Rat :=
  if dvs.isEmpty then none
  else match dvs.find? (fun t => t.2.2) with
    | some t => some t.2.1
    | none =>
      let ws := dvs.map fun t => (1 / (t.1 + reg), t.2.1)
      let wtot := sumQ (ws.map (·.1))
      if wtot > 0 then some (sumQ (ws.map fun t => t.1 * t.2) / wtot) else none

/-- `np.clip(result, minval, maxval)` of BkgZoomInterpolator(clip=True) -/
def clipTo (lo hi x : Rat) : Rat := if x < lo then lo else if x > hi then hi else x

/-- `_calculate_image`: coverage-masked pixels get `fill_value` -/
def finalPixel (cov : Bool) (fill x : Rat) : Rat := if cov then fill else x

end PhotVerif.Model.Bkg
