/-
  Bookkeeping of photutils.psf.PSFPhotometry (photometry.py) and SourceGrouper (groupers.py):
  single-linkage groups (components of the graph "distance ≤ min_separation", numbered by first
  appearance), group_by / argsort un-grouping, fit-window pixel counts, invalid positions, flags.
  The fitter is outside the model.  Core Lean only.
-/
import PhotVerif.Model.CCL
import PhotVerif.Model.Render
namespace PhotVerif.Model.PsfBook
open PhotVerif.Model PhotVerif.Model.CCL

/-! ### grouping -/

/-- neighbours of point p: the other points within the separation (squared distances, exact) -/
def ptNbrs (xs ys : List Rat) (sep2 : Rat) (p : Nat) : List Nat :=
  (List.range xs.length).filter fun q =>
    q != p && decide ((xs.getD p 0 - xs.getD q 0) * (xs.getD p 0 - xs.getD q 0)
      + (ys.getD p 0 - ys.getD q 0) * (ys.getD p 0 - ys.getD q 0) ≤ sep2)

/-- `SourceGrouper(min_separation)(x, y)`: group id of every source (1-based, by first appearance) -/
def groupIds (xs ys : List Rat) (sep2 : Rat) : List Nat :=
  let n := xs.length
  let fg : Nat → Bool := fun _ => true
  let v := run n fg (ptNbrs xs ys sep2) ((List.range n).sum + 1) (Array.range n)
  let k := kept n fg v 1
  (List.range n).map (label fg v k)

def groupSizes (gids : List Nat) : List Nat := gids.map fun g => gids.count g

/-! ### grouped ↔ input order -/

/-- `Table.group_by('group_id')`: stable sort of the row indices by group id -/
def groupOrder (gids : List Nat) : List Nat :=
  (List.range gids.length).mergeSort fun a b => decide (gids.getD a 0 ≤ gids.getD b 0)

/-- `np.argsort(ids)` of a permutation of 0..n-1 = its inverse -/
def invPerm (sigma : List Nat) : List Nat := (List.range sigma.length).map fun k => sigma.idxOf k

/-- `_order_by_id(iterable)`: iterable is in grouped order -/
def orderById {α : Type} [Inhabited α] (sigma : List Nat) (grouped : List α) : List α :=
  (invPerm sigma).map fun j => grouped.getD j default

/-! ### fit window, flags -/

/-- `_get_invalid_positions`: the fit window misses the image -/
def invalidPosition (ny nx fy fx : Nat) (x y : Rat) : Bool :=
  decide ((y + (fy : Rat) / 2).ceil ≤ 0 ∨ (x + (fx : Rat) / 2).ceil ≤ 0 ∨
          (y - (fy : Rat) / 2).ceil ≥ ny ∨ (x - (fx : Rat) / 2).ceil ≥ nx)

/-- `npixfit`: unmasked pixels of the fit window clipped to the image; `none` = no overlap -/
def npixfit (ny nx fy fx : Nat) (x y : Rat) (mask : Nat → Nat → Bool) : Option Nat :=
  match Render.window1 ny fy y, Render.window1 nx fx x with
  | some (y0, y1), some (x0, x1) =>
    some (((List.range (y1 - y0)).map fun dy =>
      (List.range (x1 - x0)).countP fun dx => !mask (y0 + dy) (x0 + dx)).sum)
  | _, _ => none

/-- pixel index of the PSF centre: `ceil(x − ½)` -/
def centreIndex (x : Rat) : Int := (x - 1/2).ceil

/-- documented flag bits 1, 2, 4 (8/16 come from the fitter, 32 from the bounds) -/
def flags (ny nx fy fx : Nat) (npix : Nat) (xfit yfit flux : Rat) (fitErr noCov atBound : Bool) : Nat :=
  (if npix < fy * fx then 1 else 0) +
  (if xfit < 0 ∨ yfit < 0 ∨ xfit > nx ∨ yfit > ny then 2 else 0) +
  (if flux ≤ 0 then 4 else 0) + (if fitErr then 8 else 0) + (if noCov then 16 else 0) + (if atBound then 32 else 0)

end PhotVerif.Model.PsfBook
