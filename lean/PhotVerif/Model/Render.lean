/-
  Model of photutils.datasets.make_model_image (images.py): per-row window from
  astropy.nddata.overlap_slices(shape, model_shape, (y0, x0), mode='trim'), skip on no overlap,
  `image[window] += stamp + local_bkg`, and the units flag.  Core Lean only.
-/
import PhotVerif.Gen.RenderTable
namespace PhotVerif.Model.Render
open PhotVerif PhotVerif.Gen.RenderTable

/-- one axis of `overlap_slices(large, small, pos, mode='trim')`: `none` = NoOverlapError,
    else the slice [start, stop) of the large array -/
def window1 (large small : Nat) (pos : Rat) : Option (Nat × Nat) :=
  let imin : Int := (pos - (small : Rat) / 2).ceil
  let imax : Int := imin + small
  if imax < 0 ∨ (imax = 0 ∧ small ≠ 0) ∨ imin ≥ large then none
  else some ((max 0 imin).toNat, (min (large : Int) imax).toNat)

structure Row where
  x0 : Rat
  y0 : Rat
  shapeY : Nat
  shapeX : Nat
  bkg : Rat
  hasUnit : Bool                -- the model evaluates to a Quantity for this row
  val : Nat → Nat → Rat         -- the model with this row's parameters, evaluated at pixel (y, x)

/-- window of a row on an ny × nx image: ((y0, y1), (x0, x1)) or none (row skipped).
    astropy tests every axis for "max ≤ 0" before any axis for "min ≥ large"; both raise the same error. -/
def window (ny nx : Nat) (r : Row) : Option ((Nat × Nat) × (Nat × Nat)) :=
  match window1 ny r.shapeY r.y0, window1 nx r.shapeX r.x0 with
  | some wy, some wx => some (wy, wx)
  | _, _ => none

def inWin (w : (Nat × Nat) × (Nat × Nat)) (y x : Nat) : Bool :=
  decide (w.1.1 ≤ y ∧ y < w.1.2 ∧ w.2.1 ≤ x ∧ x < w.2.2)

/-- contribution of one row to pixel (y, x) -/
def contrib (ny nx : Nat) (r : Row) (y x : Nat) : Rat :=
  match window ny nx r with
  | none => 0
  | some w => if inWin w y x then r.val y x + r.bkg else 0

/-- the accumulation loop: `image = zeros; for row: image[window] += stamp + local_bkg` -/
def render (ny nx : Nat) (rows : List Row) : Nat → Nat → Rat :=
  rows.foldl (fun img r => fun y x => img y x + contrib ny nx r y x) (fun _ _ => 0)

/-- does the output carry units: attached by a row that overlaps and is a Quantity; if the source
    conditions this on the row index, only row 0 can attach them -/
def outputHasUnit (ny nx : Nat) (rows : List Row) : Bool :=
  (if unitsDependOnRowIndex then
    match rows with
    | r :: _ => (window ny nx r).isSome && r.hasUnit
    | [] => false
  else rows.any fun r => (window ny nx r).isSome && r.hasUnit)
  -- after the loop: the model still holds the parameters of the LAST row; its value's unit is attached if nothing was
  || (attachesUnitAfterLoop && (rows.getLast?.map (·.hasUnit)).getD false)

/-- `make_residual_image` = data − model image -/
def residual (data : Nat → Nat → Rat) (ny nx : Nat) (rows : List Row) : Nat → Nat → Rat :=
  fun y x => data y x - render ny nx rows y x

end PhotVerif.Model.Render
