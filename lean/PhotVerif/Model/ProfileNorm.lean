/-
  State machine of ProfileBase.normalize / unnormalize and the lazily cached profile arrays
  (photutils/profiles/core.py, radial_profile.py).  Every cached array is the raw array times a
  rational scale; the table (which arrays are rescaled, unconditionally or only if cached; whether a
  first read applies the current normalisation) is regenerated from the source.  Core Lean only.
-/
import PhotVerif.Gen.ProfileTable
namespace PhotVerif.Model.ProfileNorm
open PhotVerif.Gen.ProfileTable

structure PState where
  norm : Rat                       -- normalization_value
  sc : List (Option Rat)           -- per key: scale of the cached array (none = not cached yet)
deriving Repr

def init (tbl : List Row) : PState := ⟨1, List.replicate tbl.length none⟩

/-- scale with which lazy array `row` is created when first evaluated under normalisation `norm` -/
def firstScale (row : Row) (norm : Rat) : Rat := if row.firstReadAppliesNorm then 1 / norm else 1

/-- read array k (caches it); returns the scale of the value seen by the caller -/
def readKey (row : Row) (norm : Rat) (old : Option Rat) : Option Rat :=
  match old with
  | some v => some v
  | none => some (firstScale row norm)

def read (tbl : List Row) (s : PState) (k : Nat) : PState :=
  match tbl[k]? with
  | none => s
  | some row => { s with sc := s.sc.set k (readKey row s.norm (s.sc.getD k none)) }

/-- what a mutator does to one cached array: skip / multiply if cached / force a first read and multiply.
    `normNow` is the value of `normalization_value` at the moment a forced first read happens. -/
def rescaleKey (normNow : Rat) (factor : Rat) (inM uncond : Bool) (old : Option Rat) (row : Row) : Option Rat :=
  if !inM then old else
  match old with
  | some v => some (v * factor)
  | none => if uncond then some (firstScale row normNow * factor) else none

/-- `normalize(method)`; `m` = max or sum of the RAW profile (a parameter of the model) -/
def normalize (tbl : List Row) (s : PState) (m : Rat) : PState :=
  let s := read tbl s 0                                -- `nanmax(self.profile)`
  let a := (s.sc.getD 0 none).getD 1
  let n := a * m
  if n = 0 then s else
  let norm' := s.norm * n                               -- `self.normalization_value *= normalization`
  { norm := norm',
    sc := List.zipWith (fun old row => rescaleKey norm' (1 / n) row.inNormalize row.uncondNormalize old row) s.sc tbl }

def unnormalize (tbl : List Row) (s : PState) : PState :=
  { norm := 1,
    sc := List.zipWith (fun old row => rescaleKey s.norm s.norm row.inUnnormalize row.uncondUnnormalize old row) s.sc tbl }

inductive Op where
  | read (k : Nat) | normalize (m : Rat) | unnormalize
deriving Repr

def step (tbl : List Row) (s : PState) : Op → PState
  | .read k => read tbl s k
  | .normalize m => normalize tbl s m
  | .unnormalize => unnormalize tbl s

def run (tbl : List Row) (ops : List Op) : PState := ops.foldl (step tbl) (init tbl)

/-- decidable well-formedness of a row -/
def rowWf (r : Row) : Bool :=
  r.inNormalize && r.inUnnormalize &&
  (if r.firstReadAppliesNorm then !r.uncondNormalize && !r.uncondUnnormalize else r.uncondNormalize)

end PhotVerif.Model.ProfileNorm
