/-
  PhotVerif.Model.Prelude — shared vocabulary of the executable models and of
  the generated (translated) definitions.  Core Lean only (no Mathlib), so that
  the line-protocol driver can import it.
-/
namespace PhotVerif

/-- Error kinds; the implementation's exceptions are mapped to this enum. -/
inductive Err where
  | TypeError | ValueError | IndexError | KeyError | Overflow | OutOfFuel
  | NoOverlap | Exception
deriving DecidableEq, Repr, Inhabited

def Err.name : Err → String
  | .TypeError => "TypeError" | .ValueError => "ValueError"
  | .IndexError => "IndexError" | .KeyError => "KeyError"
  | .Overflow => "OverflowError" | .OutOfFuel => "OutOfFuel"
  | .NoOverlap => "NoOverlapError" | .Exception => "Exception"

/-- `math.floor` / `math.ceil` to an integer. -/
class FloorOps (α : Type) where
  floorI : α → Int
  ceilI : α → Int

/-- libm operations used by the geometry kernels. -/
class MathOps (α : Type) where
  sqrt : α → α
  asin : α → α
  sin : α → α
  cos : α → α
  fabs : α → α
  pi : α

instance : FloorOps Rat := ⟨Rat.floor, Rat.ceil⟩

instance : NatCast Float := ⟨Nat.toFloat⟩
instance : IntCast Float := ⟨Float.ofInt⟩
instance : FloorOps Float :=
  ⟨fun x => (Float.floor x).toInt64.toInt, fun x => (Float.ceil x).toInt64.toInt⟩
instance : MathOps Float :=
  ⟨Float.sqrt, Float.asin, Float.sin, Float.cos, Float.abs, 3.141592653589793⟩

/-- `for i in range(n)` with loop-carried state. -/
def forRange {σ : Type} (n : Nat) (init : σ) (f : Nat → σ → σ) : σ :=
  (List.range n).foldl (fun s i => f i s) init

/-- a python `slice(start, stop)` with integer bounds -/
structure Slc where
  start : Int
  stop : Int
deriving DecidableEq, Repr, Inhabited

/-- python-style `min`/`max` on two arguments (first wins ties) -/
def pymin {α} [LT α] [DecidableLT α] (a b : α) : α := if b < a then b else a
def pymax {α} [LT α] [DecidableLT α] (a b : α) : α := if a < b then b else a

end PhotVerif
