/-
  Hand-written, code-shaped model of aperture mask assembly (photutils/aperture/
  {core,circle,ellipse,rectangle,mask}.py) on top of the *generated* BBox and kernels.
  Core Lean only.
-/
import PhotVerif.Gen.BBox
import PhotVerif.Gen.Geom
namespace PhotVerif.Model
open PhotVerif PhotVerif.Gen

inductive Mode where | center | subpixel | exact
deriving DecidableEq, Repr

/-- `PixelAperture._translate_mask_mode`: (use_exact, subpixels) -/
def translateMaskMode (mode : Mode) (subpixels : Int) (rectangle : Bool) : Except Err (Int × Int) :=
  let (mode, subpixels) := if rectangle && mode == .exact then (Mode.subpixel, (32 : Int)) else (mode, subpixels)
  if mode == .subpixel && subpixels ≤ 0 then .error Err.ValueError
  else match mode with
    | .center => .ok (0, 1)
    | .subpixel => .ok (0, subpixels)
    | .exact => .ok (1, 1)

section
variable {α : Type} [Add α] [Sub α] [Mul α] [Div α] [Neg α] [LT α] [LE α] [DecidableLT α] [DecidableLE α]
  [OfScientific α] [NatCast α] [IntCast α] [FloorOps α] [MathOps α]

/-- `_bbox`: from the centre and the (x, y) half extents -/
def apertureBBox (cx cy xext yext : α) : Except Err BBox :=
  BBox.fromFloat (cx - xext) (cx + xext) (cy - yext) (cy + yext)

/-- `_centered_edges` -/
def centeredEdges (b : BBox) (cx cy : α) : α × α × α × α :=
  ((b.ixmin : α) - 0.5 - cx, (b.ixmax : α) - 0.5 - cx, (b.iymin : α) - 0.5 - cy, (b.iymax : α) - 0.5 - cy)

/-- pixel (i, j) of a grid with `nx × ny` cells over the edges: its lower/upper corners,
    computed as the `*_overlap_grid` loops do -/
def gridPixel (e : α × α × α × α) (nx ny : Int) (i j : Nat) : α × α × α × α :=
  let (xmin, xmax, ymin, ymax) := e
  let dx := (xmax - xmin) / (nx : α)
  let dy := (ymax - ymin) / (ny : α)
  let pxmin := xmin + (i : α) * dx
  let pymin := ymin + (j : α) * dy
  (pxmin, pymin, pxmin + dx, pymin + dy)

/-- a mask: bounding box and weight of local pixel (j, i) -/
structure AMask (α : Type) where
  bbox : BBox
  w : Nat → Nat → α     -- (j, i), 0 ≤ j < ny, 0 ≤ i < nx

/-- circular aperture / annulus in a counting mode (`use_exact = 0`) -/
def circMask (cx cy r : α) (rin : Option α) (mode : Mode) (subpixels : Int) : Except Err (AMask α) :=
  match translateMaskMode mode subpixels false with
  | .error e => .error e
  | .ok (_, s) =>
    match apertureBBox cx cy r r with
    | .error e => .error e
    | .ok b =>
      let e := centeredEdges b cx cy
      let (ny, nx) := b.shape
      .ok ⟨b, fun j i =>
        let (x0, y0, x1, y1) := gridPixel e nx ny i j
        let wo := circular_overlap_single_subpixel x0 y0 x1 y1 r s
        match rin with
        | none => wo
        | some ri => wo - circular_overlap_single_subpixel x0 y0 x1 y1 ri s⟩

/-- elliptical aperture / annulus, counting mode; the float box edges `positions ∓ extent` are supplied
    (the extents come from sqrt/trig and the subtraction rounds) -/
def ellMask (cx cy a b theta xmin xmax ymin ymax : α) (inner : Option (α × α)) (mode : Mode) (subpixels : Int) :
    Except Err (AMask α) :=
  match translateMaskMode mode subpixels false with
  | .error e => .error e
  | .ok (_, s) =>
    match BBox.fromFloat xmin xmax ymin ymax with
    | .error e => .error e
    | .ok bb =>
      let e := centeredEdges bb cx cy
      let (ny, nx) := bb.shape
      .ok ⟨bb, fun j i =>
        let (x0, y0, x1, y1) := gridPixel e nx ny i j
        let wo := elliptical_overlap_single_subpixel x0 y0 x1 y1 a b theta s
        match inner with
        | none => wo
        | some (ai, bi) => wo - elliptical_overlap_single_subpixel x0 y0 x1 y1 ai bi theta s⟩

/-- rectangular aperture / annulus ('exact' becomes 32×32 sub-sampling) -/
def rectMask (cx cy w h theta xmin xmax ymin ymax : α) (inner : Option (α × α)) (mode : Mode) (subpixels : Int) :
    Except Err (AMask α) :=
  match translateMaskMode mode subpixels true with
  | .error e => .error e
  | .ok (_, s) =>
    match BBox.fromFloat xmin xmax ymin ymax with
    | .error e => .error e
    | .ok bb =>
      let e := centeredEdges bb cx cy
      let (ny, nx) := bb.shape
      .ok ⟨bb, fun j i =>
        let (x0, y0, x1, y1) := gridPixel e nx ny i j
        let wo := rectangular_overlap_single_subpixel x0 y0 x1 y1 w h theta s
        match inner with
        | none => wo
        | some (wi, hi) => wo - rectangular_overlap_single_subpixel x0 y0 x1 y1 wi hi theta s⟩
end

/-! ### `ApertureMask.to_image` / `cutout` as index maps -/

/-- `to_image(shape)`: value of image pixel (y, x); `none` = the method returns None -/
def toImage {α} [OfNat α 0] (b : BBox) (w : Int → Int → α) (ny nx : Int) : Except Err (Option (Int → Int → α)) :=
  match b.getOverlapSlices (ny, nx) with
  | .error e => .error e
  | .ok none => .ok none
  | .ok (some ((ly, lx), (sy, sx))) =>
    .ok (some fun y x =>
      if ly.start ≤ y ∧ y < ly.stop ∧ lx.start ≤ x ∧ x < lx.stop
      then w (y - ly.start + sy.start) (x - lx.start + sx.start) else 0)

/-- `cutout(data, fill_value)`: value of cut-out pixel (j, i) of the bbox-shaped array -/
def cutout {α} (b : BBox) (data : Int → Int → α) (ny nx : Int) (fill : α) :
    Except Err (Option (Int → Int → α)) :=
  match b.getOverlapSlices (ny, nx) with
  | .error e => .error e
  | .ok none => .ok none
  | .ok (some ((ly, lx), (sy, sx))) =>
    .ok (some fun j i =>
      if sy.start ≤ j ∧ j < sy.stop ∧ sx.start ≤ i ∧ i < sx.stop
      then data (j - sy.start + ly.start) (i - sx.start + lx.start) else fill)

end PhotVerif.Model
