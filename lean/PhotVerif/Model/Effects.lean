/-
  Effects model for "no public call modifies its inputs" (C10): a small language of aliasing effects
  (what each Python statement does to the buffers reachable from the caller's arguments), its concrete
  non-deterministic semantics, and a may-alias analysis.  Core Lean only.

  Variables are numbers; buffers are numbers; the caller's input buffers are 0 .. k-1.
-/
namespace PhotVerif.Model.Effects

abbrev Var := Nat

inductive Stmt where
  | skip
  | assign (d s : Var)        -- d = s, d = s[...], d = np.asanyarray(s), d = s.T / .view() / .data / .value ...
  | fresh (d : Var)          -- d = s.copy(), np.array(s), s.astype(..), arithmetic, any call returning a new object
  | write (v : Var)          -- v[...] = .., v += .., v |= .., f(.., out=v), v.sort(), ...
  | seq (a b : Stmt)
  | ite (a b : Stmt)         -- if / else, try / except: either branch
  | loop (body : Stmt)       -- for / while: body any number of times
deriving Repr, Inhabited

/-- concrete state: which buffer each variable points to, the next fresh buffer id, buffers written so far -/
structure CState where
  env : Var → Option Nat
  next : Nat
  written : List Nat

def CState.set (s : CState) (d : Var) (b : Option Nat) : CState :=
  { s with env := fun v => if v = d then b else s.env v }

/-- big-step, non-deterministic semantics -/
inductive Exec : Stmt → CState → CState → Prop where
  | skip (s) : Exec .skip s s
  | assign (s d x) : Exec (.assign d x) s (s.set d (s.env x))
  | fresh (s d) : Exec (.fresh d) s { (s.set d (some s.next)) with next := s.next + 1 }
  | write (s v) : Exec (.write v) s { s with written := (s.env v).toList ++ s.written }
  | seq {a b s s1 s2} : Exec a s s1 → Exec b s1 s2 → Exec (.seq a b) s s2
  | iteL {a b s s1} : Exec a s s1 → Exec (.ite a b) s s1
  | iteR {a b s s1} : Exec b s s1 → Exec (.ite a b) s s1
  | loopDone (body s) : Exec (.loop body) s s
  | loopStep {body s s1 s2} : Exec body s s1 → Exec (.loop body) s1 s2 → Exec (.loop body) s s2

/-- abstract state: for every variable the input buffers it may point to -/
abbrev AState := List (List Nat)

def AState.get (a : AState) (v : Var) : List Nat := a.getD v []

def AState.set (a : AState) (d : Var) (l : List Nat) : AState :=
  if d < a.length then List.set a d l          -- the usual case: states are pre-sized to the number of variables
  else (List.range (d + 1)).map fun v => if v = d then l else a.get v

def union (x y : List Nat) : List Nat := x ++ y.filter (fun b => !x.contains b)

def join : AState → AState → AState
  | [], b => b
  | a, [] => a
  | x :: a, y :: b => union x y :: join a b

def subset (x y : List Nat) : Bool := x.all y.contains

/-- a ⊑ b on all variables -/
def AState.le : AState → AState → Bool
  | [], _ => true
  | x :: a, [] => x.isEmpty && AState.le a []
  | x :: a, y :: b => subset x y && AState.le a b

/-- join `f a` into `a` until nothing new appears, at most `n` times -/
def iterJoin (f : AState → AState) : Nat → AState → AState
  | 0, a => a
  | n + 1, a =>
    let b := f a
    if b.le a then a else iterJoin f n (join a b)

/-- the analysis: resulting abstract state and "no write through a variable that may point to an input";
    loops are analysed at a post-fixpoint reached by `fuel` joins, whose stability is checked -/
def absExec (fuel : Nat) : Stmt → AState → AState × Bool
  | .skip, a => (a, true)
  | .assign d s, a => (a.set d (a.get s), true)
  | .fresh d, a => (a.set d [], true)
  | .write v, a => (a, (a.get v).isEmpty)
  | .seq x y, a =>
    let r1 := absExec fuel x a
    let r2 := absExec fuel y r1.1
    (r2.1, r1.2 && r2.2)
  | .ite x y, a =>
    let r1 := absExec fuel x a
    let r2 := absExec fuel y a
    (join r1.1 r2.1, r1.2 && r2.2)
  | .loop body, a =>
    let af := iterJoin (fun s => (absExec fuel body s).1) fuel a
    let r := absExec fuel body af
    (af, r.2 && r.1.le af)

/-- entry state of a function with `k` inputs bound to variables 0 .. k-1, pre-sized for `nv` variables -/
def entry (k nv : Nat) : AState := (List.range (max k nv)).map fun i => if i < k then [i] else []

/-- the function is accepted: no statement writes through a may-alias of an input -/
def safe (fuel k nv : Nat) (p : Stmt) : Bool := (absExec fuel p (entry k nv)).2

end PhotVerif.Model.Effects
