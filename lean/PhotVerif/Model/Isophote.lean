/-
  Model of the logic of photutils.isophote: the semi-major-axis growth skeleton of Ellipse.fit_image
  (ellipse.py), EllipseGeometry.update_sma / reset_sma / radius / to_polar (geometry.py, scalar and vectorised
  twins), and the choice of the parameter corrector in EllipseFitter.fit (fitter.py).  Core Lean only.
  The harmonic fit, the image sampling and the size of the corrections are oracles.
-/
import PhotVerif.Model.Prelude
namespace PhotVerif.Model.Isophote
open PhotVerif

/-! ### growth of the semi-major axis -/

/-- `EllipseGeometry.update_sma(step)` -/
def updateSma (linear : Bool) (sma step : Rat) : Rat := if linear then sma + step else sma * (1 + step)

/-- `EllipseGeometry.reset_sma(step)`: first inward sma and the step to use inwards -/
def resetSma (linear : Bool) (sma step : Rat) : Rat × Rat :=
  if linear then (sma - step, -step) else (sma * (1 / (1 + step)), 1 / (1 + step) - 1)

/-- what the fit of one isophote reports back to the growth loop -/
inductive Ev where
  | ok          -- keep going
  | stop        -- outwards: "two consecutive failures / stop code 1, no maxsma": go inwards; inwards: stop code 3
deriving DecidableEq, Repr

/-- outward loop: sma values fitted, in order.  `ev i` is the outcome of the i-th fit; the loop ends when the next
    sma reaches `maxsma`, when the fit says stop, or when the fuel (an upper bound on fits) runs out -/
def outward (linear : Bool) (step : Rat) (maxsma : Option Rat) (ev : Nat → Ev) : Nat → Nat → Rat → List Rat
  | 0, _, _ => []
  | fuel + 1, i, sma =>
    let next := updateSma linear sma step
    if ev i = .stop then [sma]
    else match maxsma with
      | some m => if next ≥ m then [sma] else sma :: outward linear step maxsma ev fuel (i + 1) next
      | none => sma :: outward linear step maxsma ev fuel (i + 1) next

/-- inward loop from the already reset sma / step.  `guardFirst`: the first inward sma is fitted only if it is above
    max(minsma, 0.5) (read off the source: Gen/IsophoteTable.lean) -/
def inwardLoop (linear : Bool) (step : Rat) (lo : Rat) (ev : Nat → Ev) : Nat → Nat → Rat → List Rat
  | 0, _, _ => []
  | fuel + 1, i, sma =>
    let next := updateSma linear sma step
    if ev i = .stop then [sma]
    else if next ≤ lo then [sma] else sma :: inwardLoop linear step lo ev fuel (i + 1) next

structure Cfg where
  sma0 : Rat
  step : Rat
  linear : Bool
  minsma : Rat
  maxsma : Option Rat
  guardFirstInward : Bool

/-- the sma values of the returned list (before sorting): outward run, inward run, optional central pixel -/
def fittedSmas (c : Cfg) (evOut evIn : Nat → Ev) (fuel : Nat) : List Rat :=
  let out := outward c.linear c.step c.maxsma evOut fuel 0 c.sma0
  let r := resetSma c.linear c.sma0 c.step
  let lo := max c.minsma (1 / 2)
  let inw := if c.guardFirstInward && decide (r.1 ≤ lo) then [] else inwardLoop c.linear r.2 lo evIn fuel 0 r.1
  out ++ inw ++ (if c.minsma = 0 then [0] else [])

def sortedSmas (c : Cfg) (evOut evIn : Nat → Ev) (fuel : Nat) : List Rat :=
  (fittedSmas c evOut evIn fuel).mergeSort (fun a b => decide (a ≤ b))

/-! ### ellipse geometry -/

/-- `EllipseGeometry.radius(angle)` with the cosine and sine of the angle as parameters -/
def radius2 (sma eps c s : Rat) : Rat × Rat :=
  -- (numerator, denominator²): r = sma(1-eps) / sqrt(((1-eps)c)² + s²)
  (sma * (1 - eps), ((1 - eps) * c) * ((1 - eps) * c) + s * s)

/-- `_to_polar_scalar` over a scalar type with sqrt / asin / pi -/
def toPolarScalar {α : Type} [Add α] [Sub α] [Mul α] [Div α] [LT α] [LE α] [DecidableLT α] [DecidableLE α] [OfNat α 0] [OfNat α 1] [OfNat α 2]
    [MathOps α] (x0 y0 pa x y : α) : α × α :=
  let x1 := x - x0
  let y1 := y - y0
  let r2 := x1 * x1 + y1 * y1
  let radius := if r2 > 0 then MathOps.sqrt r2 else 0
  let angle := if r2 > 0 then MathOps.asin (MathOps.fabs y1 / MathOps.sqrt r2) else 1
  let angle :=
    if x1 ≥ 0 ∧ y1 < 0 then 2 * MathOps.pi - angle
    else if x1 < 0 ∧ y1 ≥ 0 then MathOps.pi - angle
    else if x1 < 0 ∧ y1 < 0 then MathOps.pi + angle
    else angle
  let pa1 := if pa < 0 then pa + 2 * MathOps.pi else pa
  let angle := angle - pa1
  let angle := if angle < 0 then angle + 2 * MathOps.pi else angle
  (radius, angle)

/-- one element of `_to_polar_vectorized`: the masks are applied one after the other -/
def toPolarVecElem {α : Type} [Add α] [Sub α] [Mul α] [Div α] [LT α] [LE α] [DecidableLT α] [DecidableLE α] [OfNat α 0] [OfNat α 1] [OfNat α 2]
    [MathOps α] (x0 y0 pa x y : α) : α × α :=
  let x1 := x - x0
  let y1 := y - y0
  let r2 := x1 * x1 + y1 * y1
  let imask := decide (r2 > 0)
  let radius := if imask then MathOps.sqrt r2 else 0
  let angle : α := if imask then MathOps.asin (MathOps.fabs y1 / MathOps.sqrt r2) else 1
  let angle := if x1 ≥ 0 ∧ y1 < 0 then 2 * MathOps.pi - angle else angle
  let angle := if x1 < 0 ∧ y1 ≥ 0 then MathOps.pi - angle else angle
  let angle := if x1 < 0 ∧ y1 < 0 then MathOps.pi + angle else angle
  let pa1 := if pa < 0 then pa + 2 * MathOps.pi else pa
  let angle := angle - pa1
  let angle := if angle < 0 then angle + 2 * MathOps.pi else angle
  (radius, angle)

/-! ### which parameter is corrected -/

/-- `np.argmax(np.abs(masked_array(coeffs[1:], mask=fixed)))`: index of the largest free harmonic (first on ties);
    `none` when everything is fixed -/
def absQ (q : Rat) : Rat := if q < 0 then -q else q

def chooseCorrector (amps : List Rat) (fixed : List Bool) : Option Nat :=
  let cand := (List.range amps.length).filter fun i => !(fixed.getD i false)
  cand.foldl (fun best i =>
    match best with
    | none => some i
    | some b => if absQ (amps.getD i 0) > absQ (amps.getD b 0) then some i else some b) none

structure Geo where
  x0 : Rat
  y0 : Rat
  pa : Rat
  eps : Rat
deriving DecidableEq, Repr

/-- corrector k changes only its own parameter group: 0,1 → centre, 2 → position angle, 3 → ellipticity;
    the corrected values are oracles -/
def applyCorrector (g : Geo) (k : Nat) (nx ny npa neps : Rat) : Geo :=
  match k with
  | 0 | 1 => { g with x0 := nx, y0 := ny }
  | 2 => { g with pa := npa }
  | 3 => { g with eps := neps }
  | _ => g

/-- `fix = [fix_center, fix_center, fix_pa, fix_eps]` -/
def fixVector (fc fp fe : Bool) : List Bool := [fc, fc, fp, fe]

/-- the geometry repairs of `_check_conditions` after every correction: an ellipticity that crossed zero is made
    positive again and the position angle turned by a quarter turn (`halfPi` = π/2) — also when the position angle is
    fixed; an exactly round ellipse gets the minimum ellipticity -/
def checkConditions (halfPi maxEps minEps : Rat) (g : Geo) : Geo :=
  let g := if g.eps < 0 then
      { g with eps := min (-g.eps) maxEps, pa := if g.pa < halfPi then g.pa + halfPi else g.pa - halfPi }
    else g
  if g.eps = 0 then { g with eps := minEps } else g

/-- the iterations of one fit: harmonic amplitudes and proposed new values come from an oracle -/
def iterate (halfPi maxEps minEps : Rat) (fixed : List Bool) (oracle : Nat → List Rat × (Rat × Rat × Rat × Rat)) : Nat → Geo → Geo
  | 0, g => g
  | n + 1, g =>
    let o := oracle n
    match chooseCorrector o.1 fixed with
    | none => g
    | some k => iterate halfPi maxEps minEps fixed oracle n
        (checkConditions halfPi maxEps minEps (applyCorrector g k o.2.1 o.2.2.1 o.2.2.2.1 o.2.2.2.2))

end PhotVerif.Model.Isophote
