/-
  Index arithmetic of the image-based PSF models (photutils/psf/image_models.py, gridded_models.py):
  ImagePSF sample-point transform, GriddedPSFModel bounding points (searchsorted − 1, clip) and bilinear
  weights with clamping (incl. the zero-width cell of a single-row/column grid).  Core Lean only.
-/
import PhotVerif.Model.Prelude
import PhotVerif.Gen.PsfOrigin
namespace PhotVerif.Model.Psf

/-- `np.searchsorted(grid, x)` (side='left') for an increasing grid: number of nodes strictly below x -/
def searchsorted (grid : List Rat) (x : Rat) : Nat := grid.countP (fun g => decide (g < x))

/-- `np.clip(i, lo, hi)` on integers (numpy semantics: min(max(i, lo), hi), so hi wins when lo > hi) -/
def clipI (i lo hi : Int) : Int := min (max i lo) hi

/-- index of the lower bounding node on one axis -/
def lowerIdx (grid : List Rat) (x : Rat) : Int :=
  clipI ((searchsorted grid x : Int) - 1) 0 ((grid.length : Int) - 2)

/-- python indexing with a possibly negative index -/
def pyGet (grid : List Rat) (i : Int) : Rat :=
  if i < 0 then grid.getD (grid.length - (-i).toNat) 0 else grid.getD i.toNat 0

/-- the two bounding nodes (x0, x1) of a position on one axis -/
def bounds1 (grid : List Rat) (x : Rat) : Rat × Rat :=
  let i := lowerIdx grid x
  (pyGet grid i, pyGet grid (i + 1))

def clipR (x lo hi : Rat) : Rat := min (max x lo) hi

/-- fractional weight of the UPPER node on one axis, with clamping; 0 for a zero-width cell -/
def frac1 (x0 x1 x : Rat) : Rat := if x1 = x0 then 0 else (clipR x x0 x1 - x0) / (x1 - x0)

/-- bilinear weights (lower-left, lower-right, upper-left, upper-right) -/
def bilinearWeights (x0 x1 y0 y1 x y : Rat) : Rat × Rat × Rat × Rat :=
  if x1 = x0 ∨ y1 = y0 then
    let tx := frac1 x0 x1 x
    let ty := frac1 y0 y1 y
    ((1 - tx) * (1 - ty), tx * (1 - ty), (1 - tx) * ty, tx * ty)
  else
    let xi := clipR x x0 x1
    let yi := clipR y y0 y1
    let norm := (x1 - x0) * (y1 - y0)
    ((x1 - xi) * (y1 - yi) / norm, (xi - x0) * (y1 - yi) / norm, (x1 - xi) * (yi - y0) / norm,
     (xi - x0) * (yi - y0) / norm)

/-- ImagePSF / GriddedPSFModel: array coordinate of image coordinate x for a model centred at x0 -/
def arrayCoord (os origin x x0 : Rat) : Rat := os * (x - x0) + origin

/-- outside the data array ⇒ fill_value -/
def isInvalid (n : Nat) (xi : Rat) : Bool := decide (xi < 0 ∨ xi > (n : Rat) - 1)

/-- the index placed at x_0 when the caller gives no origin, along an axis of n samples (constants regenerated from the source) -/
def defaultOrigin (sub : Int) (den : Nat) (n : Nat) : Rat := ((n : Rat) - sub) / den

def griddedOrigin (n : Nat) : Rat := defaultOrigin Gen.PsfOrigin.griddedSub Gen.PsfOrigin.griddedDen n
def imageOrigin (n : Nat) : Rat := defaultOrigin Gen.PsfOrigin.imageSub Gen.PsfOrigin.imageDen n

/-- detector offset from x_0 at which array sample i sits -/
def sampleOffset (os origin : Rat) (i : Nat) : Rat := ((i : Rat) - origin) / os

end PhotVerif.Model.Psf
