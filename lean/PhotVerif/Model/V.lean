/-
  Pixel values with IEEE special values: finite rational | NaN | +inf | -inf.
  Addition and scaling follow the IEEE-754 special-value tables (finite results exact).
-/
import PhotVerif.Model.Prelude
namespace PhotVerif.Model

inductive V where
  | fin (q : Rat)
  | nan
  | pinf
  | ninf
deriving DecidableEq, Repr, Inhabited

namespace V
def add : V → V → V
  | fin a, fin b => fin (a + b)
  | nan, _ => nan
  | _, nan => nan
  | pinf, ninf => nan
  | ninf, pinf => nan
  | pinf, _ => pinf
  | _, pinf => pinf
  | ninf, _ => ninf
  | _, ninf => ninf

def neg : V → V
  | fin a => fin (-a) | nan => nan | pinf => ninf | ninf => pinf

/-- `q * v` for a finite rational weight -/
def smul (q : Rat) : V → V
  | fin a => fin (q * a)
  | nan => nan
  | pinf => if q = 0 then nan else if q > 0 then pinf else ninf
  | ninf => if q = 0 then nan else if q > 0 then ninf else pinf

def sq : V → V
  | fin a => fin (a * a) | nan => nan | _ => pinf

def isFinite : V → Bool
  | fin _ => true | _ => false

instance : Add V := ⟨add⟩
instance : OfNat V 0 := ⟨fin 0⟩

def sum (l : List V) : V := l.foldl (· + ·) 0

def toString : V → String
  | fin q => if q.den = 1 then s!"{q.num}" else s!"{q.num}/{q.den}"
  | nan => "nan" | pinf => "inf" | ninf => "-inf"

def parse? (s : String) : Option V :=
  if s == "nan" then some nan else if s == "inf" then some pinf else if s == "-inf" then some ninf
  else match s.splitOn "/" with
    | [n] => n.toInt?.map (fun (z : Int) => fin (z : Rat))
    | [n, d] => do
        let z ← n.toInt?
        let m ← d.toNat?
        if m = 0 then none else some (fin (mkRat z m))
    | _ => none
end V
end PhotVerif.Model

namespace PhotVerif.Model.V
/-- IEEE `<`: false whenever a NaN is involved -/
def lt : V → V → Bool
  | fin a, fin b => decide (a < b)
  | nan, _ => false
  | _, nan => false
  | ninf, ninf => false
  | ninf, _ => true
  | _, ninf => false
  | pinf, _ => false
  | _, pinf => true
end PhotVerif.Model.V
