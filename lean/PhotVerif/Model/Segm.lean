/-
  State-machine model of photutils.segmentation.SegmentationImage (core.py):
  label array + lazily cached derived attributes + deblend label map.
  Cache handling of the mutators is driven by the table regenerated from the source
  (Gen/SegmTable.lean): whether `_reset_lazyproperties()` runs before `_data` is replaced,
  which `__dict__` entries are re-seeded, whether the deblend map is pushed through the relabel map.
  Core Lean only.
-/
import PhotVerif.Gen.SegmTable
namespace PhotVerif.Model.Segm
open PhotVerif PhotVerif.Gen.SegmTable

structure Box where
  y0 : Nat
  y1 : Nat
  x0 : Nat
  x1 : Nat
deriving DecidableEq, Repr, Inhabited

/-! ### derived attributes as functions of the label array `d : pixel index → label` -/

def pix (n : Nat) (d : Nat → Nat) (l : Nat) : List Nat := (List.range n).filter fun p => d p == l

def maxLabel (n : Nat) (d : Nat → Nat) : Nat := (List.range n).foldl (fun m p => max m (d p)) 0

def present (n : Nat) (d : Nat → Nat) (l : Nat) : Bool := (List.range n).any fun p => d p == l

/-- `np.unique(data[data != 0])`: sorted distinct non-zero labels -/
def dLabels (n : Nat) (d : Nat → Nat) : List Nat :=
  (List.range (maxLabel n d + 1)).filter fun l => l != 0 && present n d l

def boxOf (nx : Nat) (ps : List Nat) : Box :=
  let ys := ps.map (· / nx)
  let xs := ps.map (· % nx)
  ⟨ys.foldl min (ys.headD 0), ys.foldl max 0 + 1, xs.foldl min (xs.headD 0), xs.foldl max 0 + 1⟩

/-- `scipy.ndimage.find_objects(data)`: entry `l-1` is the bounding slice of label `l`, or None -/
def dRaw (n nx : Nat) (d : Nat → Nat) : List (Option Box) :=
  (List.range (maxLabel n d)).map fun i =>
    if present n d (i + 1) then some (boxOf nx (pix n d (i + 1))) else none

/-- `labels` computed from cached `_raw_slices` -/
def labelsFromRaw (raw : List (Option Box)) : List Nat :=
  (List.range raw.length).filterMap fun i => if (raw.getD i none).isSome then some (i + 1) else none

def slicesFromRaw (raw : List (Option Box)) : List Box := raw.filterMap id

def dSlices (n nx : Nat) (d : Nat → Nat) : List Box := (dLabels n d).map fun l => boxOf nx (pix n d l)

def dAreas (n : Nat) (d : Nat → Nat) : List Nat := (dLabels n d).map fun l => (pix n d l).length

/-! ### state -/

structure State where
  ny : Nat
  nx : Nat
  data : Array Nat
  dtmax : Nat                                   -- largest value of the integer dtype
  cLabels : Option (List Nat) := none
  cRaw : Option (List (Option Box)) := none
  cSlices : Option (List Box) := none
  cAreas : Option (List Nat) := none
  cNlabels : Option Nat := none
  cMax : Option Nat := none
  dmap : List (Nat × List Nat) := []            -- `_deblend_label_map`: parent ↦ children
deriving Repr

def State.n (s : State) : Nat := s.ny * s.nx
def State.d (s : State) : Nat → Nat := fun p => s.data.getD p 0

def State.resetCaches (s : State) : State :=
  { s with cLabels := none, cRaw := none, cSlices := none, cAreas := none, cNlabels := none, cMax := none }

def State.setLabels (s : State) (v : List Nat) : State := { s with cLabels := some v }
def State.setRaw (s : State) (v : List (Option Box)) : State := { s with cRaw := some v }
def State.setSlices (s : State) (v : List Box) : State := { s with cSlices := some v }
def State.setAreas (s : State) (v : List Nat) : State := { s with cAreas := some v }
def State.setNlabels (s : State) (v : Nat) : State := { s with cNlabels := some v }
def State.setMax (s : State) (v : Nat) : State := { s with cMax := some v }

/-! ### lazily evaluated reads (each returns the new state, with the value cached) -/

def readLabels (s : State) : State × List Nat :=
  match s.cLabels with
  | some l => (s, l)
  | none =>
    let l := match s.cRaw with
      | some raw => if labelsReadsRawWhenCached then labelsFromRaw raw else dLabels s.n s.d
      | none => dLabels s.n s.d
    (s.setLabels l, l)

def readRaw (s : State) : State × List (Option Box) :=
  match s.cRaw with
  | some r => (s, r)
  | none => let r := dRaw s.n s.nx s.d; (s.setRaw r, r)

def readSlices (s : State) : State × List Box :=
  match s.cSlices with
  | some r => (s, r)
  | none =>
    let (s, raw) := readRaw s
    let r := slicesFromRaw raw
    (s.setSlices r, r)

/-- `areas`: zip(labels, slices) → pixel count of the label (inside its slice) -/
def readAreas (s : State) : State × List Nat :=
  match s.cAreas with
  | some r => (s, r)
  | none =>
    let (s, ls) := readLabels s
    let (s, _) := readSlices s
    let r := ls.map fun l => (pix s.n s.d l).length
    (s.setAreas r, r)

def readNlabels (s : State) : State × Nat :=
  match s.cNlabels with
  | some r => (s, r)
  | none => let (s, ls) := readLabels s; (s.setNlabels ls.length, ls.length)

def readMax (s : State) : State × Nat :=
  match s.cMax with
  | some r => (s, r)
  | none =>
    let (s, nl) := readNlabels s
    if nl = 0 then (s.setMax 0, 0) else
    let (s, ls) := readLabels s
    let m := ls.foldl max 0
    (s.setMax m, m)

/-! ### mutators -/

/-- `check_labels`: every label must be > 0 and present -/
def checkLabels (s : State) (ls : List Nat) : State × Bool :=
  let (s, labs) := readLabels s
  (s, ls.all fun l => l != 0 && labs.contains l)

/-- consecutive renumbering map built from a sorted label list (0 ↦ 0, labs[i] ↦ start + i) -/
def rankMap (labs : List Nat) (start : Nat) (l : Nat) : Nat :=
  if labs.contains l then start + labs.idxOf l else 0

def applySeeds (row : MutRow) (s : State) (newLabels : List Nat) (oldSlices : Option (List Box)) : State :=
  row.seeds.foldl (fun s sd =>
    if sd.1 == "labels" then s.setLabels newLabels
    else if sd.1 == "slices" then (match oldSlices with | some o => s.setSlices o | none => s)
    else s) s

/-- push the deblend map through a relabel map (children only), as `_update_deblend_label_map` does;
    whether removed children (mapped to 0) and emptied parents are dropped is read off the source -/
def updateDmap (dm : List (Nat × List Nat)) (f : Nat → Nat) : List (Nat × List Nat) :=
  let m := dm.map fun (p, cs) =>
    (p, if dmapDropsZero then (cs.map f).filter (· != 0) else cs.map f)
  if dmapDropsEmpty then m.filter fun (_, cs) => !cs.isEmpty else m

def commit (row : MutRow) (s : State) (newd : Array Nat) (f : Nat → Nat) (newLabels : List Nat)
    (oldSlices : Option (List Box)) : State :=
  let s1 := if row.resets then s.resetCaches else s
  let s2 := { s1 with data := newd }
  let s3 := applySeeds row s2 newLabels oldSlices
  let s4 := if row.clearDmap.isEmpty then s3 else { s3 with dmap := [] }
  if row.updateDmap.isEmpty then s4 else { s4 with dmap := updateDmap s4.dmap f }

/-- `relabel_consecutive(start_label)` -/
def relabelConsecutive (s : State) (start : Int) : State × Except Err Unit :=
  let (s, nl) := readNlabels s
  if nl = 0 then (s, .ok ()) else
  if start ≤ 0 then (s, .error Err.ValueError) else
  let st := start.toNat
  if st + nl - 1 > s.dtmax then (s, .error Err.ValueError) else
  let (s, labs) := readLabels s
  if labs.headD 0 == st && (labs.getLastD 0 - labs.headD 0 + 1 == nl) then (s, .ok ()) else
  let old := s.cSlices
  let (s, _) := readMax s
  let f := rankMap labs st
  let newd := (Array.range s.n).map fun p => f (s.d p)
  (commit relabelRow s newd f ((List.range nl).map (st + ·)) old, .ok ())

/-- `reassign_labels(labels, new_label, relabel)` -/
def reassign (s : State) (ls : List Nat) (new : Nat) (relabel : Bool) : State × Except Err Unit :=
  let (s, ok) := checkLabels s ls
  if !ok then (s, .error Err.ValueError) else
  -- nothing to reassign: `relabel` is still honoured
  if ls.isEmpty then (if relabel then relabelConsecutive s 1 else (s, .ok ())) else
  let (s, _) := readMax s
  let (s, _) := readLabels s
  if new > s.dtmax then (s, .error Err.Overflow) else
  let g : Nat → Nat := fun l => if ls.contains l then new else l
  let f : Nat → Nat :=
    if relabel then
      let labs2 := dLabels s.n (fun p => g (s.d p))
      fun l => rankMap labs2 1 (g l)
    else g
  let newd := (Array.range s.n).map fun p => f (s.d p)
  (commit reassignRow s newd f [] none, .ok ())

def removeLabels (s : State) (ls : List Nat) (relabel : Bool) : State × Except Err Unit :=
  let (s, ok) := checkLabels s ls
  if !ok then (s, .error Err.ValueError) else reassign s ls 0 relabel

def keepLabels (s : State) (ls : List Nat) (relabel : Bool) : State × Except Err Unit :=
  let (s, ok) := checkLabels s ls
  if !ok then (s, .error Err.ValueError) else
  let (s, labs) := readLabels s
  removeLabels s (labs.filter fun l => !ls.contains l) relabel

/-- `remove_masked_labels(mask, partial_overlap, relabel)` -/
def removeMasked (s : State) (mask : Nat → Bool) (partialOverlap relabel : Bool) : State × Except Err Unit :=
  let inMask := dLabels s.n (fun p => if mask p then s.d p else 0)
  let rm := if partialOverlap then inMask else
    let interior := dLabels s.n (fun p => if mask p then 0 else s.d p)
    inMask.filter fun l => !interior.contains l
  removeLabels s rm relabel

/-- border mask of `remove_border_labels` as written: `mask[:w] = True; mask[-w:] = True` on both axes.
    NB python's `-0:` is the whole axis. -/
def borderMask (ny nx w : Nat) (guardZero : Bool) : Nat → Bool := fun p =>
  let y := p / nx
  let x := p % nx
  if w = 0 then (if guardZero then false else true)
  else y < w || y + w ≥ ny || x < w || x + w ≥ nx

/-- assigning `.data = value` (validated: non-negative integers) -/
def setData (s : State) (ny nx : Nat) (newd : Array Nat) (dtmax : Nat) : State :=
  let s := { s with ny := ny, nx := nx, dtmax := dtmax }
  commit setterRow s newd id (dLabels (ny * nx) (fun p => newd.getD p 0)) none

def init (ny nx : Nat) (data : Array Nat) (dtmax : Nat) : State :=
  { ny := ny, nx := nx, data := data, dtmax := dtmax,
    cLabels := some (dLabels (ny * nx) (fun p => data.getD p 0)) }

/-- `remove_border_labels(border_width, partial_overlap, relabel)` -/
def removeBorder (s : State) (w : Nat) (partialOverlap relabel : Bool) : State × Except Err Unit :=
  if 2 * w ≥ min s.ny s.nx then (s, .error Err.ValueError) else
  removeMasked s (borderMask s.ny s.nx w true) partialOverlap relabel

inductive Op where
  | readLabels | readRaw | readSlices | readAreas | readNlabels | readMax
  | reassign (ls : List Nat) (new : Nat) (relabel : Bool)
  | relabel (start : Int)
  | keep (ls : List Nat) (relabel : Bool)
  | remove (ls : List Nat) (relabel : Bool)
  | removeMasked (mask : List Bool) (partialOverlap relabel : Bool)
  | removeBorder (w : Nat) (partialOverlap relabel : Bool)
  | setData (ny nx : Nat) (data : Array Nat) (dtmax : Nat)
deriving Repr

inductive Out where
  | unit | err (e : Err) | nat (v : Nat) | nats (v : List Nat) | boxes (v : List Box)
  | raw (v : List (Option Box))
deriving Repr

def ofExcept : State × Except Err Unit → State × Out
  | (s, .ok _) => (s, .unit)
  | (s, .error e) => (s, .err e)

def step (s : State) : Op → State × Out
  | .readLabels => let (s, v) := readLabels s; (s, .nats v)
  | .readRaw => let (s, v) := readRaw s; (s, .raw v)
  | .readSlices => let (s, v) := readSlices s; (s, .boxes v)
  | .readAreas => let (s, v) := readAreas s; (s, .nats v)
  | .readNlabels => let (s, v) := readNlabels s; (s, .nat v)
  | .readMax => let (s, v) := readMax s; (s, .nat v)
  | .reassign ls new rl => ofExcept (reassign s ls new rl)
  | .relabel st => ofExcept (relabelConsecutive s st)
  | .keep ls rl => ofExcept (keepLabels s ls rl)
  | .remove ls rl => ofExcept (removeLabels s ls rl)
  | .removeMasked m po rl =>
      if m.length ≠ s.n then (s, .err Err.ValueError)
      else ofExcept (removeMasked s (fun p => m.getD p false) po rl)
  | .removeBorder w po rl => ofExcept (removeBorder s w po rl)
  | .setData ny nx data dtmax => (setData s ny nx data dtmax, .unit)

def run (s : State) (ops : List Op) : State := ops.foldl (fun s o => (step s o).1) s

end PhotVerif.Model.Segm
