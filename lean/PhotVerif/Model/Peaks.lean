/-
  Model of photutils.detection.find_peaks (peakfinder.py) and of the selection layer of the star finders
  (apply_filters / select_brightest / reset_ids).  Core Lean only.
-/
import PhotVerif.Model.V
namespace PhotVerif.Model.Peaks
open PhotVerif.Model

/-- total order key for non-NaN values: (-inf < finite < +inf) -/
def key : V → Int × Rat
  | .ninf => (-1, 0) | .fin q => (0, q) | .pinf => (1, 0) | .nan => (-2, 0)

/-- `a ≥ b` on keys (lexicographic) -/
def geK (a b : Int × Rat) : Bool := decide (a.1 > b.1) || (decide (a.1 = b.1) && decide (a.2 ≥ b.2))
def gtK (a b : Int × Rat) : Bool := decide (a.1 > b.1) || (decide (a.1 = b.1) && decide (a.2 > b.2))

structure Cfg where
  ny : Nat
  nx : Nat
  offsets : List (Int × Int)       -- footprint as (dy, dx) offsets from the pixel
  borderY : Nat
  borderX : Nat

def inImage (c : Cfg) (y x : Int) : Bool := decide (0 ≤ y ∧ y < c.ny ∧ 0 ≤ x ∧ x < c.nx)

/-- value of the padded image: the data inside, `cval` outside -/
def padded (c : Cfg) (d : Nat → Int × Rat) (cval : Int × Rat) (y x : Int) : Int × Rat :=
  if inImage c y x then d (y.toNat * c.nx + x.toNat) else cval

/-- `data == maximum_filter(data, footprint, mode='constant', cval)` at pixel p -/
def isNbhdMax (c : Cfg) (d : Nat → Int × Rat) (cval : Int × Rat) (p : Nat) : Bool :=
  let y : Int := (p / c.nx : Nat)
  let x : Int := (p % c.nx : Nat)
  -- the pixel equals the maximum iff it is ≥ every footprint value and equals one of them
  c.offsets.all (fun o => geK (d p) (padded c d cval (y + o.1) (x + o.2))) &&
  c.offsets.any (fun o => padded c d cval (y + o.1) (x + o.2) == d p)

def inBorder (c : Cfg) (p : Nat) : Bool :=
  let y := p / c.nx
  let x := p % c.nx
  (decide (0 < c.borderY) && (decide (y < c.borderY) || decide (y + c.borderY ≥ c.ny))) ||
  (decide (0 < c.borderX) && (decide (x < c.borderX) || decide (x + c.borderX ≥ c.nx)))

/-- the candidate peaks in raster order -/
def candidates (c : Cfg) (d : Nat → Int × Rat) (cval : Int × Rat) (thr : Nat → Int × Rat) (mask : Nat → Bool) :
    List Nat :=
  (List.range (c.ny * c.nx)).filter fun p =>
    isNbhdMax c d cval p && !mask p && !inBorder c p && gtK (d p) (thr p)

/-- the n entries with the largest keys (stable: earlier entries win ties), in decreasing order -/
def topN {α : Type} (kf : α → Int × Rat) (n : Nat) (l : List α) : List α :=
  (l.mergeSort fun a b => geK (kf a) (kf b)).take n

/-- `find_peaks`: `none` iff nothing qualifies; all candidates in raster order, or the npeaks highest -/
def findPeaks (c : Cfg) (d : Nat → Int × Rat) (cval : Int × Rat) (thr : Nat → Int × Rat) (mask : Nat → Bool)
    (npeaks : Option Nat) : Option (List Nat) :=
  let cs := candidates c d cval thr mask
  if cs.isEmpty then none else
  match npeaks with
  | some n => if cs.length > n then some (topN d n cs) else some cs
  | none => some cs

/-! star finders: selection layer -/

structure StarRow where
  finite : Bool          -- all of centroid, hx, hy, sharpness, roundness1/2, peak, flux are finite
  inBounds : Bool        -- sharpness / roundness / peakmax criteria (inclusive bounds)
  flux : Rat
deriving Repr

/-- raw-catalogue entry i passes `apply_filters` -/
def passes (rows : List StarRow) (i : Nat) : Bool :=
  match rows[i]? with | some r => r.finite && r.inBounds | none => false

/-- indices (into the raw catalogue) returned by `apply_all_filters`, in output order; ids are 1..N -/
def selectStars (rows : List StarRow) (brightest : Option Nat) : Option (List Nat) :=
  let idx := (List.range rows.length).filter (passes rows)
  if idx.isEmpty then none else
  match brightest with
  | none => some idx
  | some n => some (topN (fun i => match rows[i]? with | some r => ((0 : Int), r.flux) | none => (0, 0)) n idx)

/-! ### the `min_separation` neighbourhood of the star finders (`StarFinderBase._find_stars`) -/

/-- integer offsets (dy, dx) of the circular footprint: `idx = arange(-n, n + 1)` with `n = int(sep)`,
    `footprint = (xx**2 + yy**2 <= sep**2)`; scipy centres an odd footprint on the pixel -/
def sepOffsets (sep : Rat) : List (Int × Int) :=
  let n : Int := sep.floor
  let r : List Int := (List.range (2 * n.toNat + 1)).map fun (k : Nat) => (k : Int) - n
  (r.flatMap fun dy => r.map fun dx => (dy, dx)).filter fun o =>
    decide (((o.1 * o.1 + o.2 * o.2 : Int) : Rat) ≤ sep * sep)

/-- which neighbourhood `_find_stars` hands to the peak finder: the kernel's own footprint for a separation of exactly zero,
    the disk `sepOffsets` otherwise -/
inductive Neighbourhood where
  | kernelFootprint
  | disk (offsets : List (Int × Int))
deriving DecidableEq, Repr

def neighbourhood (sep : Rat) : Neighbourhood :=
  if sep = 0 then .kernelFootprint else .disk (sepOffsets sep)

/-- the separation `IRAFStarFinder` works with: the caller's `min_separation` whenever one is given (zero included), otherwise
    `max(2, int(fwhm * minsep_fwhm + 0.5))`; `none` = the constructor raises (negative separation) -/
def irafMinSep (given : Option Rat) (fwhm minsepFwhm : Rat) : Option Rat :=
  match given with
  | some s => if s < 0 then none else some s
  | none => some (((max 2 (fwhm * minsepFwhm + 1 / 2).floor : Int)) : Rat)

/-! ### the pixel a supplied position (`xycoords`) belongs to -/

/-- `np.ceil(x - 0.5).astype(int)`: the pixel whose centre is nearest, the lower one on a tie (ceil a = -floor (-a)) -/
def xyPixel (x : Rat) : Int := -(-(x - 1 / 2)).floor

/-- `np.round` (half to even), for contrast: NOT what the finders use -/
def roundHalfEven (x : Rat) : Int :=
  let f := x.floor
  if x - f < 1 / 2 then f else if x - f > 1 / 2 then f + 1 else if f % 2 = 0 then f else f + 1

end PhotVerif.Model.Peaks
