/-
  Model of photutils.utils._moments._moments_central: M[j][i] = Σ (x − xc)^i (y − yc)^j · data[y, x]
  (row index = power of y, column index = power of x).  Core Lean only.
-/
namespace PhotVerif.Model.Moments

def sumR (l : List Rat) : Rat := l.foldl (· + ·) 0

/-- central moment with x-power i and y-power j of an ny × nx raster about (xc, yc) -/
def centralMoment (ny nx : Nat) (w : Nat → Rat) (xc yc : Rat) (i j : Nat) : Rat :=
  sumR ((List.range (ny * nx)).map fun p => (((p % nx : Nat) : Rat) - xc) ^ i * (((p / nx : Nat) : Rat) - yc) ^ j * w p)

/-- `_moments_central(data, center=(xc, yc), order)`: (order+1)² matrix, row = y-power, column = x-power -/
def momentsCentral (ny nx : Nat) (w : Nat → Rat) (xc yc : Rat) (order : Nat) : List (List Rat) :=
  (List.range (order + 1)).map fun j => (List.range (order + 1)).map fun i => centralMoment ny nx w xc yc i j

end PhotVerif.Model.Moments
