/-
  Model of photutils.centroids (core.py): centroid_com, the vertex rule of centroid_quadratic
  (least-squares solver as a parameter) and the per-source loop of centroid_sources.  Core Lean only.
-/
import PhotVerif.Gen.CentroidTable
import PhotVerif.Model.V
namespace PhotVerif.Model.Centroid
open PhotVerif PhotVerif.Model PhotVerif.Gen.CentroidTable

/-- value used by centroid_com: masked and non-finite pixels count as 0 -/
def comVal (d : Nat → V) (mask : Nat → Bool) (p : Nat) : Rat :=
  if mask p then 0 else match d p with | .fin q => q | _ => 0

def sumR (l : List Rat) : Rat := l.foldl (· + ·) 0

/-- `centroid_com(data, mask)` on an ny × nx cut-out: (x, y), `none` = (NaN, NaN) when the total is 0 -/
def centroidCom (ny nx : Nat) (d : Nat → V) (mask : Nat → Bool) : Option (Rat × Rat) :=
  let ps := List.range (ny * nx)
  let total := sumR (ps.map (comVal d mask))
  if total = 0 then none else
  some (sumR (ps.map fun p => ((p % nx : Nat) : Rat) * comVal d mask p) / total,
        sumR (ps.map fun p => ((p / nx : Nat) : Rat) * comVal d mask p) / total)

/-- the vertex rule of `centroid_quadratic` applied to fitted coefficients
    c10·x + c01·y + c11·xy + c20·x² + c02·y²; `none` = (NaN, NaN) -/
def quadVertex (c10 c01 c11 c20 c02 : Rat) (ny nx : Nat) : Option (Rat × Rat) :=
  let det := 4 * c20 * c02 - c11 * c11
  if det ≤ 0 ∨ ((c20 > 0 ∧ c02 ≥ 0) ∨ (c20 ≥ 0 ∧ c02 > 0)) then none else
  let xm := (c01 * c11 - 2 * c02 * c10) / det
  let ym := (c10 * c11 - 2 * c20 * c01) / det
  if 0 < xm ∧ xm < (nx : Rat) - 1 ∧ 0 < ym ∧ ym < (ny : Rat) - 1 then some (xm, ym) else none

/-- `py2intround`: nearest integer, ties away from zero -/
def py2intround (a : Rat) : Int := if a ≥ 0 then (a + 1/2).floor else (a - 1/2).ceil

/-- keyword state threaded through the per-source loop: the (cumulative) origin by which `error` has been
    sliced and `xpeak` shifted -/
structure Kw where
  errOrigin : Int × Int := (0, 0)
  peakShift : Int × Int := (0, 0)
deriving DecidableEq, Repr

/-- the keywords one source receives, given the origin of its cut-out and the keywords it starts from -/
def sourceKw (start : Kw) (origin : Int × Int) : Kw :=
  { errOrigin := (start.errOrigin.1 + origin.1, start.errOrigin.2 + origin.2),
    peakShift := (start.peakShift.1 + origin.1, start.peakShift.2 + origin.2) }

/-- the per-source loop of `centroid_sources`: result i = f(cut-out i, keywords i) + origin i.
    Whether keywords are derived from the caller's keywords for every source, or carried over from the
    previous source, is read off the source (Gen/CentroidTable.lean). -/
def centroidSources {β : Type} (f : (Int × Int) → Kw → β) (origins : List (Int × Int)) : List β :=
  let carried := outerKwargsMutatedInLoop || !kwargsFreshPerSource
  (origins.foldl (fun (acc : List β × Kw) o =>
    let kw := sourceKw (if carried then acc.2 else {}) o
    (acc.1 ++ [f o kw], kw)) ([], {})).1

end PhotVerif.Model.Centroid
