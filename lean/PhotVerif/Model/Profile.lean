/-
  Model of photutils.profiles: CurveOfGrowth / RadialProfile arithmetic on top of per-radius
  aperture sums (which are the C02 model), and the monotone-prefix rule of calc_radius_at_ee.
  Core Lean only.
-/
import PhotVerif.Model.Prelude
namespace PhotVerif.Model.Profile

/-- consecutive differences `np.diff` -/
def diff : List Rat → List Rat
  | a :: b :: rest => (b - a) :: diff (b :: rest)
  | _ => []

/-- RadialProfile.profile = diff(flux) / diff(area); `none` = NaN (0/0) or inf (x/0) -/
def radialProfile (flux area : List Rat) : List (Option Rat) :=
  List.zipWith (fun f a => if a = 0 then none else some (f / a)) (diff flux) (diff area)

/-- squared RadialProfile.profile_error = diff(err²) / diff(area)² -/
def radialErr2 (err2 area : List Rat) : List (Option Rat) :=
  List.zipWith (fun e a => if a = 0 then none else some (e / (a * a))) (diff err2) (diff area)

/-- number of leading samples kept by `calc_radius_at_ee`: if `np.diff(profile) <= 0` somewhere, the
    samples up to and including the first index `i` with `p[i+1] ≤ p[i]`; otherwise all of them -/
def monoPrefixLen : List Rat → Nat
  | a :: b :: rest => if b ≤ a then 1 else 1 + monoPrefixLen (b :: rest)
  | [_] => 1
  | [] => 0

def monoPrefix (p : List Rat) : List Rat := p.take (monoPrefixLen p)

end PhotVerif.Model.Profile
