/-
  Connected-component labelling by min-index propagation — an executable model of
  `_detect_sources` (photutils/segmentation/detect.py) that does NOT use scipy's algorithm:
  every foreground pixel repeatedly takes the minimum raster index among itself and its
  foreground 4/8-neighbours until nothing changes; a component is then named by its
  minimum raster index, components with fewer than `npixels` pixels are dropped and the
  survivors are numbered 1..N in increasing order of that index.  Core Lean only.
-/
import PhotVerif.Model.V
namespace PhotVerif.Model.CCL

def offsets (conn8 : Bool) : List (Int × Int) :=
  if conn8 then [(-1, -1), (-1, 0), (-1, 1), (0, -1), (0, 1), (1, -1), (1, 0), (1, 1)]
  else [(-1, 0), (0, -1), (0, 1), (1, 0)]

/-- foreground neighbours (as raster indices `y*nx + x`) of pixel `p` -/
def nbrs (ny nx : Nat) (conn8 : Bool) (fg : Nat → Bool) (p : Nat) : List Nat :=
  (offsets conn8).filterMap fun d =>
    let y : Int := ((p / nx : Nat) : Int) + d.1
    let x : Int := ((p % nx : Nat) : Int) + d.2
    if 0 ≤ y ∧ y < ny ∧ 0 ≤ x ∧ x < nx ∧ fg (y.toNat * nx + x.toNat) = true
    then some (y.toNat * nx + x.toNat) else none

def foldMin (v : Nat → Nat) (d : Nat) (l : List Nat) : Nat :=
  l.foldl (fun acc q => min acc (v q)) d

def newval (fg : Nat → Bool) (nb : Nat → List Nat) (v : Nat → Nat) (p : Nat) : Nat :=
  if fg p then foldMin v (v p) (nb p) else v p

/-- the value table is an array; `F v` is its function view -/
def F (v : Array Nat) : Nat → Nat := fun q => v.getD q 0

def step (n : Nat) (fg : Nat → Bool) (nb : Nat → List Nat) (v : Array Nat) : Array Nat :=
  (Array.range n).map fun p => newval fg nb (F v) p

def run (n : Nat) (fg : Nat → Bool) (nb : Nat → List Nat) : Nat → Array Nat → Array Nat
  | 0, v => v
  | fuel + 1, v =>
    let v' := step n fg nb v
    if v' = v then v else run n fg nb fuel v'

/-- the fixpoint table for an `ny × nx` image -/
def components (ny nx : Nat) (conn8 : Bool) (fg : Nat → Bool) : Array Nat :=
  let n := ny * nx
  run n fg (nbrs ny nx conn8 fg) ((List.range n).sum + 1) (Array.range n)

def roots (n : Nat) (fg : Nat → Bool) (v : Array Nat) : List Nat :=
  (List.range n).filter fun p => fg p && F v p == p

def compSize (n : Nat) (fg : Nat → Bool) (v : Array Nat) (root : Nat) : Nat :=
  (List.range n).countP fun q => fg q && F v q == root

def kept (n : Nat) (fg : Nat → Bool) (v : Array Nat) (npixels : Nat) : List Nat :=
  (roots n fg v).filter fun r => decide (npixels ≤ compSize n fg v r)

/-- label of pixel `p` given the list `k` of surviving component roots (ascending) -/
def label (fg : Nat → Bool) (v : Array Nat) (k : List Nat) (p : Nat) : Nat :=
  if fg p && k.contains (F v p) then k.idxOf (F v p) + 1 else 0

structure Detection where
  nlabels : Nat
  data : List Nat                 -- labels, row-major
  areas : List Nat                -- per label 1..N
  boxes : List (Nat × Nat × Nat × Nat)  -- per label: ymin ymax(excl) xmin xmax(excl)
deriving Repr

def bboxOf (nx : Nat) (lab : List Nat) (k : Nat) : Nat × Nat × Nat × Nat :=
  let ps := (List.range lab.length).filter fun p => lab.getD p 0 == k
  let ys := ps.map (· / nx)
  let xs := ps.map (· % nx)
  (ys.foldl min (ys.headD 0), ys.foldl max 0 + 1, xs.foldl min (xs.headD 0), xs.foldl max 0 + 1)

/-- `_detect_sources(..., relabel=True)`: `none` iff nothing survives -/
def detect (ny nx : Nat) (conn8 : Bool) (fg : Nat → Bool) (npixels : Nat) : Option Detection :=
  let n := ny * nx
  let v := components ny nx conn8 fg
  let k := kept n fg v npixels
  if k.isEmpty then none else
  let lab := (List.range n).map (label fg v k)
  some { nlabels := k.length, data := lab, areas := k.map (compSize n fg v),
         boxes := (List.range k.length).map fun i => bboxOf nx lab (i + 1) }

/-- foreground predicate of `detect_sources`: strictly above threshold, not masked; NaN is never above -/
def foreground (data thr : Nat → V) (mask : Nat → Bool) : Nat → Bool :=
  fun p => V.lt (thr p) (data p) && !mask p

end PhotVerif.Model.CCL
