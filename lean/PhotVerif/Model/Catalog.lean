/-
  Per-source measurements of photutils.segmentation.SourceCatalog (catalog.py), on the function view
  of the inputs.  For label ℓ the *footprint* is the set of pixels carrying ℓ that are unmasked and
  finite; every modelled column is an explicit function of the pixel list of ℓ.  Core Lean only.
-/
import PhotVerif.Model.Segm
import PhotVerif.Model.V
namespace PhotVerif.Model.Catalog
open PhotVerif.Model PhotVerif.Model.Segm

structure Inputs where
  ny : Nat
  nx : Nat
  seg : Nat → Nat
  data : Nat → V
  conv : Nat → V                   -- convolved data (== data when none was given)
  mask : Nat → Bool
  err : Option (Nat → V)
  bkg : Option (Nat → V)

def Inputs.n (I : Inputs) : Nat := I.ny * I.nx

def finVal : V → Option Rat
  | .fin q => some q
  | _ => none

/-- pixels of label ℓ (raster order) -/
def segPix (I : Inputs) (l : Nat) : List Nat := pix I.n I.seg l

/-- measurement footprint: pixels of ℓ that are unmasked with finite data -/
def footprint (I : Inputs) (l : Nat) : List Nat :=
  (segPix I l).filter fun p => !I.mask p && (I.data p).isFinite

def sumOver (f : Nat → V) (ps : List Nat) : Rat := (ps.map fun p => (finVal (f p)).getD 0).foldl (· + ·) 0

/-- `segment_flux` (no local background): `none` = NaN (completely masked source) -/
def segmentFlux (I : Inputs) (l : Nat) : Option Rat :=
  let F := footprint I l
  if F.isEmpty then none else some (sumOver I.data F)

/-- squared `segment_fluxerr` -/
def segmentFluxErr2 (I : Inputs) (l : Nat) : Option V :=
  match I.err with
  | none => none
  | some e =>
    let F := footprint I l
    if F.isEmpty then some V.nan else some (V.sum (F.map fun p => V.sq (e p)))

def area (I : Inputs) (l : Nat) : Option Nat :=
  let F := footprint I l
  if F.isEmpty then none else some F.length

def segmentArea (I : Inputs) (l : Nat) : Nat := (segPix I l).length

def bbox (I : Inputs) (l : Nat) : Box := boxOf I.nx (segPix I l)

/-- first pixel (raster order within the bounding box = raster order of the image restricted to ℓ's box)
    attaining the minimum / maximum over the footprint, as image (y, x) -/
def argExt (I : Inputs) (l : Nat) (better : Rat → Rat → Bool) : Option (Nat × Nat × Rat) :=
  (footprint I l).foldl (fun acc p =>
    match finVal (I.data p), acc with
    | some v, none => some (p / I.nx, p % I.nx, v)
    | some v, some (y, x, w) => if better v w then some (p / I.nx, p % I.nx, v) else some (y, x, w)
    | none, a => a) none

def minval (I : Inputs) (l : Nat) := argExt I l (fun v w => decide (v < w))
def maxval (I : Inputs) (l : Nat) := argExt I l (fun v w => decide (v > w))

/-- value of the zeroed convolved cut-out used for the moments (`_moment_data_cutouts`) -/
def momVal (I : Inputs) (l : Nat) (p : Nat) : Rat :=
  match finVal (I.conv p) with
  | some v => if I.seg p = l ∧ I.mask p = false ∧ 0 ≤ v then v else 0
  | none => 0

/-- raw moment m_{pq} = Σ y^p x^q v over the bounding-box cut-out, in cut-out coordinates -/
def rawMoment (I : Inputs) (l : Nat) (py px : Nat) : Rat :=
  let b := bbox I l
  ((segPix I l).map fun p =>
    (((p / I.nx - b.y0 : Nat) : Rat) ^ py) * (((p % I.nx - b.x0 : Nat) : Rat) ^ px) * momVal I l p).foldl (· + ·) 0

/-- centroid (x, y) in image coordinates: cut-out centroid + bounding-box origin; `none` = NaN (m00 = 0) -/
def centroid (I : Inputs) (l : Nat) : Option (Rat × Rat) :=
  let m00 := rawMoment I l 0 0
  if m00 = 0 then none else
  let b := bbox I l
  some (rawMoment I l 0 1 / m00 + b.x0, rawMoment I l 1 0 / m00 + b.y0)

/-- normalised second central moments (mu20/mu00 along x, mu11/mu00, mu02/mu00 along y) -/
def secondMoments (I : Inputs) (l : Nat) : Option (Rat × Rat × Rat) :=
  let m00 := rawMoment I l 0 0
  if m00 = 0 then none else
  let xc := rawMoment I l 0 1 / m00
  let yc := rawMoment I l 1 0 / m00
  some (rawMoment I l 0 2 / m00 - xc * xc, rawMoment I l 1 1 / m00 - xc * yc, rawMoment I l 2 0 / m00 - yc * yc)

def backgroundSum (I : Inputs) (l : Nat) : Option V :=
  match I.bkg with
  | none => none
  | some b =>
    let F := footprint I l
    if F.isEmpty then some V.nan else some (V.sum (F.map b))

end PhotVerif.Model.Catalog
