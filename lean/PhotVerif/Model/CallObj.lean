/-
  Objects that are *called* repeatedly (PSFPhotometry, IterativePSFPhotometry):
  a call first resets the result attributes, then may write attributes, then computes.
  Configuration = attributes assigned in `__init__` that are not result attributes.
  The per-class attribute sets are regenerated from the source (Gen/ConfigWrites.lean).
-/
import PhotVerif.Gen.ConfigWrites
namespace PhotVerif.Model.CallObj
open PhotVerif.Gen.ConfigWrites

/-- attribute store: name ↦ version stamp of the call that last wrote it (0 = constructor) -/
abbrev Store := String → Nat

/-- one call number `i ≥ 1`: resets `resetAttrs`, then writes any subset `ws` of `writtenElsewhere` -/
def call (row : ClassRow) (st : Store) (i : Nat) (ws : List String) : Store :=
  fun a => if ws.contains a && row.writtenElsewhere.contains a then i
           else if row.resetAttrs.contains a then i else st a

def calls (row : ClassRow) (st : Store) : List (List String) → Nat → Store
  | [], _ => st
  | ws :: rest, i => calls row (call row st i ws) rest (i + 1)

/-- the configuration attributes: assigned by the constructor and not re-initialised by every call -/
def isConfig (row : ClassRow) (a : String) : Bool :=
  row.initAttrs.contains a && !row.resetAttrs.contains a

/-- decidable well-formedness: nothing outside the reset set is written by a call -/
def wf (row : ClassRow) : Bool :=
  row.callResetsFirst && row.writtenElsewhere.all fun a => row.resetAttrs.contains a

end PhotVerif.Model.CallObj
