import PhotVerif.Driver.ApSum
import PhotVerif.Model.Moments
namespace PhotVerif.Driver
open PhotVerif PhotVerif.Model.Moments

/-- `cmoment ny nx xc yc order | data` → the (order+1)² central-moment matrix, row-major (row = y-power) -/
def handleMoments (op : String) (args : List String) : Option String :=
  match op, splitBar args with
  | "cmoment", [[ny, nx, xc, yc, order], ds] => do
      let ny ← parseNat? ny; let nx ← parseNat? nx; let order ← parseNat? order
      let xc ← parseRat? xc; let yc ← parseRat? yc
      let dv ← allSome (ds.map parseRat?)
      if dv.length ≠ ny * nx then none else
      let da := dv.toArray
      let m := momentsCentral ny nx (fun p => da.getD p 0) xc yc order
      some ("ok " ++ joinSp (m.flatten.map showRat))
  | _, _ => none

end PhotVerif.Driver
