import PhotVerif.Driver.ApSum
import PhotVerif.Model.CCL
namespace PhotVerif.Driver
open PhotVerif PhotVerif.Model PhotVerif.Model.CCL

/-- `detect ny nx conn npix | data.. | thr (1 or n tokens) | mask..|-` -/
def handleDetect (op : String) (args : List String) : Option String :=
  match op, splitBar args with
  | "detect", [hd, ds, ts, ms] => do
      let [ny, nx, conn, npix] ← allSome (hd.map parseNat?) | none
      if conn ≠ 4 ∧ conn ≠ 8 then none else
      if npix = 0 ∨ ny = 0 ∨ nx = 0 then none else
      let n := ny * nx
      let dl ← allSome (ds.map V.parse?)
      let tl ← allSome (ts.map V.parse?)
      if dl.length ≠ n ∨ (tl.length ≠ n ∧ tl.length ≠ 1) then none else
      let da := dl.toArray
      let ta := tl.toArray
      let mask ← parseMask ms ny nx
      let data : Nat → V := fun p => da.getD p V.nan
      let thr : Nat → V := fun p => if ta.size = 1 then ta.getD 0 V.nan else ta.getD p V.nan
      let fgA := (Array.range n).map (foreground data thr (fun p => mask (p / nx) (p % nx)))
      let fg : Nat → Bool := fun p => fgA.getD p false
      match detect ny nx (conn == 8) fg npix with
      | none => some "none"
      | some d =>
        some (s!"ok {d.nlabels} | " ++ joinSp (d.data.map toString) ++ " | " ++ joinSp (d.areas.map toString)
          ++ " | " ++ joinSp (d.boxes.map fun (a, b, c, e) => s!"{a} {b} {c} {e}"))
  | _, _ => none

end PhotVerif.Driver
