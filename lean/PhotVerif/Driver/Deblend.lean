import PhotVerif.Driver.Segm
import PhotVerif.Model.Deblend
import PhotVerif.Model.LabelDtype
namespace PhotVerif.Driver
open PhotVerif PhotVerif.Model.Segm PhotVerif.Model.Deblend

/-- `deblend n npixels relabel | seg.. | labels|- | order|- | L:none L:v0,v1,.. ...` -/
def handleDeblend (op : String) (args : List String) : Option String :=
  match op, splitBar args with
  | "deblend", [hd, ss, ls, os, cs] => do
      let [n, npix, rl] ← allSome (hd.map parseNat?) | none
      let sl ← allSome (ss.map parseNat?)
      if sl.length ≠ n then none else
      let sa := sl.toArray
      let seg : Nat → Nat := fun p => sa.getD p 0
      let labels ← (if ls == ["-"] then some (dLabels n seg) else allSome (ls.map parseNat?))
      let children ← allSome (cs.filter (· ≠ "-") |>.map fun t => match t.splitOn ":" with
        | [l, "none"] => do let l ← parseNat? l; some (l, (none : Option (Array Nat)))
        | [l, vs] => do
            let l ← parseNat? l
            let v ← parseNatList? vs
            if v.length ≠ n then none else some (l, some v.toArray)
        | _ => none)
      let sel := selectLabels n seg labels npix
      -- every selected label must come with a result
      if ¬ sel.all (fun l => children.any (·.1 == l)) then none else
      let D : Nat → Option Child := fun l =>
        match children.find? (·.1 == l) with
        | some (_, some a) => some (fun p => a.getD p 0)
        | _ => none
      let st ← (if os == ["-"] then some (serial n seg sel D) else do
        let order ← allSome (os.map parseNat?)
        if ¬ (List.range sel.length).all (fun i => order.contains i) then none else
        some (parallel n seg sel D order))
      let (out, dm) := finalize n st (rl == 1)
      some ("ok | " ++ joinSp ((List.range n).map fun p => toString (out.getD p 0)) ++ " | " ++
        (if dm.isEmpty then "-" else joinSp (dm.map fun (p, c) => s!"{p}:{showNats c}")))
  | "fitdtype", [[kind, bits, v]] => do
      -- `fitdtype i|u <bits> <value>` → dtype after `_fit_label_dtype`, e.g. "ok u 16", or "ok float"
      let bits ← parseNat? bits
      let v ← parseNat? v
      let signed ← (if kind == "i" then some true else if kind == "u" then some false else none)
      some (match Model.LabelDtype.fitDtype ⟨signed, bits⟩ v with
        | some d => s!"ok {if d.signed then "i" else "u"} {d.bits}"
        | none => "ok float")
  | _, _ => none

end PhotVerif.Driver
