import PhotVerif.Driver.ApSum
import PhotVerif.Model.Peaks
import PhotVerif.Model.Centroid
namespace PhotVerif.Driver
open PhotVerif PhotVerif.Model PhotVerif.Model.Peaks

def minKey (l : List (Int × Rat)) : Int × Rat :=
  l.foldl (fun m k => if gtK m k then k else m) (l.headD (0, 0))

/-- `peaks ny nx by bx npeaks|- | dy,dx ... | data | thr | mask` -/
def handlePeaks (op : String) (args : List String) : Option String :=
  match op, splitBar args with
  | "sepfoot", [[sep]] => do
      -- `sepfoot <min_separation>` → the (dy,dx) offsets of the separation neighbourhood, raster order
      let sep ← parseRat? sep
      some ("ok " ++ joinSp ((sepOffsets sep).map fun o => s!"{o.1},{o.2}"))
  | "xypix", [xs] => do
      -- `xypix x x x ...` → the pixel index each supplied coordinate belongs to
      let xs ← allSome (xs.map parseRat?)
      some ("ok " ++ joinSp (xs.map fun x => toString (xyPixel x)))
  | "irafsep", [[given, fwhm, mf]] => do
      -- `irafsep <min_separation|none> <fwhm> <minsep_fwhm>` → the separation in force and the kind of neighbourhood
      let given ← (if given == "none" then some none else (parseRat? given).map some)
      let fwhm ← parseRat? fwhm; let mf ← parseRat? mf
      some (match irafMinSep given fwhm mf with
        | none => "err ValueError"
        | some s => "ok " ++ showRat s ++ " " ++ (match neighbourhood s with
            | .kernelFootprint => "kernel"
            | .disk offs => joinSp (offs.map fun o => s!"{o.1},{o.2}")))
  | "peaks", [hd, os, ds, ts, ms] => do
      let [ny, nx, by_, bx, np] := hd | none
      let ny ← parseNat? ny; let nx ← parseNat? nx; let by_ ← parseNat? by_; let bx ← parseNat? bx
      let np ← (if np == "-" then some none else (parseNat? np).map some)
      let n := ny * nx
      let offs ← allSome (os.map fun t => match t.splitOn "," with
        | [a, b] => do some ((← parseInt? a), (← parseInt? b))
        | _ => none)
      let dl ← allSome (ds.map V.parse?)
      let tl ← allSome (ts.map V.parse?)
      if dl.length ≠ n ∨ (tl.length ≠ n ∧ tl.length ≠ 1) ∨ n = 0 then none else
      let mask2 ← parseMask ms ny nx
      -- NaN pixels are replaced by the minimum of the non-NaN data
      let finite := dl.filter (· != V.nan)
      if finite.isEmpty then none else
      let mn := minKey (finite.map key)
      let da := (dl.map fun v => if v == V.nan then mn else key v).toArray
      let d : Nat → Int × Rat := fun p => da.getD p (0, 0)
      -- constant image (tested on the input, where NaN equals nothing): no peaks
      if finite.length == dl.length && da.all (· == da.getD 0 (0, 0)) then some "none" else
      let ta := (tl.map key).toArray
      let thr : Nat → Int × Rat := fun p => if ta.size = 1 then ta.getD 0 (0, 0) else ta.getD p (0, 0)
      let thrNan : Nat → Bool := fun p => (if tl.length = 1 then tl.getD 0 V.nan else tl.getD p V.nan) == V.nan
      let c : Cfg := ⟨ny, nx, offs, by_, bx⟩
      -- NaN data pixels take the minimum value for the neighbourhood test but are themselves never peaks (defect F57)
      let dataNan : Nat → Bool := fun p => dl.getD p V.nan == V.nan
      let mask : Nat → Bool := fun p => mask2 (p / nx) (p % nx) || thrNan p || dataNan p
      some (match findPeaks c d mn thr mask np with
        | none => "none"
        | some ps => "ok " ++ joinSp (ps.map toString))
  | "stars", [_, rs, br] => do
      let rows ← allSome (rs.filter (· ≠ "-") |>.map fun t => match t.splitOn "," with
        | [f, b, fl] => do
            let f ← parseNat? f; let b ← parseNat? b; let fl ← parseRat? fl
            some (⟨f == 1, b == 1, fl⟩ : StarRow)
        | _ => none)
      let br ← (match br with | ["-"] => some none | [n] => (parseNat? n).map some | _ => none)
      some (match selectStars rows br with
        | none => "none"
        | some idx => "ok " ++ joinSp (idx.map toString))
  | "com", [hd, ds, ms] => do
      let [ny, nx] ← allSome (hd.map parseNat?) | none
      let dl ← allSome (ds.map V.parse?)
      if dl.length ≠ ny * nx then none else
      let da := dl.toArray
      let mask2 ← parseMask ms ny nx
      some (match Model.Centroid.centroidCom ny nx (fun p => da.getD p V.nan) (fun p => mask2 (p / nx) (p % nx)) with
        | none => "nan"
        | some (x, y) => s!"ok {showRat x} {showRat y}")
  | "quadv", [a] => do
      let [c10, c01, c11, c20, c02, ny, nx] := a | none
      let c10 ← parseRat? c10; let c01 ← parseRat? c01; let c11 ← parseRat? c11
      let c20 ← parseRat? c20; let c02 ← parseRat? c02
      let ny ← parseNat? ny; let nx ← parseNat? nx
      some (match Model.Centroid.quadVertex c10 c01 c11 c20 c02 ny nx with
        | none => "nan"
        | some (x, y) => s!"ok {showRat x} {showRat y}")
  | "round", [[a]] => do
      let a ← parseRat? a
      some s!"ok {Model.Centroid.py2intround a}"
  | _, _ => none

end PhotVerif.Driver
