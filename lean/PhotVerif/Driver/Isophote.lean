import PhotVerif.Driver.Basic
import PhotVerif.Model.Isophote
namespace PhotVerif.Driver
open PhotVerif PhotVerif.Model.Isophote

/-- `topolar x0 y0 pa x y` (float bits) → scalar and vectorised results (float bits);
    `smalist sma0 step lin minsma maxsma|none guard stopOut stopIn fuel` → sorted sma list;
    `corrector a1 a2 a3 a4 f1 f2 f3 f4` → index | none -/
def handleIsophote (op : String) (args : List String) : Option String :=
  match op, args with
  | "topolar", [x0, y0, pa, x, y] => do
      let x0 ← parseFloat? x0; let y0 ← parseFloat? y0; let pa ← parseFloat? pa
      let x ← parseFloat? x; let y ← parseFloat? y
      let a := toPolarScalar x0 y0 pa x y
      let b := toPolarVecElem x0 y0 pa x y
      some s!"ok {showFloat a.1} {showFloat a.2} {showFloat b.1} {showFloat b.2}"
  | "smalist", [s0, step, lin, mn, mx, guard, so, si, fuel] => do
      let s0 ← parseRat? s0; let step ← parseRat? step; let mn ← parseRat? mn
      let mx ← (if mx == "none" then some none else (parseRat? mx).map some)
      let so ← parseNat? so; let si ← parseNat? si; let fuel ← parseNat? fuel
      let c : Cfg := ⟨s0, step, lin == "1", mn, mx, guard == "1"⟩
      let l := sortedSmas c (fun i => if i == so then .stop else .ok) (fun i => if i == si then .stop else .ok) fuel
      some ("ok " ++ joinSp (l.map showRat))
  | "corrector", [a1, a2, a3, a4, f1, f2, f3, f4] => do
      let amps ← allSome ([a1, a2, a3, a4].map parseRat?)
      some (match chooseCorrector amps ([f1, f2, f3, f4].map (· == "1")) with
        | none => "none" | some k => s!"ok {k}")
  | _, _ => none

end PhotVerif.Driver
