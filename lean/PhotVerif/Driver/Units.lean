import PhotVerif.Driver.ApSum
import PhotVerif.Model.Units
namespace PhotVerif.Driver
open PhotVerif PhotVerif.Model.Units

def parseEntry (s : String) : Option Entry :=
  if s == "absent" then some .absent else if s == "plain" then some .plain
  else if s.startsWith "u" then (s.drop 1).toNat?.map .unit else none

def parseOptNat (s : String) : Option (Option Nat) := if s == "none" then some none else s.toNat?.map some

/-- `pquant e1 e2 ...` → `ok none|k` / `err Kind`;
    `toterr d b g du bu gOK` (unit ids or none; gOK = 1 if data·gain is a count unit) → `ok tot² unit` / `err Kind` -/
def handleUnits (op : String) (args : List String) : Option String :=
  match op, args with
  | "pquant", es => do
      let es ← allSome (es.map parseEntry)
      some (match processQuantities es with
        | .ok none => "ok none" | .ok (some k) => s!"ok {k}" | .error e => "err " ++ e.name)
  | "toterr", [d, b, g, du, bu, gu] => do
      let d ← parseRat? d; let b ← parseRat? b; let g ← parseRat? g
      let du ← parseOptNat du; let bu ← parseOptNat bu; let gu ← parseOptNat gu
      -- the gain's "unit id" only matters through presence and count-compatibility
      some (match totalErrorUnit du bu (gu.map fun _ => 0) (gu == some 1) with
        | .error e => "err " ++ e.name
        | .ok u => match totalError2 d b g with
          | .error e => "err " ++ e.name
          | .ok t => s!"ok {showRat t} " ++ (match u with | none => "none" | some k => toString k))
  | _, _ => none

end PhotVerif.Driver
