import PhotVerif.Driver.ApSum
import PhotVerif.Driver.Segm
import PhotVerif.Model.Catalog
namespace PhotVerif.Driver
open PhotVerif PhotVerif.Model PhotVerif.Model.Catalog

def showOR : Option Rat → String
  | some q => showRat q | none => "nan"
def showOV : Option V → String
  | some v => v.toString | none => "-"
def showExt : Option (Nat × Nat × Rat) → String
  | some (y, x, v) => s!"{y} {x} {showRat v}" | none => "nan nan nan"

def parseVArr (toks : List String) (n : Nat) : Option (Option (Nat → V)) :=
  if toks == ["-"] then some none else
  match allSome (toks.map V.parse?) with
  | none => none
  | some l => if l.length ≠ n then none else
      let a := l.toArray
      some (some fun p => a.getD p V.nan)

/-- `cat ny nx | seg | data | conv|- | mask|- | err|- | bkg|- | labels` -/
def handleCatalog (op : String) (args : List String) : Option String :=
  match op, splitBar args with
  | "cat", [hd, ss, ds, cs, ms, es, bs, ls] => do
      let [ny, nx] ← allSome (hd.map parseNat?) | none
      let n := ny * nx
      let sl ← allSome (ss.map parseNat?)
      if sl.length ≠ n then none else
      let sa := sl.toArray
      let some data ← parseVArr ds n | none
      let conv ← parseVArr cs n
      let mask2 ← parseMask ms ny nx
      let err ← parseVArr es n
      let bkg ← parseVArr bs n
      let labels ← allSome (ls.map parseNat?)
      let I : Inputs := { ny := ny, nx := nx, seg := fun p => sa.getD p 0, data := data,
                          conv := conv.getD data, mask := fun p => mask2 (p / nx) (p % nx), err := err, bkg := bkg }
      some ("ok " ++ " ; ".intercalate (labels.map fun l =>
        let b := bbox I l
        let c := centroid I l
        let sm := secondMoments I l
        joinSp [toString l, showOR (segmentFlux I l), (match area I l with | some a => toString a | none => "nan"),
          toString (segmentArea I l), s!"{b.y0} {b.y1} {b.x0} {b.x1}", showExt (minval I l), showExt (maxval I l),
          showRat (rawMoment I l 0 0), showOR (c.map (·.1)), showOR (c.map (·.2)),
          showOR (sm.map (·.1)), showOR (sm.map (·.2.1)), showOR (sm.map (·.2.2)),
          showOV (segmentFluxErr2 I l), showOV (backgroundSum I l)]))
  | _, _ => none

end PhotVerif.Driver
