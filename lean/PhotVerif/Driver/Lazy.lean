import PhotVerif.Driver.Basic
import PhotVerif.Model.Lazy
import PhotVerif.Model.ProfileNorm
import PhotVerif.Gen.Bkg2DTable
import PhotVerif.Model.Profile
import PhotVerif.Model.CatSlice
import PhotVerif.Driver.ApSum
namespace PhotVerif.Driver
open PhotVerif PhotVerif.Model.Lazy PhotVerif.Gen.Bkg2DTable

def instSteps (selective thrNone : Bool) (steps : List Step) : List Micro :=
  steps.filterMap fun s =>
    if s.onlySelective && !selective then none
    else some (if s.isDrop then Micro.drop s.res (if s.orThrNone && thrNone then [] else s.guardKeys)
               else Micro.use s.res)

/-- `lazy.bkg selective thrNone k k k ...` : first failing read of the history, or ok -/
def handleLazy (op : String) (args : List String) : Option String :=
  match op, args with
  | "lazy.bkg", sel :: thr :: ks => do
      let sel ← parseNat? sel; let thr ← parseNat? thr
      let ks ← allSome (ks.map parseNat?)
      if ks.any (· ≥ 2) then none else
      let rows := [instSteps (sel == 1) (thr == 1) bkgMeshSteps, instSteps (sel == 1) (thr == 1) rmsMeshSteps]
      some (match runHistory (tblOf rows) ks fresh 0 with
        | none => "ok"
        | some i => s!"fail {i}")
  | "prof.run", ops => do
      let ops ← allSome (ops.map fun t =>
        if t == "u" then some Model.ProfileNorm.Op.unnormalize
        else if t.startsWith "r" then (parseNat? (t.drop 1).toString).map Model.ProfileNorm.Op.read
        else if t.startsWith "n:" then (parseRat? (t.drop 2).toString).map Model.ProfileNorm.Op.normalize
        else none)
      let s := Model.ProfileNorm.run Gen.ProfileTable.rows ops
      some ("ok " ++ showRat s.norm ++ " " ++ joinSp (s.sc.map fun o => match o with
        | some v => showRat v | none => "-"))
  | "catsel", n :: form :: rest => do
      let n ← parseNat? n
      let idx ← (match form, rest with
        | "int", [i] => (parseInt? i).map Model.CatSlice.Index.int
        | "slice", [a, b, st] => do
            some (Model.CatSlice.Index.slice (← parseNat? a) (← parseNat? b) (← parseNat? st))
        | "ints", [is] => (allSome ((is.splitOn ",").map parseInt?)).map Model.CatSlice.Index.ints
        | "mask", [bits] => (allSome (bits.toList.map fun c => if c == '1' then some true else if c == '0' then some false else none)).map Model.CatSlice.Index.mask
        | _, _ => none)
      some (match Model.CatSlice.positions n idx with
        | none => "err IndexError"
        | some ps => "ok " ++ (if ps.isEmpty then "-" else ",".intercalate (ps.map toString)))
  | "catlabels", rest =>
      -- `catlabels <labels of the catalogue> | <requested labels>` → positions or ValueError
      match splitBar rest with
      | [labs, req] => do
          let labs ← allSome (labs.map parseNat?)
          let req ← allSome (req.map parseNat?)
          some (match Model.CatSlice.labelPositions labs req with
            | none => "err ValueError"
            | some ps => "ok " ++ (if ps.isEmpty then "-" else ",".intercalate (ps.map toString)))
      | _ => none
  | "prof.monoprefix", vs => do
      let v ← allSome (vs.map parseRat?)
      some s!"ok {Model.Profile.monoPrefixLen v}"
  | "prof.radial", rest =>
      match splitBar rest with
      | [fs, as_, es] => do
          let f ← allSome (fs.map parseRat?)
          let a ← allSome (as_.map parseRat?)
          let showO : Option Rat → String := fun o => match o with | some v => showRat v | none => "nan"
          let p := Model.Profile.radialProfile f a
          let e ← (if es == ["-"] then some [] else do
            let e ← allSome (es.map parseRat?)
            some (Model.Profile.radialErr2 e a))
          some ("ok | " ++ joinSp (p.map showO) ++ " | " ++ joinSp (e.map showO))
      | _ => none
  | _, _ => none

end PhotVerif.Driver
