import PhotVerif.Driver.Basic
import PhotVerif.Model.Effects
namespace PhotVerif.Driver
open PhotVerif PhotVerif.Model.Effects

/-- prefix notation: k | a d s | f d | w v | s A B | i A B | l A -/
partial def parseStmt : List String → Option (Stmt × List String)
  | "k" :: r => some (.skip, r)
  | "a" :: d :: s :: r => do some (.assign (← d.toNat?) (← s.toNat?), r)
  | "f" :: d :: r => do some (.fresh (← d.toNat?), r)
  | "w" :: v :: r => do some (.write (← v.toNat?), r)
  | "s" :: r => do
      let (a, r1) ← parseStmt r
      let (b, r2) ← parseStmt r1
      some (.seq a b, r2)
  | "i" :: r => do
      let (a, r1) ← parseStmt r
      let (b, r2) ← parseStmt r1
      some (.ite a b, r2)
  | "l" :: r => do
      let (a, r1) ← parseStmt r
      some (.loop a, r1)
  | _ => none

/-- `eff fuel k nvars retvar in1,in2,.. prog...` → `ok <safe> | <inputs the return variable may alias>`;
    only the listed input variables (a subset of 0..k-1) are treated as caller buffers -/
def handleEffects (op : String) (args : List String) : Option String :=
  match op, args with
  | "eff", fuel :: k :: nv :: ret :: ins :: prog => do
      let fuel ← fuel.toNat?; let k ← k.toNat?; let nv ← nv.toNat?; let ret ← ret.toNat?
      let ins ← (if ins == "-" then some [] else allSome ((ins.splitOn ",").map String.toNat?))
      let (p, rest) ← parseStmt prog
      if !rest.isEmpty then none else
      let e : AState := (List.range (max k nv)).map fun i => if i < k && ins.contains i then [i] else []
      let r := absExec fuel p e
      some (s!"ok {if r.2 then 1 else 0} | " ++ joinSp ((r.1.get ret).map toString))
  | _, _ => none

end PhotVerif.Driver
